#!/bin/sh
# Confirm a delivered seeded change:  vp/seedconfirm.sh C07
#  1. the demo passes on the original library and fails on the changed one (as built by the author in /tmp/mut/s_<id>/build)
#  2. the repository's stable tests still pass with the patch (scratch test build)
id=$1
D=/tmp/mut/s_$id/deliver
L="-lfmt -lboost_system -lboost_filesystem -lboost_date_time -lcjson -fopenmp -ldl"
mkdir -p /tmp/mut/confirm_$id && cd /tmp/mut/confirm_$id || exit 2
g++ -std=c++17 -O1 -fopenmp -I/tmp/mut/origwt -I/tmp/mut/orig_build -I/tmp/mut/orig_build/include $D/demo.cpp /tmp/mut/orig_build/lib/libopmcommon.a $L -o demo_orig 2> cc_orig.log || { echo "demo does not compile against original"; tail -5 cc_orig.log; }
g++ -std=c++17 -O1 -fopenmp -I/tmp/mut/wt_$id -I/tmp/mut/s_$id/build -I/tmp/mut/s_$id/build/include $D/demo.cpp /tmp/mut/s_$id/build/lib/libopmcommon.a $L -o demo_mut 2> cc_mut.log || { echo "demo does not compile against changed"; tail -5 cc_mut.log; }
./demo_orig > out_orig.txt 2>&1; echo "demo on original: exit $?"
./demo_mut > out_mut.txt 2>&1; echo "demo on changed:  exit $?"
git -C /tmp/mut/wt_$id diff > patch_now.diff; cmp -s patch_now.diff $D/patch.diff && echo "patch.diff equals the worktree diff" || echo "NOTE: patch.diff differs from the worktree diff"
/verif/vp/seedtests.sh $D/patch.diff 2>&1 | tail -3
