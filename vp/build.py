#!/usr/bin/env python3
"""Build orchestration: library flavours of /repo's *current working tree* + harness binaries.

  build.py lib <flavour>                 configure (once) and `ninja opmcommon`
  build.py harness <flavour> <name>...   lib + the named harness binaries (see HARNESSES)
  build.py all                           everything (setup)

Everything lives under /verif/_build (git-ignored).  A per-flavour flock serialises concurrent
checks.  Harnesses are built through a generated build.ninja with gcc depfiles so that edits to
headers under /repo (the header-only opm/material code in particular) retrigger them.
"""
import fcntl
import os
import subprocess
import sys
import time

VERIF = os.path.dirname(os.path.dirname(os.path.abspath(__file__)))
REPO = os.environ.get("VERIF_REPO", "/repo")
BUILD = os.environ.get("VERIF_BUILD", os.path.join(VERIF, "_build"))
GUARD = "OPM_COMMON_VERIF"

COMMON = "-fopenmp -pthread -D%s=1" % GUARD
FLAVOURS = {
    # name: (CXX, CC, flags)
    "plain": ("g++", "gcc", "-O1 " + COMMON),
    "asan": ("g++", "gcc", "-O1 -g1 -fno-omit-frame-pointer -fsanitize=address,undefined "
                            "-fno-sanitize-recover=all " + COMMON),
    "tsan": ("clang++-14", "clang-14", "-O1 -g1 -fsanitize=thread " + COMMON),
}

# harness name -> (source relative to /verif/harness, extra compile flags)
HARNESSES = {}


def _load_harness_table():
    """every harness/*.cpp is a harness named after the file; extra compile/link flags come from a
    `// FLAGS: ...` comment within its first 5 lines"""
    hdir = os.path.join(VERIF, "harness")
    for fn in sorted(os.listdir(hdir)):
        if not fn.endswith(".cpp"):
            continue
        extra = ""
        with open(os.path.join(hdir, fn), errors="replace") as f:
            for _ in range(5):
                line = f.readline()
                if line.startswith("// FLAGS:"):
                    extra = line[len("// FLAGS:"):].strip()
        HARNESSES[fn[:-4]] = (fn, extra)


def log(msg):
    sys.stderr.write("[build] %s\n" % msg)
    sys.stderr.flush()


def run(cmd, **kw):
    r = subprocess.run(cmd, stdout=subprocess.PIPE, stderr=subprocess.STDOUT, text=True, **kw)
    if r.returncode != 0:
        tail = "\n".join(r.stdout.splitlines()[-60:])
        log("FAILED: %s\n%s" % (" ".join(cmd) if isinstance(cmd, list) else cmd, tail))
        raise SystemExit(2)
    return r.stdout


class Lock:
    def __init__(self, name):
        os.makedirs(BUILD, exist_ok=True)
        self.f = open(os.path.join(BUILD, ".lock-" + name), "w")

    def __enter__(self):
        fcntl.flock(self.f, fcntl.LOCK_EX)
        return self

    def __exit__(self, *a):
        fcntl.flock(self.f, fcntl.LOCK_UN)
        self.f.close()


def libdir(flavour):
    return os.path.join(BUILD, flavour)


def build_lib(flavour):
    cxx, cc, flags = FLAVOURS[flavour]
    d = libdir(flavour)
    t0 = time.time()
    if not os.path.exists(os.path.join(d, "build.ninja")):
        os.makedirs(d, exist_ok=True)
        log("configuring %s" % flavour)
        run(["cmake", "-G", "Ninja", "-S", REPO, "-B", d,
             "-DCMAKE_BUILD_TYPE=None",
             "-DCMAKE_CXX_COMPILER=" + cxx, "-DCMAKE_C_COMPILER=" + cc,
             "-DCMAKE_CXX_FLAGS=" + flags, "-DCMAKE_C_FLAGS=" + flags.replace("-D%s=1" % GUARD, ""),
             "-DBUILD_TESTING=OFF", "-DBUILD_EXAMPLES=OFF", "-DOPM_ENABLE_PYTHON=OFF",
             "-DOPM_ENABLE_EMBEDDED_PYTHON=OFF",
             "-DUSE_MPI=OFF", "-DSIBLING_SEARCH=OFF",
             "-Dfmt_DIR=/usr/lib/x86_64-linux-gnu/cmake/fmt"])
    out = run(["ninja", "-C", d, "opmcommon"])
    dt = time.time() - t0
    if dt > 5:
        log("lib %s built in %.0fs" % (flavour, dt))
    return d


def build_harnesses(flavour, names):
    _load_harness_table()
    cxx, cc, flags = FLAVOURS[flavour]
    ld = build_lib(flavour)
    hd = os.path.join(BUILD, "harness", flavour)
    os.makedirs(hd, exist_ok=True)
    lines = [
        "cxx = %s" % cxx,
        "flags = -std=c++17 %s -I%s -I%s -I%s/include -I%s/harness" % (flags, REPO, ld, ld, VERIF),
        "libs = %s/lib/libopmcommon.a -lfmt -lboost_system -lboost_filesystem -lboost_date_time -lcjson -fopenmp -ldl" % ld,
        "rule cxx",
        "  command = $cxx $flags $extra -MD -MF $out.d -o $out $in $libs",
        "  depfile = $out.d",
        "  deps = gcc",
        "  description = HARNESS $out",
    ]
    for n, (src, extra) in sorted(HARNESSES.items()):
        lines.append("build %s: cxx %s/harness/%s | %s/lib/libopmcommon.a" % (n, VERIF, src, ld))
        lines.append("  extra = %s" % extra)
    txt = "\n".join(lines) + "\n"
    nf = os.path.join(hd, "build.ninja")
    if not os.path.exists(nf) or open(nf).read() != txt:
        open(nf, "w").write(txt)
    for n in names:
        if n not in HARNESSES:
            log("unknown harness %s" % n)
            raise SystemExit(2)
    if names:
        t0 = time.time()
        run(["ninja", "-C", hd] + list(names))
        dt = time.time() - t0
        if dt > 5:
            log("harness %s [%s] built in %.0fs" % (",".join(names), flavour, dt))
    return hd


def main(argv):
    if len(argv) < 2:
        print(__doc__)
        return 2
    if argv[1] == "lib":
        with Lock(argv[2]):
            build_lib(argv[2])
    elif argv[1] == "harness":
        with Lock(argv[2]):
            build_harnesses(argv[2], argv[3:])
    elif argv[1] == "all":
        _load_harness_table()
        for fl in FLAVOURS:
            with Lock(fl):
                build_lib(fl)
        # harness/HARNESSES.txt may restrict a harness to some flavours with `@plain,asan` as 2nd field
    else:
        print(__doc__)
        return 2
    return 0


if __name__ == "__main__":
    sys.exit(main(sys.argv))
