#!/bin/sh
# The repository's own test suite with the verification guard OFF: /repo/_build is the repository's own build tree
# (configured without -DOPM_COMMON_VERIF).  Rebuild it from the current working tree and run ctest the way
# BASELINE.json does.  23 tests fail in this offline sandbox independently of /verif (BASELINE.json: always_fail).
cd /repo/_build || exit 2
# A few targets (CO2/H2 table users) cannot link in this sandbox because co2tables.inc / h2tables.inc are emptied here; they
# are not part of the baseline.  Build everything that can be built (-k 0) and let ctest tell which tests pass.
ninja -C /repo/_build -k 0 > /tmp/opm_baseline_off.build.log 2>&1 || echo "note: some targets of /repo/_build did not build (see /tmp/opm_baseline_off.build.log); continuing with ctest"
ctest --test-dir /repo/_build -j8 --timeout 900 --output-junit /tmp/opm_baseline_off.junit.xml
python3 - <<'PY'
import json, xml.etree.ElementTree as ET, sys
base = json.load(open('/root/.vp/BASELINE.json'))
want = {n.split('::')[0] for n in base['stable_pass']}
t = ET.parse('/tmp/opm_baseline_off.junit.xml').getroot()
ok = {tc.get('name') for tc in t.iter('testcase') if tc.find('failure') is None and tc.get('status','run') in ('run','passed')}
missing = sorted(want - ok)
print("baseline stable tests passing: %d / %d" % (len(want & ok), len(want)))
if missing:
    print("NOT PASSING:", missing); sys.exit(1)
PY
