#!/usr/bin/env python3
"""show the first differing dump line of a C01/C19 witness file"""
import sys
t=open(sys.argv[1],errors='replace').read()
a=t.split('--- dump base ---\n')[1].split('--- dump variant ---\n')
la,lb=a[0].splitlines(),a[1].splitlines()
for x,y in zip(la,lb):
    if x!=y:
        i=0
        while i<min(len(x),len(y)) and x[i]==y[i]: i+=1
        print("BASE   :",x[max(0,i-150):i+150]); print("VARIANT:",y[max(0,i-150):i+150]); break
else: print("line count differs",len(la),len(lb))
