#!/bin/sh
# Does a seeded change compile and pass the repository's own (stable) tests?
#   vp/seedtests.sh <patch.diff>
# Uses the scratch worktree /tmp/mut/seedwt and its test build /tmp/mut/seedtests (configured like /repo/_build).
PATCH="$1"
WT=/tmp/mut/seedwt
git -C $WT checkout -q -- .
git -C $WT checkout -q --detach "$(git -C /repo rev-parse HEAD)"
git -C $WT apply "$PATCH" || { echo "patch does not apply"; exit 2; }
ninja -C /tmp/mut/seedtests -k 0 > /tmp/mut/seedtests_build.log 2>&1
grep -c "FAILED" /tmp/mut/seedtests_build.log | sed 's/^/build FAILED targets: /'
grep "FAILED" /tmp/mut/seedtests_build.log | grep -v "test_binarycoefficients\|co2\|h2\|brine\|test_blackoilfluidsystem" | head -5
ctest --test-dir /tmp/mut/seedtests -j8 --timeout 900 --output-junit /tmp/mut/seedtests.junit.xml > /tmp/mut/seedtests_ctest.log 2>&1
python3 - <<'PY'
import json, xml.etree.ElementTree as ET, sys
base = json.load(open('/root/.vp/BASELINE.json'))
want = {n.split('::')[0] for n in base['stable_pass']}
t = ET.parse('/tmp/mut/seedtests.junit.xml').getroot()
ok = {tc.get('name') for tc in t.iter('testcase') if tc.find('failure') is None and tc.get('status','run') in ('run','passed')}
missing = sorted(want - ok)
print("stable tests passing with the change: %d / %d" % (len(want & ok), len(want)))
if missing: print("NOT PASSING:", missing)
sys.exit(1 if missing else 0)
PY
rc=$?
git -C $WT checkout -q -- .
exit $rc
