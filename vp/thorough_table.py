#!/usr/bin/env python3
"""Markdown table of the last complete thorough run of every check (evidence/thorough/*.json) -> DESIGN.md 9.9"""
import json, os, glob
V = os.path.dirname(os.path.dirname(os.path.abspath(__file__)))
print("| property | seed | cases | distinct non-trivial | wall | stages (cases, seconds, flavour) | verdict |")
print("|---|---|---|---|---|---|---|")
for f in sorted(glob.glob(V + "/evidence/thorough/C*.json")):
    e = json.load(open(f)); c = e["coverage"]
    st = "; ".join("%s %s %.0fs %s" % (s["stage"], format(s["evaluations"], ","), s["wall_s"], s["flavour"]) for s in c["stages"])
    kf = len(c.get("known_findings_met", {}))
    print("| %s | %d | %s | %s | %.0f s | %s | %s%s |" % (e["property_id"], e["seed"], format(c["evaluations"], ","), format(c["distinct_nontrivial"], ","),
          e["wall_s"], st, c["verdict"], (", %d known finding key(s)" % kf) if kf else ""))
