#!/usr/bin/env python3
"""print the prompt for a seeded-change agent:  mutant_prompt.py C07 [suffix]"""
import json, sys, os, subprocess
pid = sys.argv[1]; suf = sys.argv[2] if len(sys.argv) > 2 else ""
V = os.path.dirname(os.path.dirname(os.path.abspath(__file__)))
prop = [json.loads(l) for l in open(V + "/properties.jsonl") if l.strip() and json.loads(l)["id"] == pid][0]
wt = "/tmp/mut/wt_%s%s" % (pid, suf); sc = "/tmp/mut/s_%s%s" % (pid, suf)
if not os.path.exists(wt):
    subprocess.run(["git", "-C", "/repo", "worktree", "add", "-q", "--detach", wt, "HEAD"], check=True)
text = "Title: %s\nStatement: %s\nQuantified over: %s\nSource files the property is anchored in: %s" % (
    prop["title"], prop["statement"], prop["quantifier"]["text"], ", ".join(prop["anchors"]["files"]))
t = open(V + "/notes/agent_prompts/MUTANT.md").read()
print(t.replace("{WORKTREE}", wt).replace("{SCRATCH}", sc).replace("{PROPERTY}", text))
