#!/usr/bin/env python3
import sys
t=open(sys.argv[1],errors='replace').read()
a=t.split('--- printed ---\n')[1].split('--- printed again ---\n')
la,lb=a[0].splitlines(),a[1].splitlines()
for i,(x,y) in enumerate(zip(la,lb)):
    if x!=y:
        print("line",i); print(" 1st:",la[max(0,i-2):i+2]); print(" 2nd:",lb[max(0,i-2):i+2]); break
else: print("line count differs",len(la),len(lb), la[-3:], lb[-3:])
