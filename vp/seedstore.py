#!/usr/bin/env python3
"""Store a confirmed seeded change: vp/seedstore.py <id> <needs_to_manifest> <caught_by> <missed_first>"""
import sys, os, shutil, json
pid, needs, caught, missed = sys.argv[1:5]
prop = pid[:3]
src = f"/tmp/mut/s_{pid}/deliver"
dst = f"/verif/seeded/{pid}"
os.makedirs(dst, exist_ok=True)
for f in os.listdir(src):
    if os.path.getsize(os.path.join(src, f)) < 400000:
        shutil.copy(os.path.join(src, f), dst)
meta = {
 "property": prop,
 "breaks": f"the property {prop} (see properties.jsonl)",
 "needs_to_manifest": needs,
 "what_i_ran": [
  f"vp/seedconfirm.sh {pid}  (demo exit 0 on the original library, non-zero on the changed one; repository stable tests 164/164 with the patch in a scratch test build)",
  f"vp/seedcheck.sh seeded/{pid}/patch.diff {prop} [--stage ...]  (check run against a scratch worktree with the patch applied, private build dir)"
 ],
 "caught_by": caught,
 "missed_by_the_check_as_first_built": missed,
 "author": "independent sub-agent given only the property text and a scratch worktree"
}
json.dump(meta, open(os.path.join(dst, "meta.json"), "w"), indent=1)
print("stored", dst, os.listdir(dst))
