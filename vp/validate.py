#!/usr/bin/env python3
"""Validate MANIFEST.json and evidence/*.json against the schemas (needs the tooling venv: python3-vt vp/validate.py)."""
import json, glob, jsonschema, sys
ok = True
jsonschema.validate(json.load(open('/verif/MANIFEST.json')), json.load(open('/root/.vp/MANIFEST.schema.json')))
es = json.load(open('/root/.vp/EVIDENCE.schema.json'))
for f in sorted(glob.glob('/verif/evidence/*.json')):
    try:
        jsonschema.validate(json.load(open(f)), es)
    except Exception as e:
        ok = False; print("INVALID", f, str(e)[:300])
# props sanity: every stage of every property file is a dict naming a harness that exists (a stray string in a stages list once
# made setup_cmd fail)
import os as _os, sys as _sys
_sys.path.insert(0, _os.path.dirname(_os.path.abspath(__file__)))
import props as _props
for _pid, _P in _props.PROPS.items():
    for _st in _P["stages"]:
        assert isinstance(_st, dict) and "harness" in _st and "cases" in _st, "props.d/%s.py: malformed stage %r" % (_pid, _st)
        assert _os.path.exists(_os.path.join(_os.path.dirname(_os.path.dirname(_os.path.abspath(__file__))), "harness", _st["harness"] + ".cpp")), "no harness " + _st["harness"]
print("props: stages well formed")
print("valid" if ok else "INVALID")
sys.exit(0 if ok else 1)
