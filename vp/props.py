"""Per-property check configuration (stages, budgets, evidence texts)."""

Q, T = "quick", "thorough"

PROPS = {}

# properties whose check is finished, validated and registered in MANIFEST.json (others may exist in props.d while in work)
CLAIMED = ["C%02d" % i for i in range(1, 21)]

# properties deliberately not claimed, with the reason (see DESIGN.md section 4)
NOT_APPLICABLE = {}

ENGINES = [
    {"name": "runtime-monitor", "path": "vp/driver.py + harness/*.cpp",
     "serves_properties": ["C%02d" % i for i in range(1, 21)],
     "kind_free_text": "generated/hostile workloads against the real library in 16 worker processes; oracles: reference models, "
                       "relational (metamorphic/differential) comparison of complete observable state, invariant hook in the Schedule, "
                       "AddressSanitizer+UBSan and ThreadSanitizer builds; three-valued verdicts; known-finding matching"},
]


import glob as _glob
import os as _os
for _f in sorted(_glob.glob(_os.path.join(_os.path.dirname(_os.path.abspath(__file__)), "props.d", "C*.py"))):
    _ns = {}
    exec(compile(open(_f).read(), _f, "exec"), _ns)
    PROPS[_os.path.basename(_f)[:-3]] = _ns["PROP"]
