Q, T = "quick", "thorough"

PROP = dict(
    level="exploration",
    level_text="Random operation lists over 31 floating and integer arrays of the five sections are rendered to deck text, run "
               "through the real parser, EclipseGrid and FieldPropsManager (built as EclipseState builds them) and compared "
               "cell by cell (a) with a reference interpreter that works in deck units on all cells and knows nothing about "
               "ACTNUM (1e-12 relative to the largest magnitude met, integers exactly; an independent unit table converts at "
               "the end) and (b) bit for bit with the run of the same deck in which every cell is active. Exploration is the "
               "right level: the space of operation sequences is unbounded; the oracle is exact.",
    level_note="Trusts the 300-line reference interpreter and its reading of the keyword rules (record boxes, 'must exist', "
               "keyword defaults, EDIT multipliers, zero pore volume => inactive). Inputs the library refuses are counted, "
               "not judged.",
    technique="reference-model monitor (deck-unit interpreter) + ACTNUM differential, over generated keyword programs",
    rule="grids (1..6)^3, ACTNUM patterns (random, layer, stripes, checkerboard, EQUALS ACTNUM 0 boxes, cells without pore "
         "volume), METRIC/FIELD/LAB/PVT-M, 1..25 generated operations per deck plus opening assignments, drawn from array data "
         "in the input BOX with n* defaults and repeats, BOX/ENDBOX, EQUALS/ADD/MULTIPLY/MINVALUE/MAXVALUE/COPY/OPERATE "
         "records with given, partly defaulted and inherited boxes, EQUALREG/ADDREG/MULTIREG/COPYREG/OPERATER on "
         "MULTNUM/FLUXNUM/OPERNUM; the generator keeps an operation only if the reference defines its result on all cells. "
         "A case is non-trivial when the library accepted the deck, at least 3 operations were applied, at least one cell "
         "is inactive and at least one cell was compared with the reference; distinct = distinct deck text.",
    stages=[dict(harness="c12_fieldprops", flavour="plain", cases={Q: 120000, T: 1500000}, timeout={Q: 900, T: 7200},
                 tier_args={T: ["big=50"]})],
    min_nontrivial={Q: 50000, T: 468750},
    coverage_floor=[("c12_fieldprops", "cells_compared_with_reference", {Q: 15000000, T: 140625000}),
                    ("c12_fieldprops", "cells_compared_with_all_active_run", {Q: 15000000, T: 140625000})],
    not_decided=[
        "operations the library refuses (exceptions) are outside the comparison; a sequence the keyword rules define but the "
        "library refuses is only counted (counter refused_unexpected)",
        "TRANX/TRANY/TRANZ in EDIT (deferred calculators), the SCHEDULE section multipliers, compositional arrays (XMF/YMF/ZMF), "
        "MULTREGP/MINPV interaction with the pore volume, numerical aquifers",
        "COPY/OPERATE/region operations on multiplier arrays inside EDIT, explicit PORV combined with MULTPV in EDIT, OPERATE "
        "with non-linear functions on arrays that carry a unit, COPY between arrays of different unit: the documentation "
        "does not fix the result, the generator stays away",
        "region set defaulted without GRIDOPTS NRMULT>0 (library falls back to FLUXNUM)",
        "values of integer arrays that are only partly defined at the end (no accessor shows them)",
        "value_status (defaulted / deck) flags are not compared, only values and definedness",
    ],
    assumptions=[
        "record box rule: all six items defaulted = the box in force (input BOX or previous record), otherwise missing items "
        "mean the grid extent (DESIGN 6.9)",
        "keyword defaults as in the keyword definitions: PORO/PERMY/PERMZ n* = 0, MULT[XYZ] n* = 1, NTG/MULT*/region "
        "numbers created as 1, TEMPI = RTEMP, SWL/SWCR/SWU from the SWOF table of the cell's SATNUM, PORV = V*PORO*NTG*MULTPV",
        "MULT* and MULTPV entered in EDIT act multiplicatively on top of the GRID values at the end of EDIT",
    ],
)
