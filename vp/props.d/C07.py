Q, T = "quick", "thorough"

PROP = dict(
    level="exploration",
    level_text="Every array sequence is written by EclOutput and judged by an independent reference codec (own constants from the "
               "published layout) in both directions: the bytes must decode to what was written, must equal the reference "
               "encoding byte for byte, and EclFile must read the values back and index the file at the reference offsets. The "
               "length sub-space around the block boundaries is enumerated completely in every run; values and multi-array files "
               "are sampled, hence exploration.",
    level_note="Trusts the ~450-line reference codec (harness/common/ecl_ref_codec.hpp) and libc's printf/strtod for decimal digits. "
               "Formatted reals are compared to half a unit of the last printed digit (8 / 14 significant digits) plus one ulp for "
               "the reader's conversion; -0.0 is printed as zero; NaN/Inf tokens NAN/INF/-INF are the library's convention "
               "(the published layout has none).",
    technique="reference-model monitor (independent codec) in three directions: lib-write->ref-read, byte equality with ref-write, "
              "lib-write/ref-write->lib-read, plus index/seek-size cross-check",
    rule="idx < 33752: one file per (type in INTE/REAL/DOUB/LOGI/CHAR/C0nn) x (length 0..2*block+2; block 1000 numeric, 105 string) x "
         "{formatted, unformatted} x {ECL, IX}, the array optionally preceded by a MESS and always followed by a sentinel array; "
         "later: random files of 1..8 arrays (random types, MESS interleaved, boundary-biased lengths up to maxlen, every string "
         "write API). Values: random + groups of extremes (INT_MIN/MAX, +-0, denormals, FLT/DBL_MAX, 3-digit exponents of both "
         "signs, rounding carries, +-inf, NaN, raw bit patterns unformatted; empty, full-width, blank-containing strings). "
         "Non-trivial: at least one data element; distinct = distinct hash of (format, reference bytes).",
    stages=[
        dict(harness="c07_codec", flavour="plain", cases={Q: 33752 + 6000, T: 33752 + 250000}, timeout={Q: 600, T: 5400},
             args=["mode=full"], tier_args={Q: ["maxlen=20000"], T: ["maxlen=100000"]}),
        dict(id="c07_codec_asan", harness="c07_codec", flavour="asan", cases={Q: 330 + 1670, T: 330 + 20000}, timeout={Q: 600, T: 5400},
             args=["mode=boundary", "wide_c0nn=1"], tier_args={Q: ["maxlen=5000"], T: ["maxlen=30000"]}),
    ],
    min_nontrivial={Q: 35000, T: 191180},
    coverage_floor=[("c07_codec", "comparisons_bytes", {Q: 39000, T: 208788}),
                    ("c07_codec", "comparisons_libread_arrays", {Q: 95000, T: 508586}),
                    ("c07_codec", "comparisons_refdecode_elements", {Q: 50000000, T: 267677098}),
                    ("c07_codec_asan", "comparisons_libread_arrays", {Q: 6000, T: 45742})],
    exhaustive_subspaces=[
        "c07_codec: array length 0..2002 for INTE, REAL, DOUB, LOGI and 0..212 for CHAR, C0nn, each x {formatted, unformatted} x "
        "{ECL, IX} (33752 files, all in both tiers; values inside are random)",
        "c07_codec_asan: lengths {0,1,2,3, columns-1..columns+1, block-1..block+1, 2*block-1..2*block+2} for the six types x "
        "{formatted, unformatted} x {ECL, IX} under ASan+UBSan",
    ],
    not_decided=[
        "the X231 continuation header for arrays of more than 2^31-1 elements (needs > 8 GB per array) is not exercised",
        "array lengths above maxlen (20000 quick / 100000 thorough) and files of more than 8 arrays + sentinel",
        "the text of non-finite reals and of negative zero in formatted files is the library's convention, not a published layout",
    ],
    assumptions=["libc printf/strtod produce correctly rounded decimal digits",
                 "strings carry no trailing blanks (padding is indistinguishable from them) and names are 1..8 characters without quotes",
                 "formatted C0nn arrays of width <= 77 in the plain stage; widths 78..99 (one element per line: the library's rule floor(80/(nn+3)) columns, at least one) only in the sanitizer stage (wide_c0nn=1)"],
)
