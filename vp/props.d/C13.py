Q, T = "quick", "thorough"

PROP = dict(
    level="exploration",
    level_text="Every case is one grid model built in the harness (pillars, corner depths, affine map, ACTNUM, MAPAXES, NNC) and "
               "handed to the library in up to three input forms (block-centred keywords, COORD/ZCORN rendered from the same "
               "numbers, the vector constructor). Index maps are checked exhaustively over all cells against the defining "
               "formulas; volumes against closed forms, the prism formula and a decomposition into tetrahedra; the forms against "
               "each other; every cell against the sum of its trilinear sub-cells; activeVolume() bit for bit with 1, 4 and 16 "
               "threads; EGRID files (formatted/unformatted x METRIC/FIELD/LAB) against the grid saved. A clang/libomp "
               "ThreadSanitizer stage runs the threaded loop with 4 and 16 threads. Exploration is the right level: the space "
               "of grids is unbounded, the oracles are exact up to rounding.",
    level_note="Trusts the ~250 lines of reference geometry in the harness (two independent exact volumes are cross-checked, key "
               "oracle-inconsistent). Double precision comparisons use 1e-12 relative to the largest coordinate magnitude of the grid "
               "(volumes: times surface area, i.e. condition-aware); EGRID comparisons use the precision of the file format "
               "(REAL: 6e-8 of each value unformatted, 1.8e-7 formatted = 8 decimal digits). The generated "
               "geometries never need the library's ZCORN repair; the only adjustments counted are one-ulp overlaps that the DEPTHZ "
               "conversion itself produces ((d+z)+dz against d+(z+dz)). TOPS given for all layers with gaps (5% of the cases) meets "
               "the known finding tops-below-top-layer-ignored; those cases still check index maps and the other two input forms.",
    technique="reference-model + relational monitor over generated grids; ThreadSanitizer (clang + libomp) on the OpenMP loop",
    rule="grids 1..10 cells per direction (thorough 1..14), 2% larger (up to 24x24x10, thorough 40x40x15): block-centred DX|DXV/"
         "DY|DYV/DZ|DZV/TOPS (full arrays, top-layer-only arrays, vectors; DZ and TOPS free per cell/column), DXV/DYV/DZV/DEPTHZ "
         "(flat, plane, arbitrary node depths), corner-point grids (convex quadrilateral footprints, wedge layers, fault lines, "
         "faulted columns, gaps, twisted cells, then scaled / dipped / sheared = tilted pillars / mirrored / rotated / translated "
         "to UTM-like coordinates, degenerate vertical pillars), 8 ACTNUM patterns reaching the grid by 4 routes, 4 unit systems, "
         "MAPAXES with and without MAPUNITS, GRIDUNIT, NNC records. A case is non-trivial when at least two input forms were "
         "accepted and the grid has >= 4 cells; distinct = distinct hash of (family, pillars, corner depths, map, ACTNUM).",
    stages=[
        dict(harness="c13_grid", flavour="plain", cases={Q: 12000, T: 150000}, timeout={Q: 1800, T: 10800},
             env={"OMP_WAIT_POLICY": "passive"}),
        dict(id="c13_grid_tsan", harness="c13_grid", flavour="tsan", cases={Q: 1500, T: 30000}, timeout={Q: 1800, T: 10800},
             args=["mode=threads"], env={"OMP_WAIT_POLICY": "passive", "KMP_BLOCKTIME": "0"}),
    ],
    min_nontrivial={Q: 8000, T: 80000},
    coverage_floor=[("c13_grid", "index_comparisons", {Q: 50000000, T: 468750000}),
                    ("c13_grid", "volume_vs_exact_comparisons", {Q: 5000000, T: 46875000}),
                    ("c13_grid", "forms_comparisons", {Q: 10000000, T: 93750000}),
                    ("c13_grid", "subdivision_cells_compared", {Q: 500000, T: 4687500}),
                    ("c13_grid", "thread_volume_comparisons_with_teams_of_1_4_16", {Q: 2000000, T: 18750000}),
                    ("c13_grid", "egrid_round_trips", {Q: 30000, T: 281250}),
                    ("c13_grid_tsan", "thread_volume_comparisons_with_teams_of_1_4_16", {Q: 50000, T: 750000})],
    not_decided=[
        "block-centred input whose DX varies along j or k (DY along i or k): no corner-point grid is equivalent to such a "
        "description (the library builds tilted pillars from the top and bottom layer); the generator keeps DX = f(i), DY = f(j)",
        "radial / spider grids, LGRs, numerical aquifer cells, PINCH/MINPV, ACTNUM edited by EQUALS/COPY etc. (C12)",
        "transmissibilities of NNCs are not part of an EGRID file (they live in the INIT file) and are not compared",
        "MAPAXES transformation arithmetic (GRIDUNIT naming another length unit than the deck's is generated in 15 % of the cases, for every input form, since seeded change C13)",
        "PVT-M is used for the input forms; EclipseGrid::save() refuses it by design, files are written in METRIC/FIELD/LAB",
        "ThreadSanitizer sees the interleavings that occur; the loop is a static schedule with disjoint writes",
        "formatted EGRID files carry 8 significant decimal digits per REAL, one float ulp can be lost; bit-exactness of formatted "
        "REAL output is C07's subject",
    ],
    assumptions=[
        "Eclipse conventions: natural cell ordering, ZCORN/COORD layout, TOPS given for a layer is the top of that layer, "
        "cells are trilinear hexahedra between straight pillars",
        "an inactive cell has no active index (activeIndex must not return one)",
        "MAPUNITS is only meaningful together with MAPAXES",
    ],
)
