Q, T = "quick", "thorough"

PROP = dict(
    level="exploration",
    level_text="Every Evaluation variant (N=1..12 unrolled, 13..16 generic, two dynamically sized) is run on the same random "
               "programs as an independent dual-number evaluator; value and every derivative slot are compared (1e-10), unused "
               "slots must be exactly zero, and variants are compared with each other. Exploration is the right level: the "
               "input space is unbounded, the oracle is exact up to rounding.",
    level_note="Trusts libm and the 150-line reference evaluator; programs avoid kinks/poles, magnitudes bounded by 1e3. "
               "atan2(scalar, Evaluation) does not compile in the library (uses x.value() on a scalar) and cannot be exercised.",
    technique="reference-model monitor (dual numbers) + cross-variant differential over random programs, incl. objects re-used across derivative counts that are read after every assignment",
    rule="random straight-line programs (3..15 operator nodes over 53 operator/function forms (incl. self-aliased compound assignment x op= x), 1..16 variables placed in "
         "random derivative slots) evaluated by Evaluation<double,N> N=1..16, two dynamically sized variants and an "
         "independent dual-number evaluator; a case is non-trivial when it has >= 3 operator nodes and a non-zero "
         "derivative; distinct = distinct hash of (inputs, program)",
    stages=[dict(harness="c16_ad", flavour="plain", cases={Q: 400000, T: 80000000},
                 timeout={Q: 600, T: 5400})],
    min_nontrivial={Q: 100000, T: 3750000},
    assumptions=["libm functions used by the reference are accurate to a few ulp",
                 "programs are kept away from kinks (abs at 0, min/max ties) and poles; values and derivatives bounded by 1e3"],
)
