Q, T = "quick", "thorough"

PROP = dict(
    level="exploration",
    level_text="Relational monitor on the real Schedule: applyAction(n, A, M) on generated schedules (1-3 ACTIONX blocks, bodies from "
               "18 action-valid keyword templates (WPIMULT in both forms among them; a body with WPIMULT is the only application at its step, the deck proper has none; WELPI bodies are checked for the immutability of the past only) with '?' and explicit names, sequences of up to 3 applications with non-decreasing "
               "step, random matching sets) is compared state by state with the schedule built from the inlined deck; states before n "
               "are compared before/after and watched online through the guarded hook while the action keywords are handled.",
    level_note="Structural dump with keyword locations elided and the ACTIONX event marker masked at the application steps. Bodies "
               "exclude the per-report-step cases the statement exempts (WPIMULT accumulating within a step, connection-level WELOPEN).",
    technique="differential monitor (applied vs inlined schedule) + invariant hook on earlier snapshots",
    rule="case = (generated schedule, sequence of (action, step, matching wells)); non-trivial: the application changed state n; "
         "distinct = hash(deck, applications)",
    stages=[dict(id="gen", harness="c04_action", flavour="plain", cases={Q: 3000, T: 400000}, timeout={Q: 900, T: 7200})],
    min_nontrivial={Q: 800, T: 16000},
    coverage_floor=[("gen", "state_comparisons", {Q: 5000, T: 100000})],
    assumptions=["matched wells are inlined in the schedule well order (order of definition), the order WellMatcher::sort gives"],
)
