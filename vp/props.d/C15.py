Q, T = "quick", "thorough"

PROP = dict(
    level="exploration",
    level_text="Random monotone SWOF/SGOF tables (and the exactly equivalent SWFN/SGFN/SOF3 tables) for 1..3 SATNUM regions are "
               "written as METRIC/FIELD deck text, read by the real parser and turned into material-law parameters by "
               "EclMaterialLawManager::initFromState()/initParamsForElements(). Every curve of every cell is observed through the "
               "three-phase law on materialLawParams(elem) in the two-phase configurations (Sg = 0; Sw = SWL of the cell) and through "
               "the cell's two-phase sub-laws. The generated table is the oracle for the unscaled curves (node values 1e-9, values "
               "between adjacent nodes bracketed by the node values and monotone, a 400-point grid monotone and within [0, max], "
               "family I == family II 1e-9). With ENDSCALE and per-cell end-point arrays (two- and three-point) the scaled "
               "end-points of each cell must map onto the end-points of its table (public saturation maps of the scaling law and "
               "the function values at the end-points) and arrays that repeat the table's own end-points, explicitly or through "
               "defaulted entries, must reproduce the model without ENDSCALE on the whole grid. With SATOPTS HYSTER/EHYSTR/IMBNUM "
               "200-step saturation histories with 1..5 reversals are driven through EclMaterialLawManager::updateHysteresis(); a "
               "trace checker that keeps the extreme saturation reached so far demands the drainage curve (a second manager built "
               "from the same deck without hysteresis) at or beyond that extreme, continuity of the scanning curve at the reversal "
               "point, monotone scanning curves, and for Carlson's model with identical curves equality with the model without "
               "hysteresis at every step; the extreme oil and gas saturations the manager keeps (oilWaterHysteresisParams / "
               "gasOilHysteresisParams) must be the extremes of the history, i.e. the scanning curves start at the reversal point. A "
               "third of the hysteresis cases carries two-point ENDSCALE with drainage and I-prefixed imbibition arrays. Exploration is "
               "the right level: tables, end-point sets and histories are unbounded spaces; the oracles are exact up to rounding.",
    level_note="Trusts the parser to deliver the numbers written (shortest round-trip decimals are printed), the 30-line linear "
               "interpolation used to build the SOF3 rows, and the harness's own definition of the table end-points (connate = first, "
               "maximum = last saturation, critical = largest saturation of a phase with zero relative permeability, kr at the "
               "critical saturation of the displacing phase by linear interpolation). The drainage reference of the hysteresis "
               "checks is the library itself without SATOPTS/EHYSTR/IMBNUM, whose curves are tied to the table by the unscaled class.",
    technique="table-as-oracle runtime monitor + relational checks (family I/II, identity scaling, hysteresis vs. no hysteresis) + "
              "trace checker over saturation histories",
    rule="case class by case index modulo 10: 0-2 unscaled (family I and II decks of the same tables), 3-6 end-point scaling (45% "
         "identity: every array entry equals the table's own end-point or is defaulted; 55% random per-cell end-points inside the "
         "ordering constraints, random subset of SWL SWCR SWU SGL SGCR SGU SOWCR SOGCR KRW KRO KRG PCW PCG KRWR KRORW KRGR KRORG, "
         "SCALECRS YES/NO/absent, family I or II), 7-9 hysteresis (EHYSTR model 0..4 by case index, flag KR/BOTH, own imbibition "
         "tables in further regions selected by IMBNUM, or - Carlson only - identical curves through IMBNUM = SATNUM, IMBNUM -> "
         "identical copy, IMBNUM absent; one history per cell in the oil-water (Sg = 0) or gas-oil (Sw = Swco) system; 33% with "
         "two-point ENDSCALE: SWL SWCR SWU SGCR SGU SOWCR SOGCR KRW KRO KRG arrays and I-prefixed arrays that mirror ISWL ISWU ISGU "
         "IKRO IKRG and keep ISOWCR >= SOWCR, ISGCR >= SGCR). Two input classes with known findings are confined: saturations "
         "beyond the anchor of the maximum in identity-scaled cells whose table kr at the displacing-critical saturation equals its "
         "maximum while a KRWR/KRORW/KRGR/KRORG array is present are compared only in eps cases with (index/10)%10 == 0 (counted "
         "as skipped elsewhere); decks with I-prefixed arrays but without IMBNUM are generated only in hysteresis cases with "
         "(index/10)%4 == 0. Tables: "
         "3..14 rows on a 1/200 saturation lattice, Swco 0 or 0.02..0.35, 1..3 leading/trailing zero rows, plateaus with 10% "
         "probability per row (none in the hysteresis class), zero-pc tables 12%, last Sw / last Sg short of 1 / 1-Swco in 30% / "
         "25%; 1..3 regions (1..2 with hysteresis), up to 3 extra cells, default/STONE1/STONE2 three-phase model (the oil value of "
         "the three-phase route is skipped for STONE1/2), METRIC/FIELD by case index. Non-trivial: both decks of the case are "
         "accepted and >= 300 (unscaled) / >= 30 (eps) comparisons or a complete history per cell (hyst) were made; distinct = "
         "distinct deck text.",
    stages=[dict(harness="c15_satfunc", flavour="plain", cases={Q: 60000, T: 1000000}, timeout={Q: 900, T: 10800}, omp_threads=1),
            dict(id="c15_satfunc_asan", harness="c15_satfunc", flavour="asan", cases={Q: 3000, T: 60000},
                 timeout={Q: 900, T: 10800}, omp_threads=1)],
    min_nontrivial={Q: 55000, T: 694047},
    coverage_floor=[("c15_satfunc", "comparisons", {Q: 500000000, T: 6000000000}),
                    ("c15_satfunc", "comparisons_unscaled", {Q: 300000000, T: 3750000000}),
                    ("c15_satfunc", "comparisons_eps", {Q: 100000000, T: 1250000000}),
                    ("c15_satfunc", "history_steps", {Q: 8000000, T: 100000000}),
                    ("c15_satfunc", "scanning_curves_sampled", {Q: 500000, T: 6000000})],
    not_decided=["three-phase interpolation (default blend within 1e-5 of Swco, STONE1, STONE2): the oil value of the three-phase "
                 "route is not compared there",
                 "shape of scaled curves between the end-points, monotonicity/bounds of scaled curves",
                 "coincident scaled anchors whose table anchors differ (e.g. SWCR = SWL while the table has Swcr > Swco) and "
                 "KRWR/KRORW/KRGR/KRORG that contradict KRW/KRO/KRG at a coincident anchor: the statement does not say which "
                 "table saturation / value wins, the generator stays away",
                 "histories that leave the tabulated saturation range and reversals on constant stretches of a curve (Carlson's "
                 "horizontal shift is not unique there); wetting-phase kr and pc under hysteresis (Killough pc, EHYSTR flag BOTH, "
                 "and model 4 are exercised but only the non-wetting kr is judged; pc is compared only for Carlson with identical "
                 "curves and flag KR); WAG hysteresis",
                 "hysteresis combined with three-point end-point scaling or with KRxR / PCW / PCG arrays (two-point scaling with "
                 "saturation end-points and KRW/KRO/KRG is covered)",
                 "two-phase runs (EclTwoPhaseMaterial, SOF2), SLGOF, SGWFN, family III (GSF/WSF), SWOFLET/SGOFLET, JFUNC, ENPTVD/"
                 "ENKRVD depth tables, directional (KRNUMX.., IMBNUMX..) and irreversible scaling, SWATINIT/PPCWMAX, TOLCRIT "
                 "(non-zero kr values of the generated tables are >= 1e-3)"],
    assumptions=["table values: krw(Swco) = 0, krow(last Sw) = 0, krg(Sg = 0) = 0, krog(last Sg) = 0, krog(Sg = 0) = krow(Swco), "
                 "pc >= 0, pcow non-increasing, pcgo non-decreasing, mobile ranges of the two phases of a table overlap",
                 "scaled end-points keep the ordering SWL <= SWCR < 1-SOWCR-SGL <= SWU, SGL <= SGCR < 1-SWL-SOGCR <= SGU <= 1-SWL "
                 "with a margin of 0.02 between distinct anchors",
                 "imbibition tables share connate/maximum saturations and the maximum non-wetting kr with their drainage table "
                 "and have larger critical non-wetting saturations",
                 "pressures are compared relative to the largest capillary pressure of the table (1e-9)",
                 "order comparisons carry a rounding slack of 1e-12 (tabulated curves; 1e-10 for the oil value of the three-phase "
                 "route, where a connate saturation read one ulp off by the deck parser leaks the other oil curve with weight "
                 "<= 1e-16/2e-5) and 1e-10 (scanning curves)"],
)
