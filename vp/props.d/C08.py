Q, T = "quick", "thorough"

PROP = dict(
    level="fault_enumeration",
    level_text="Write histories are enumerated completely up to a bound (all sequences of <= L report-step writes over steps 0..N, both "
               "formats) and the fault 'writing is cut short' is enumerated completely for the files examined: every byte offset of "
               "the unformatted file is tried as a crash point. After every write the file is compared byte for byte with the "
               "sequential model (previous file cut at the first step >= s + the step written into an empty file) and finally with "
               "the surviving steps written into a fresh directory; an independent reference codec checks SEQNUM order and content.",
    level_note="Crash model: a prefix of the bytes of the file survives (append-only stream after resize_file; no reordering by the OS "
               "or the storage). Array contents per write are random (3-6 arrays, lengths biased to 0..11 and to the 1000/105-element "
               "record boundaries; arrays of one family - cell, well, group - share their length as in real files); reals are multiples "
               "of 1/16 so that formatted files hold them exactly. Longer histories are sampled. poison=1: before every library call "
               "on a cut file the harness fills its own dead stack area with the big-endian length word of the record the cut falls "
               "into, so that a reader which goes on after a short read meets the value that is worst for it instead of whatever "
               "earlier calls left behind (the outcome becomes a function of the case; correct code never reads that memory).",
    technique="sequential reference model + fresh-file differential after every write; exhaustive prefix (crash point) enumeration with an "
              "exact-or-error oracle on every (step, array) under a hostile (pre-filled) stack; sanitizer replica of the truncation "
              "readers incl. listOfRstArrays",
    rule="c08_unified: idx < 2*sum_{l<=L}(N+1)^l enumerates every sequence of 1..L writes over report steps 0..N x {unformatted, "
         "formatted} (quick L=4,N=4: 1560; thorough L=6,N=5: 111972), later indices are random sequences of L+1..Lrandom writes "
         "(mostly advancing, with rewinds); non-trivial: at least two writes. c08_trunc / c08_trunc_asan: file of a random sequence "
         "(1..L writes over steps 0..N, unformatted), all offsets 0..size of the final file (thorough: of the file after every "
         "write) split over 16 cases; non-trivial: at least one prefix examined. distinct = distinct (sequence, format) resp. "
         "(file bytes, offset range, reader kind).",
    stages=[
        dict(harness="c08_unified", flavour="plain", cases={Q: 1560 + 2440, T: 111972 + 150000}, timeout={Q: 600, T: 5400},
             args=["mode=seq"], tier_args={Q: ["L=4", "N=4", "Lrandom=8", "Nrandom=9"], T: ["L=6", "N=5", "Lrandom=10", "Nrandom=12"]}),
        dict(id="c08_trunc", harness="c08_unified", flavour="plain", cases={Q: 128 * 16, T: 2000 * 16}, timeout={Q: 600, T: 5400},
             args=["mode=trunc", "chunks=16", "poison=1"], tier_args={Q: ["L=4", "N=5"], T: ["L=6", "N=6", "every_state=1"]}),
        dict(id="c08_trunc_asan", harness="c08_unified", flavour="asan", cases={Q: 160 + 160, T: 1600 + 1600}, timeout={Q: 600, T: 5400},
             args=["mode=trunc", "chunks=16", "poison=1"], tier_args={Q: ["L=4", "N=5", "lra_cases=160"], T: ["L=6", "N=6", "every_state=1", "lra_cases=1600"]},
             max_restarts=100000),
        dict(id="c08_big", harness="c08_unified", flavour="plain", cases={Q: 24, T: 240}, timeout={Q: 900, T: 5400}, args=["mode=big"]),
    ],
    min_nontrivial={Q: 5500, T: 192499},
    coverage_floor=[("c08_unified", "comparisons_file_after_write", {Q: 18000, T: 884155}),
                    ("c08_unified", "rewinds", {Q: 5000, T: 245598}),
                    ("c08_trunc", "prefixes", {Q: 300000, T: 3515625}),
                    ("c08_trunc", "reads_exact", {Q: 1000000, T: 11718750}),
                    ("c08_trunc", "reads_refused", {Q: 500000, T: 5859375}),
                    ("c08_trunc", "prefixes_ending_on_a_step_boundary", {Q: 150, T: 1757})],
    exhaustive_subspaces=[
        "c08_unified: all sequences of 1..L report-step writes over steps 0..N x {unformatted, formatted}: L=4, N=4 (quick: 780 sequences per format), L=6, N=5 (thorough: 55986 per format)",
        "c08_trunc: every truncation offset 0..size of every file examined (quick: final file of 128 random sequences; thorough: the "
        "file after every write of 2000 random sequences)",
    ],
    not_decided=[
        "crash states other than a prefix of the file (writes reordered or torn by the OS / storage below the byte stream)",
        "truncated formatted files (the statement constrains unformatted files only)",
        "histories longer than Lrandom writes and report-step numbers above a few dozen; LGR sections in restart files",
    ],
    assumptions=["a crash leaves a prefix of what the process wrote after the resize_file (append-only stream)",
                 "uninitialised locals of the readers may hold any value; the harness chooses the record length of the cut record",
                 "array names within one report step are unique (reads are by name, occurrence 0)"],
)
