Q, T = "quick", "thorough"

PROP = dict(
    level="exploration",
    level_text="Round-trip monitor on the real Serializer/MemPacker: EclipseState, Schedule, SummaryConfig and per-step ScheduleStates "
               "built from generated models (70 schedule keyword templates) and from the shipped decks, TableManager objects with 3-12 table families (of the ~45 simple-table families of the tree that can be given acceptable data reflectively; 1-3 regions each; ROCKTAB and PLYSHLOG, which serializeOp treats specially), and SummaryState / UDQState / "
               "WellTestState / RestartValue filled with random content through their real update paths, are packed, unpacked into a "
               "fresh object and compared by the class' own operator==, by a structural dump of every serialised member, by a "
               "hand-written dump of the public queries (independent of serializeOp and operator==), by re-packing (same length) and "
               "by a second round trip; unpacking must consume exactly the packed bytes.",
    level_note="The query dump covers wells (properties, controls, connections, segments, limits), groups and tree, UDQ/ACTIONX "
               "definitions, well lists, tuning, tables, equilibration, IO/simulation config, summary nodes; a member reachable through "
               "none of these and absent from both serializeOp and operator== stays invisible. EclipseState's grid and field properties "
               "are excluded as documented. Action::State is exercised through the Schedule path only.",
    technique="round-trip differential monitor with four observers (operator==, serializeOp visitor, public queries incl. UDQ evaluation and evaluated well/group controls, upstream Schedule::cmp)",
    rule="case = one generated model / shipped deck (4+ objects round-tripped) or one set of random dynamic states; non-trivial: the "
         "objects were built; distinct = hash of the deck text / random state",
    stages=[
        dict(id="gen", harness="c11_serial", flavour="plain", cases={Q: 400, T: 12000}, timeout={Q: 900, T: 7200}, args=["mode=gen"]),
        dict(id="shipped", harness="c11_serial", flavour="plain", cases={Q: 52, T: 52}, timeout={Q: 1200, T: 3600}, args=["mode=shipped"]),
        dict(id="tables", harness="c11_serial", flavour="plain", cases={Q: 3000, T: 120000}, timeout={Q: 900, T: 7200}, args=["mode=tables"]),
        dict(id="dyn", harness="c11_serial", flavour="plain", cases={Q: 4000, T: 200000}, timeout={Q: 900, T: 7200}, args=["mode=dyn"]),
        dict(id="tables_asan", harness="c11_serial", flavour="asan", cases={Q: 300, T: 6000}, timeout={Q: 900, T: 7200}, args=["mode=tables"]),
        dict(id="gen_asan", harness="c11_serial", flavour="asan", cases={Q: 48, T: 1000}, timeout={Q: 900, T: 7200}, args=["mode=gen"]),
    ],
    min_nontrivial={Q: 4000, T: 66558},
    coverage_floor=[("gen", "round_trips", {Q: 1000, T: 11250}), ("shipped", "round_trips", 100), ("tables", "round_trips", {Q: 2000, T: 30000})],
    assumptions=["byte equality of re-packed buffers is not required (unordered containers), only length and meaning"],
)
