Q, T = "quick", "thorough"

PROP = dict(
    level="exploration",
    level_text="Relational monitor + online invariant on the real Schedule: generated models (72 schedule keyword templates incl. "
               "ACTIONX, UDQ, MSW, network, VFP, geo-modifiers) and the shipped decks are cut after report step k and the tail is "
               "removed, thinned or reordered; states 0..k must be equal under ScheduleState::operator== and under the structural "
               "dump of every serialised member. A guarded hook in Schedule::handleKeyword/end_report asserts after every handled "
               "keyword that no earlier snapshot changed.",
    level_note="The structural dump sees what serializeOp transfers (a member absent from serializeOp and operator== is invisible). "
               "Decks the library refuses are counted, not reported.",
    technique="metamorphic monitor (full vs truncated/changed-tail schedule) + invariant hook 'the past is immutable'",
    rule="case = one generated model (3..8 report steps) with up to 6 cut points x 3 tail variants, or one shipped deck with up to 6 "
         "cuts; non-trivial: at least one cut compared and the tail contains keywords; distinct = hash of the deck text",
    stages=[
        dict(id="gen", harness="c03_causal", flavour="plain", cases={Q: 1200, T: 120000}, timeout={Q: 900, T: 7200}, args=["mode=gen"]),
        dict(id="shipped", harness="c03_causal", flavour="plain", cases={Q: 64, T: 640}, timeout={Q: 1200, T: 7200}, args=["mode=shipped"], tier_args={T: ["max_cuts=40"]}),
    ],
    min_nontrivial={Q: 400, T: 9645},
    coverage_floor=[("gen", "state_comparisons", {Q: 5000, T: 100000}), ("gen", "hook_checks", {Q: 10000, T: 100000})],
    assumptions=["global, non-snapshot members of Schedule (completed cells, restart output list, action well/group name caches) are not compared"],
)
