Q, T = "quick", "thorough"

PROP = dict(
    level="exploration",
    level_text="Random physically ordered PVTO/PVTG/PVDO/PVDG/PVTW/PVCDO tables are written as deck text, read by the real "
               "parser and handed to LiveOilPvt, WetGasPvt, DeadOilPvt, DryGasPvt, ConstantCompressibilityWaterPvt and "
               "ConstantCompressibilityOilPvt through initFromState(). The generated table (converted to SI with factors "
               "defined in the harness) is the oracle for the node values (1e-7), the bracketing node values bound the values "
               "between adjacent nodes, the saturated curve is compared with the undersaturated functions at the nodes and on "
               "the saturated line between them (1e-9), saturationPressure is composed with the returned Rs(p)/Rv(p) (1e-6), "
               "every AD derivative is compared with finite differences of the returned function (1e-5), PVTW/PVCDO with "
               "their closed forms. Exploration is the right level: the table space is unbounded; the oracle is exact up to "
               "rounding.",
    level_note="Trusts the parser to deliver the numbers written in the deck (7 significant digits are printed, the table "
               "value is the printed number) and the finite-difference quotients (5-point stencils, points where the "
               "one-sided and central quotients disagree are counted as 'near a kink' and not compared; random points where "
               "the linearly extrapolated 1/B or mu leaves a factor 4 / 10 of the tabulated range are not used). The "
               "Oil/Gas/Water PVT multiplexers only link in this sandbox (empty co2tables.inc/h2tables.inc) because the "
               "harness defines the four CO2/H2 table-traits objects as weak zero-filled symbols; no value is read from "
               "them. BlackOilFluidSystem is not driven.",
    technique="table-as-oracle runtime monitor + relational checks (continuity, inverse, AD vs finite differences)",
    rule="one case = one deck with all six keywords (concrete classes) plus the same deck reduced to PVTW, one oil and one "
         "gas keyword (multiplexers: approach, region count, node values / closed forms), 1..3 PVT regions (12% of the later PVTO/PVTG regions left empty so that "
         "they default to the previous region), unit system METRIC/FIELD/LAB by case index, 2..8 saturated nodes, 0..4 "
         "undersaturated rows per branch (35% one-row branches: master-table extension), PVTG with constant saturated-Rv "
         "stretches in 10% of the tables; evaluated for every region at all nodes, one random point between each pair of "
         "adjacent nodes, on the saturated line, on extended branches and at random points inside and up to 30% beyond the "
         "table range, each with double and Evaluation<double,3> arguments. Non-trivial: the deck is accepted, all six "
         "models initialise and at least 100 comparisons are made; distinct = distinct deck text.",
    stages=[dict(harness="c14_pvt", flavour="plain", cases={Q: 100000, T: 1000000}, timeout={Q: 600, T: 5400}, omp_threads=1),
            dict(id="c14_pvt_asan", harness="c14_pvt", flavour="asan", cases={Q: 5000, T: 120000}, timeout={Q: 600, T: 5400},
                 omp_threads=1)],
    min_nontrivial={Q: 95000, T: 760000},
    coverage_floor=[("c14_pvt", "comparisons", {Q: 150000000, T: 1125000000}),
                    ("c14_pvt", "ad_derivative_comparisons", {Q: 40000000, T: 300000000})],
    not_decided=["BlackOilFluidSystem (does not link here); CO2/H2/thermal/brine/humid approaches of the multiplexers",
                 "the values the models invent beyond a one-row undersaturated branch (master-table extension) are checked for "
                 "continuity at the saturated node, finiteness and derivative consistency only: no tabulated numbers exist there",
                 "values between branches (Rs between two PVTO nodes, p between two PVTG nodes) away from the saturated line are "
                 "only checked for derivative consistency",
                 "saturationPressure for PVTG tables whose saturated Rv is not strictly increasing",
                 "defaulted table entries (1*), VAPPARS, thermal and brine variants"],
    assumptions=["generated tables are physically ordered: Rs, psat strictly increasing; undersaturated Bo strictly decreasing "
                 "in p; PVTG Rv strictly decreasing within a record; PVDO/PVDG B strictly decreasing, mu non-decreasing",
                 "a tabulated Rs = 0 is compared with an absolute tolerance of 1e-7 of the largest Rs of the table"],
)
