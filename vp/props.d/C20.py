Q, T = "quick", "thorough"

PROP = dict(
    level="exploration",
    level_text="Sanitizer-monitored fuzzing of the real entry points: structure-aware mutations of the shipped decks (INCLUDE "
               "content flattened into the mutated text), of grammar-generated decks, of generated complete models (72 schedule templates, optional phases, analytic aquifer, random SUMMARY section) and of shipped binary/formatted result files "
               "run through Parser -> EclipseState -> Schedule -> SummaryConfig and through EclFile/ERst/ESmry/ExtESmry/EGrid/ERft/"
               "EInit in an AddressSanitizer+UBSan build with fatal reports. A pass is a result or a std::exception; a sanitizer "
               "report, signal, abort, non-std exception or a case that, run alone, needs more than 120 CPU seconds is a violation keyed by its site.",
    level_note="A clean sanitizer run is not memory safety (red-zone tools miss intra-object and non-adjacent overflows). "
               "allocator_may_return_null=1 so absurd sizes surface as std::bad_alloc. Liveness is restated as bounded progress "
               "(per-case watchdog). Inputs are sampled, not enumerated.",
    technique="ASan+UBSan fuzzing with structure-aware mutators (random, keyword-focused, and a systematic boundary sweep: every integer token +-1, every record lengthened), one journaled case at a time, crash keys from sanitizer reports",
    rule="fuzz stages: case = one mutated byte string (1-5 random mutations of a seed, or in 40 % of the deck cases 1-2 small edits inside one keyword block chosen uniformly over the keyword names). Sweep stage: case = one well-formed deck and up to 400 single-edit variants of it (each integer token +1 / -1, each record with 40 more copies of its last value). Non-trivial: deck cases that parse or are refused with an "
         "exception; every file case. distinct = hash of the mutated bytes",
    stages=[
        dict(id="deck_asan", harness="c20_deck", flavour="asan", cases={Q: 30000, T: 300000}, timeout={Q: 1500, T: 14400},
             hang="violation", case_timeout=120, max_restarts=60),
        dict(id="deck_sweep_asan", harness="c20_deck", flavour="asan", cases={Q: 64, T: 1600}, timeout={Q: 1500, T: 14400}, args=["mode=sweep"],
             hang="violation", case_timeout=1200, max_restarts=60),
        dict(id="file_asan", harness="c20_file", flavour="asan", cases={Q: 20000, T: 200000}, timeout={Q: 1500, T: 14400},
             hang="violation", case_timeout=120, max_restarts=60),
    ],
    min_nontrivial={Q: 20000, T: 150287},
    assumptions=["the shipped decks and result files are representative seeds", "Python-embedding keywords (PYINPUT/PYACTION) are not seeded"],
)
