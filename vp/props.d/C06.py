Q, T = "quick", "thorough"

PROP = dict(
    level="exploration",
    level_text="Reference-model monitor on the real Parser + EclipseState + Schedule. Stage `cells`: random cells (DX/DY/DZ over two "
               "decades, PERMX/Y/Z over six, NTG in (0,1], inactive cells inside K1..K2) x direction x the 16 entered/defaulted "
               "combinations of CF, Kh, diameter, r0 (with the other spellings of 'defaulted': CF <= 0, Kh < 0, Kh = 0) x skin in "
               "[-2, 8] x METRIC/FIELD/LAB/PVT-M; an independent reference with its own unit factors gives rw, r0, Kh, CF of every "
               "connection; demanded are CF (ln(r0/rw)+S) = 2 pi Kh on the stored numbers (1e-7), every defaulted quantity at its "
               "Peaceman value (1e-7), every entered quantity stored unchanged (1e-12), and - in a second deck, one record per "
               "connection - that entering the values the library computed itself leaves every stored quantity, completion number "
               "and insert index as it was. Stage `hist`: 2..6 report steps of COMPDAT (new cells, re-entry), WPIMULT (well-wide; "
               "selected by I, J, K and/or completion range), WELOPEN on connections and COMPLUMP on 2-3 wells (one or several "
               "columns, COMPORD TRACK/DEPTH/INPUT, single names and the pattern 'W*') are followed by a reference model of each "
               "well's connection list: at every report step every connection must agree with the model (state, completion number, "
               "insert index, WPIMULT product, CF = COMPDAT value x product, Kh, r0, rw, skin), the connections no keyword of the "
               "step selected must be bit-identical to the previous report step, and the relative order of the connections present "
               "in both steps must be unchanged. Exploration is the right level: the input space is continuous and unbounded in "
               "history length; the oracle is exact up to rounding.",
    level_note="Trusts libm and the 40-line reference (unit factors derived from SI definitions in the harness, Peaceman's formulas "
               "written for the two directions perpendicular to the well). Tolerance 1e-7 because RstConnection::inverse_peaceman "
               "uses pi = 3.14159265 when r0 is back-computed from CF and Kh (observed: <= 1.2e-9 on the relation, <= 6.1e-8 on a back-computed r0 with ln(r0/rw)+S up to 53).",
    technique="reference-model monitor (Peaceman formulas; connection-list model) + metamorphic 'explicit = computed' + step-to-step "
              "invariance of unselected connections",
    rule="cells: case = deck with 1-4 wells, one COMPDAT record each over K1..K2 of a column of random cells; non-trivial = at least "
         "one connection on which the relation was evaluated; distinct = hash of the deck. hist: case = schedule of 2-6 report steps "
         "with 1-4 keywords per step; non-trivial = at least one connection was re-entered, scaled, opened/shut or lumped; "
         "distinct = hash of the deck.",
    stages=[
        dict(id="cells", harness="c06_peaceman", flavour="plain", cases={Q: 120000, T: 2000000}, timeout={Q: 600, T: 5400},
             args=["part=cells"]),
        dict(id="hist", harness="c06_peaceman", flavour="plain", cases={Q: 120000, T: 2000000}, timeout={Q: 600, T: 5400},
             args=["part=hist"]),
    ],
    min_nontrivial={Q: 150000, T: 1875000},
    coverage_floor=[("cells", "relation_checks", {Q: 200000, T: 2500000}),
                    ("cells", "explicit_equals_computed_checks", {Q: 200000, T: 2500000}),
                    ("hist", "connection_state_checks", {Q: 1000000, T: 12500000}),
                    ("hist", "untargeted_bit_exact_checks", {Q: 300000, T: 3750000})],
    not_decided=[
        "rw >= r0 or ln(r0/rw)+S <= 0.05: there the library clamps with min(rw, r0) and the statement's relation does not apply; "
        "such records are not generated",
        "CF, Kh and r0 all entered (over-determined): only 'inputs are stored unchanged' is demanded; likewise with CF entered and "
        "Kh = 0 an entered r0 is not the one in use (the library recomputes it from CF and the cell's Kh) - there the relation and "
        "the cell value of Kh are demanded, not the storage of the entered r0",
        "when a well-wide WPIMULT takes effect inside its report step (the library applies the last one of a step at the end of the "
        "step): histories hold at most one well-wide WPIMULT per well and step and no COMPDAT for that well after it, so that both "
        "readings coincide",
        "the absolute position of a new connection in the list (COMPORD) and the relative order in multi-column wells under "
        "TRACK/DEPTH, where the order is a function of the whole set; compared there: every per-connection quantity",
        "COMPTRAJ/COMPSEGS (multi-segment) connections, CSKIN, WELPI scaling and connections read from a restart file",
    ],
    assumptions=[
        "completion number and insert index of a new connection are its sequence number in the well (needed by the model to decide "
        "which connections a completion range selects)",
        "cells of DX/DY/DZ/TOPS grids with DX = f(i), DY = f(j): the library's cell dimensions equal the entered ones to 1e-12",
    ],
)
