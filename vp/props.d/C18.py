Q, T = "quick", "thorough"

# the enumerated run/wait state machine occupies the first 576 case indices of the triggering stage
N_ENUM_CONFIGS = 4 * 4 * 12 * 3
N_ENUM_TRACES = N_ENUM_CONFIGS * 510

PROP = dict(
    level="exploration",
    level_text="Conditions: every random condition is evaluated by the real Action::ActionX::eval (deck route through "
               "Parser/parseActionX and token route through the ActionX constructor) and by an interpreter written from the "
               "property statement (month numbers with a fraction compare as the nearest month, the documented rule; exact halves are not generated); truth value and matching-well set are compared exactly. Triggering: the handler protocol "
               "pending -> eval -> add_run is driven over time grids, the harness records every run itself and checks the "
               "recorded trace against the three clauses (count, wait, start). The space of conditions and of simulations is "
               "unbounded, so the level is exploration; the run/wait state machine for small limits is enumerated completely.",
    level_note="Trusts the ~250-line reference interpreter (own precedence parser, wildcard matcher, month table, set algebra) "
               "and the 15-line trace checker. Summary values and right-hand sides are exactly representable doubles, so '=' and "
               "'!=' are decided exactly. max_run = 0 is documented in ActionX.hpp as 'unlimited' while ActionX::ready() never "
               "lets such an action run; neither reading breaks the count clause, the evidence counts runs_with_max_run_0.",
    technique="reference-model monitor (condition interpreter) + trace checker over a driven action handler; exhaustive "
              "enumeration of the run/wait state machine for small limits",
    rule="conditions: random expression trees (1..8 comparisons, AND/OR, forced and redundant parentheses to depth 3, operators "
         "> < >= <= = != also in .GT. spelling, field / group / well quantities with named wells, wildcards, well lists and "
         "list-name templates, DAY/MNTH/YEAR with month names, numeric or quantity right-hand sides) over random summary states "
         "(2..7 wells, some lacking quantities, 0..3 well lists); non-trivial = at least two comparisons of which one is "
         "well-level; distinct = hash of (tokens, deck text, summary state). triggering: indices 0..575 enumerate max_run x "
         "min_wait x time grid x offset of the first evaluation from the start time, each with all 510 outcome sequences of "
         "length 1..8 (a trace is non-trivial when at least one outcome is true); later indices are random simulations of 1..3 "
         "actions over 5..40 steps with redefinitions (non-trivial when at least one action ran); distinct = hash of the trace",
    stages=[
        dict(id="c18_conditions", harness="c18_actionx", flavour="plain", args=["part=cond"],
             cases={Q: 1000000, T: 20000000}, timeout={Q: 600, T: 5400}),
        dict(id="c18_triggering", harness="c18_actionx", flavour="plain", args=["part=trigger"],
             cases={Q: N_ENUM_CONFIGS + 150000, T: N_ENUM_CONFIGS + 2500000}, timeout={Q: 600, T: 5400}),
        dict(id="c18_conditions_asan", harness="c18_actionx", flavour="asan", args=["part=cond"], tiers=[T],
             cases={Q: 20000, T: 400000}, timeout={Q: 600, T: 3600}),
        dict(id="c18_triggering_asan", harness="c18_actionx", flavour="asan", args=["part=trigger"], tiers=[T],
             cases={Q: N_ENUM_CONFIGS + 2000, T: N_ENUM_CONFIGS + 60000}, timeout={Q: 600, T: 3600}),
    ],
    min_nontrivial={Q: 900000, T: 13211227},
    coverage_floor=[
        ("c18_conditions", "comparisons", {Q: 3000000, T: 45000000}),
        ("c18_conditions", "evaluations_deck_route", {Q: 900000, T: 13500000}),
        ("c18_conditions", "evaluations_token_route", {Q: 900000, T: 13500000}),
        # the enumeration must be complete, and the safety clauses must not hold vacuously
        ("c18_triggering", "enumerated_configurations", {Q: N_ENUM_CONFIGS, T: N_ENUM_CONFIGS}),
        ("c18_triggering", "enumerated_traces", {Q: N_ENUM_TRACES, T: N_ENUM_TRACES}),
        ("c18_triggering", "runs", {Q: 500000, T: 5000000}),
        ("c18_triggering", "traces_reaching_max_run", {Q: 100000, T: 1000000}),
        ("c18_triggering", "runs_exactly_at_min_wait", {Q: 20000, T: 200000}),
        ("c18_triggering", "runs_exactly_at_start_time", {Q: 50000, T: 500000}),
    ],
    exhaustive_subspaces=[
        "run/wait state machine of one action: max_run in {0,1,2,3} x min_wait in {0,1,5,10} days x 12 time grids of 8 "
        "evaluation times (uniform 0.5/1/2/5/10 d, all coincident, coincident pairs, mixed, steps one second short of the "
        "wait, wait boundary -1 s/0/+1 s, ...) x first evaluation at start time +0 / -1 s / -2 d x every condition-outcome "
        "sequence of length 1..8 (576 configurations x 510 sequences = 293760 traces); the action is read from deck text",
    ],
    not_decided=[
        "liveness: that an action which is ready and whose condition holds does run (the statement only bounds runs from "
        "above); guarded against vacuity by floors on observed runs, runs at the exact wait boundary and at the start time",
        "whether max_run = 0 means 'unlimited' (ActionX.hpp) or 'never' (what ActionX::ready does)",
        "msim::post_step of this tree never calls Action::State::add_run for ACTIONX, so under msim itself the limits are "
        "not enforced; the check drives pending/eval/add_run in the order a simulator's action handler uses",
        "fractional month numbers (documented rounding), group wildcards and well templates on the right-hand side (refused "
        "by the library), region/block/segment/connection/aquifer quantities, restart-file conditions, PYACTION",
        "the effect of a triggered action on the Schedule (that is C04)",
    ],
    assumptions=[
        "a well-level comparison is a W* quantity with exactly one argument; an argument beginning with '*' and longer than "
        "one character names a well list (or a template over list names), '\\*...' is a well-name template",
        "a wildcard ranges over the wells for which the quantity is defined in the summary state",
        "a redefined action (same name, later ACTIONX) is a new action with its own limits and start time",
    ],
)
