Q, T = "quick", "thorough"

PROP = dict(
    level="exploration",
    level_text="Random token sequences from the documented UDQ grammar (and, first, every ordered pair of adjacent binary "
               "operators `a op1 b op2 c`, 224 pairs x 8 variants) are evaluated by the real UDQDefine/UDQParser/UDQASTNode/"
               "UDQSet/UDQFunction and by an independent token-level reference interpreter; value and defined-ness are compared "
               "per well/group. Every 41st case is an ASSIGN/DEFINE/UPDATE history driven through Schedule + UDQConfig::eval and "
               "compared with a reference history model after every report step. Exploration is the right level: the input "
               "space (programs x summary states) is unbounded; the oracle is exact up to rounding (tolerance: 32 x a forward "
               "rounding-error bound the reference carries along + 1e-13 relative; observed differences are 0).",
    level_note="Trusts the ~400-line reference interpreter and libm. Inputs the statement does not decide are not compared "
               "(counted under guarded_not_decided_by_statement): a^b^c, a sign directly before a ^ operand, division by zero, "
               "LN/LOG/AVEG/pow domain errors, non-finite or >1e12 intermediates, NINT at .5, SORTA/SORTD ties, comparisons of "
               "operands closer than 1% (UDQPARAM tolerance zone) or equal only up to rounding, ill-conditioned results, "
               "comparison/union chains whose two groupings differ (where they agree the library may follow either), "
               "reductions/sorts of scalar expressions (the library turns literals into sets), group-name wildcards (refused "
               "by the library as not yet supported), DEFINE sets whose result depends on the evaluation order. Violation keys "
               "name the library mechanism of the smallest failing sub-expression; `:in-operand` marks a construct with a known "
               "mechanism inside an operand of the failing operator; history keys name the last record on the quantity that is "
               "wrong by itself (history:update-NEXT, history:assign, ...).",
    technique="reference-model monitor (independent UDQ interpreter + history model) over generated expressions and histories",
    rule="expression case: random world (2-6 wells, 2-4 groups, summary and UDQ quantities with defined and undefined entries, "
         "zero/negative/positive values) + random token sequence from the grammar (nesting depth <= 5, <= ~75 tokens; numbers, "
         "field, well and group quantities, named wells/groups, well wildcards, all 15 binary operators, 10 reductions, 10 "
         "elemental functions, signs, parentheses) with a well, group or field target; non-trivial = at least two "
         "operators/functions and one quantity; history case: 2-4 wells, 3-8 report steps, 5 quantities, random ASSIGN (all "
         "wells / selected wells) / DEFINE (13 templates over other UDQs, itself, FOPR, WOPR) / UPDATE ON|OFF|NEXT records; "
         "non-trivial = at least two DEFINE evaluations; distinct = distinct hash of (world, tokens) resp. deck text",
    stages=[
        dict(harness="c17_udq", flavour="plain", cases={Q: 400000, T: 16000000}, timeout={Q: 900, T: 5400}),
        # same generator, but expressions containing a construct whose library mechanism already has a finding are
        # regenerated: explores the rest of the space while those findings are open
        dict(id="c17_udq_beyond_known", harness="c17_udq", flavour="plain", cases={Q: 200000, T: 8000000},
             timeout={Q: 900, T: 5400}, args=["avoid_known=1", "hist_every=0"]),
    ],
    min_nontrivial={Q: 150000, T: 2250000},
    coverage_floor=[("c17_udq", "directed_pair_cases_compared", 1750),
                    ("c17_udq", "expressions_compared", {Q: 300000, T: 4500000}),
                    ("c17_udq", "histories_compared", {Q: 8000, T: 120000}),
                    ("c17_udq_beyond_known", "expressions_compared", {Q: 150000, T: 2250000})],
    exhaustive_subspaces=["all 224 ordered pairs of adjacent binary operators (15 x 15 without ^ ^), 8 generated variants each, "
                          "mapped onto the first 1792 expression cases (evidence: cover op_pair distinct = 224)"],
    not_decided=["associativity of a^b^c and the binding of a sign in front of a ^ operand (guarded, per the design)",
                 "the tolerance zone of == != <= >= (operands within 1% of each other)",
                 "the grouping of chained comparisons and of chained union operators when the two groupings differ",
                 "random-number functions RANDN/RANDU/RRNDN/RRNDU, table look-ups, segment/region/connection quantities",
                 "group-name wildcards (the library refuses them)",
                 "the order in which several DEFINEs of one report step are evaluated when it matters",
                 "ASSIGN to selected wells of a quantity that was DEFINEd before; wells introduced after step 0; ACTIONX-driven UDQ records"],
    assumptions=["libm results of pow/exp/log are the same in reference and library (same libm, same arguments)",
                 "a number literal is a scalar that broadcasts; a DEFINE whose right-hand side is a scalar assigns it to every well/group",
                 "reductions ignore undefined elements and are undefined when nothing is defined; UNDEF(x)=1 where x is undefined, undefined elsewhere",
                 "UPDATE NEXT evaluates the DEFINE at the next evaluation only, then behaves as OFF; a new DEFINE starts with ON; "
                 "ASSIGN takes effect at the report step of its UDQ keyword and turns the quantity into a constant"],
)
