Q, T = "quick", "thorough"

PROP = dict(
    level="exploration",
    level_text="Three monitors on the real library. (tables) Every UnitSystem::measure x {METRIC, FIELD, LAB, PVT-M}, every dimension "
               "string found reflectively on any ParserItem x 4 systems, the unit strings of the field-property keyword table, and every "
               "keyword JSON file of the build's keyword list are enumerated completely: round trip to 4 ulp, mutual consistency of "
               "the to-SI / from-SI / offset tables and the named-dimension table, every factor and offset against an independent "
               "table written from the unit definitions (1e-13), composite = product/quotient of base factors, unit names of the "
               "output files against a symbol dictionary, RestartValue/Solution convertFromSI/convertToSI against SI/reference, "
               "built-in keyword == its JSON definition attribute by attribute through the public getters. (kw) A reflective "
               "G-KW text of every keyword with dimensioned items is re-expressed in the four systems with the reference factors and "
               "must give the reference SI value in every Deck (1e-12), defaulted items included. (model) One physical model "
               "(grid, PVT / saturation / thermal / polymer / solution tables, field-property operations, aquifers, wells, segments, "
               "groups, VFP table, network, ~45 schedule keywords) whose dimensions are stated by the harness from the ECLIPSE manual is "
               "written in the four systems; Deck SI values, the complete serialised EclipseState (all tables) and every "
               "ScheduleState, field properties, grid geometry and the evaluated well/group limits must agree (1e-12; 1e-9 for what the "
               "library computes by differences and look-ups: cell geometry, pore volumes, connection factors and equivalent radii, "
               "aquifer constants). Exploration: the finite tables are enumerated, values, texts and models are sampled.",
    level_note="Trusts the ~150-line reference table ref:: in harness/c02_units.cpp (reviewed line by line against the unit "
               "definitions) and, for the model stage, the harness's statement of the physical dimension of ~300 items of ~110 "
               "keywords. The BTU is accepted in either definition to 7 digits (tables); the re-expression stages then write FIELD "
               "energies with the library's BTU so that everything else is held to 1e-12.",
    technique="reference-model monitor (independent physical unit table) + algebraic identities + relational (metamorphic) "
              "re-expression of keyword texts and complete models in four unit systems + structural JSON-vs-generated comparison",
    rule="tables: idx < E enumerates (system, measure), (system, dimension string), JSON file, field-property unit string "
         "(E is measured, ~1730); later indices: random composite dimension strings (1-4 factors over 0-4 divisors) and random "
         "RestartValue containers (2-9 vectors of random measures, SI values 1e-6..1e9 of both signs). kw: case = keyword "
         "(cycling over all generatable keywords with dimensioned items) + random G-KW text (25% of the single items defaulted), "
         "its METRIC reading is the physical model. model: case = random model (2..4 cells per direction, 1-2 PVT and saturation "
         "regions, random optional features, 2-4 report steps of 2-7 random schedule keywords, items defaulted with p=0.2..0.5). "
         "Non-trivial: tables - the factor or offset differs from identity in at least one system (JSON case: the keyword has "
         "items; composite: >= 2 atoms); kw - at least one non-zero value with a non-identity dimension was compared against the "
         "reference; model - accepted in METRIC and more than 50 physical values written. Distinct = hash of the case content.",
    stages=[
        dict(id="tables", harness="c02_units", flavour="plain", cases={Q: 30000, T: 1800000}, timeout={Q: 600, T: 3600}, args=["part=tables"]),
        dict(id="kw", harness="c02_units", flavour="plain", cases={Q: 60000, T: 3600000}, timeout={Q: 600, T: 5400}, args=["part=kw"]),
        dict(id="model", harness="c02_units", flavour="plain", cases={Q: 2400, T: 120000}, timeout={Q: 900, T: 7200}, args=["part=model"]),
    ],
    min_nontrivial={Q: 40000, T: 597402},
    coverage_floor=[("tables", "enumeration_complete", {Q: 1, T: 1}),
                    ("tables", "comparisons_reference", {Q: 184, T: 184}),
                    ("tables", "comparisons_composite", {Q: 600, T: 600}),
                    ("tables", "json_files_compared", {Q: 1100, T: 1100}),
                    ("tables", "comparisons_output", {Q: 100000, T: 1500000}),
                    ("kw", "item_checks", {Q: 30000, T: 450000}),
                    ("kw", "si_values_compared", {Q: 300000, T: 4500000}),
                    ("model", "models_compared", {Q: 2000, T: 25000}),
                    ("model", "si_values_compared", {Q: 10000000, T: 125000000})],
    exhaustive_subspaces=[
        "tables: {METRIC, FIELD, LAB, PVT-M} x all 46 UnitSystem::measure values (184 cases: three tables, named-dimension "
        "table, reference factor and offset, unit name, round trip of 57 values each)",
        "tables: {METRIC, FIELD, LAB, PVT-M} x every dimension string on any ParserItem of any built-in keyword (76 strings "
        "collected reflectively from the Parser in this tree: composition rule, reference factor, round trip)",
        "tables: every file of <build>/keyword_list.argv (1184 files, 1182 names, last definition wins) against the built-in "
        "keyword, and the converse (every built-in keyword has a definition in the list)",
        "tables: every unit string of the field-property keyword table (Fieldprops::keywords::{GRID,EDIT,PROPS,SOLUTION,SCHEDULE}) "
        "x 4 systems against UnitSystem::parse and against the dimension of the same keyword's data item",
    ],
    not_decided=[
        "for keywords outside the ~110 the model stage writes with harness-stated dimensions, only internal agreement is decided "
        "(JSON == generated code, unit tables, cross-system equality with the JSON's own dimension): a physically wrong "
        "dimension annotation in such a JSON file is not detectable offline",
        "items without a dimension in the keyword definition that the library converts from context (WCONINJE RATE, WELTARG "
        "value, GCONINJE surface target, VFP table bodies, WCONINJH) are judged only through the evaluated well/group controls "
        "and tables of the model stage",
        "which measure a summary vector is written with (Summary.cpp) is C09's subject; here only UnitSystem::from_si/name per "
        "measure and RestartValue/Solution::convertFromSI are decided",
        "unit names whose symbols are not in the harness's dictionary ('SM2', 'CPR3/DAY/ATM') are reported as not decided",
        "a built-in keyword whose deck name is shadowed by another keyword (WAPI by WELL_PROBE) cannot be reached through the "
        "public Parser interface and is not compared with its JSON file",
        "the size of the BTU is accepted to 1e-6 in either definition (thermochemical / International Table)",
    ],
    assumptions=["the unit definitions in ref:: (1959 inch/pound, g0, atm, 42 US gal barrel of 231 in^3, darcy from its definition, "
                 "0 degC = 273.15 K, 0 degF = 459.67 degR) and the base units of the four conventions are as in the ECLIPSE manual",
                 "model stage: cells are thick and shallow so that differences of depths stay well conditioned; connection-to-"
                 "segment assignments and table look-ups are never at a tie",
                 "keyword defaults are METRIC numbers (the library's documented convention)"],
)
