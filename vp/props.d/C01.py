Q, T = "quick", "thorough"

PROP = dict(
    level="exploration",
    level_text="Relational monitor on the real parser: a structured keyword text from the reflective grammar generator (every "
               "generatable keyword of the tree, every size class, explicit size-defining keywords) or a shipped deck, and a "
               "random composition of the layout rewrites named in the statement, are parsed with the same (strict) context; "
               "the complete Deck dumps must be bit-identical and the rewritten text must not be refused. Exploration: the "
               "space of texts and rewrite compositions is unbounded.",
    level_note="The rewrite rules are trusted to be meaning preserving under the guards of DESIGN.md C01 (no continuation line "
               "starting with a bare word, no token-level rewrites in raw-string records, lone '/' never produced by dropping "
               "defaults in open-ended keywords, n*v only for blank-free values). Keywords whose base text the generator cannot "
               "make parseable are counted and skipped.",
    technique="metamorphic (relational) runtime monitor: parse(T) vs parse(rewrite(T)), bit-exact Deck dump; ASan/UBSan replica",
    rule="case = (base text, rewritten text). Single-keyword decks cycle through every generatable keyword (sweep passes), then "
         "multi-keyword decks with explicit size keywords; 25% of the variants are split over nested INCLUDE files. Non-trivial: "
         "base parses, has >= 1 record and >= 1 rewrite rule changed the text; distinct = hash(base, variant)",
    stages=[
        dict(id="gen", harness="c01_layout", flavour="plain", cases={Q: 40000, T: 1200000}, timeout={Q: 900, T: 7200}, args=["mode=gen"]),
        dict(id="shipped", harness="c01_layout", flavour="plain", cases={Q: 600, T: 6000}, timeout={Q: 900, T: 7200}, args=["mode=shipped"]),
        dict(id="gen_asan", harness="c01_layout", flavour="asan", cases={Q: 3000, T: 30000}, timeout={Q: 900, T: 7200}, args=["mode=gen"]),
    ],
    min_nontrivial={Q: 10000, T: 109403},
    coverage_floor=[("gen", "pairs_compared", {Q: 20000, T: 225000}), ("shipped", "pairs_compared", {Q: 100, T: 750})],
    assumptions=["commas as separators and free text after a keyword name are not in the statement and not generated",
                 "shipped decks use only the conservative line-level rules (comments, blank lines, blanks, keyword case)"],
)
