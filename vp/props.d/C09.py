Q, T = "quick", "thorough"

PROP = dict(
    level="exploration",
    level_text="Reference-model monitor on the real evaluator: generated models (group tree up to depth 4, 2-8 wells, WEFAC/GEFAC "
               "changing between report steps, producers/injectors, WCONHIST/WCONINJH wells with observed rates changing per step, "
               "shut/stopped wells, wells defined or opened later, COMPLUMP completions, 4 unit systems, TSTEP and DATES) are parsed "
               "by the real parser, random dynamic well results are fed through out::Summary::eval (1-4 evaluations per report "
               "step, optionally one at step 0) and EVERY value of the SummaryState is compared after EVERY evaluation with an "
               "executable reference that is compositional in the mnemonic ([WGF][OWGLV][PI][RT]H?, ratios, solution/free splits, "
               "C* connection and W*L/C*L completion vectors, TIME/YEARS/DAY/MONTH/YEAR/TIMESTEP) and has its own unit factors "
               "and calendar. The keyword list is harvested from the parser and SummaryConfig of the tree under test. Exploration is "
               "the right level: models, histories and step lengths are unbounded; the oracle is exact up to rounding (1e-9).",
    level_note="Trusts the ~200-line reference (namespace ref in c09_summary.cpp). SummaryState values not covered by the statement "
               "(pressures, guide rates, potentials, control modes, well counts) are counted as unmodelled, not compared. History "
               "vectors to which a prediction-mode well with explicit rate targets contributes are not compared (the library "
               "echoes the target; the statement speaks of observed rates only). Dynamic results are consistent with the schedule: "
               "shut wells carry no rates.",
    technique="reference-model monitor over generated models and random well-rate histories; reflective keyword harvest",
    rule="case = (generated model rendered to a deck, random dynamic results for every evaluation); non-trivial: group tree depth "
         ">= 2, an efficiency factor != 1, an injector that flows and a shut well seen in some evaluation; distinct = hash(deck)",
    stages=[
        dict(harness="c09_summary", flavour="plain", cases={Q: 8000, T: 100000}, timeout={Q: 900, T: 7200}),
        dict(id="c09_summary_asan", harness="c09_summary", flavour="asan", cases={Q: 400, T: 8000}, timeout={Q: 900, T: 7200}),
    ],
    min_nontrivial={Q: 3000, T: 28928},
    coverage_floor=[("c09_summary", "comparisons", {Q: 20000000, T: 187500000}),
                    ("c09_summary", "evaluations_of_summary", {Q: 40000, T: 375000})],
    not_decided=[
        "history vectors (*H) of prediction-mode wells that carry explicit rate targets, and of groups/field while such a well flows",
        "summary vectors outside the statement's families (pressures, potentials, guide rates, control modes, counts, segments, regions)",
        "keywords the parser of this tree rejects (WLIR/WLIT, GLIR/GLIT, FLIR/FLIT, *V*H, COIR in SUMMARY, ...: see harvest_rejected)",
        "group tree or well type changing during the run; restarted runs",
    ],
    assumptions=[
        "dynamic well results are consistent with the schedule (shut wells have no rates; stopped wells have no surface flow)",
        "a connection / completion vector reports the flow of a well operating in that direction, positive in that direction",
        "ratios are 0 where the denominator is 0 (the library's documented convention)",
    ],
)
