Q, T = "quick", "thorough"

PROP = dict(
    level="exploration",
    level_text="Relational monitor on the real parser and writer: d = parse(T), d2 = parse(print(d)); keyword sequence, record and "
               "item structure, integers, strings, default flags must be identical, doubles equal to the printed precision "
               "(1e-9 relative, the writer prints 10 significant digits), and print(d2) == print(d). T ranges over every generatable "
               "keyword of the tree under test (all size classes, hostile strings, defaults everywhere), complete generated models (arrays, tables, UDQ expressions, ACTIONX blocks, schedule keywords written through one writer object) and the shipped decks.",
    level_note="Strict parse context for generated decks; shipped decks are parsed with an all-IGNORE context on both sides. "
               "Keywords the generator cannot make parseable are counted and skipped.",
    technique="round-trip (print o parse) relational monitor over a reflective keyword grammar; ASan/UBSan replica",
    rule="case = one generated deck (single keyword cycling through the catalog, then multi-keyword decks incl. TITLE) or one shipped "
         "deck; non-trivial: parses and has >= 1 record; distinct = hash of the input text",
    stages=[
        dict(id="gen", harness="c19_print", flavour="plain", cases={Q: 40000, T: 2000000}, timeout={Q: 900, T: 7200}, args=["mode=gen"]),
        dict(id="shipped", harness="c19_print", flavour="plain", cases={Q: 200, T: 200}, timeout={Q: 900, T: 3600}, args=["mode=shipped"]),
        dict(id="models", harness="c19_print", flavour="plain", cases={Q: 1200, T: 200000}, timeout={Q: 900, T: 7200}, args=["mode=models"]),
        dict(id="gen_asan", harness="c19_print", flavour="asan", cases={Q: 3000, T: 30000}, timeout={Q: 900, T: 7200}, args=["mode=gen"]),
    ],
    min_nontrivial={Q: 10000, T: 113209},
    coverage_floor=[("gen", "round_trips", {Q: 20000, T: 225000}), ("shipped", "round_trips", 40)],
    assumptions=["doubles are compared to the printed precision only, as the statement says"],
)
