Q, T = "quick", "thorough"

PROP = dict(
    level="exploration",
    level_text="Relational monitor on the real writer and the real readers. The harness plays the simulator on generated models "
               "(grid with inactive cells, 2-8 wells in a group tree, MSW / UDQ / UDA / ACTIONX / network in stated fractions, "
               "METRIC / FIELD / LAB / PVT-M): for every report step n it builds a random schedule-consistent state from "
               "sched.getWells(n-1), runs out::Summary::eval, UDQConfig::eval, Action::State::add_run (and, for half of the "
               "triggered actions, Schedule::applyAction), writes the file with RestartIO::save in a rotating subset of the 8 "
               "flavours (FMTOUT x UNIFOUT x write_double), and (1) loads it back with RestartIO::load / UDQState::load_rst / "
               "Action::State::load_rst and compares every restored quantity, (2) builds Schedule(deck + RESTART [+ SKIPREST], "
               "&RstState) and compares it field by field through public getters with the original schedule at step n and every "
               "later step. Exploration is the right level: the space of models x states is unbounded, the oracle is exact "
               "(binary DOUB / INTE), 1e-13 (formatted DOUB), 2 ulp of float (REAL), 2^-22 relative for schedule reals.",
    level_note="Compared field list = what the unchanged tree carries through the file; every exclusion is listed in not_decided and "
               "marked 'EXCLUDED:' in the harness. The unit conversion tables themselves are trusted (C02): a measure that is wrong "
               "on both sides alike is invisible. Decks the library refuses are counted, not reported.",
    technique="round-trip relational monitor (saved vs loaded state; original vs restarted schedule, own float-tolerant field-wise comparison)",
    rule="case = one generated model (3-6 report steps) in one unit system (index mod 4); per report step 3 (quick) / 8 (thorough) "
         "file flavours are written and loaded back, the restarted schedule is built once per step (70 % with SKIPREST and the "
         "complete schedule section, 30 % without and the section cut at the restart step) and compared at every step k >= n; "
         "unified files are re-read once more when complete. Non-trivial: >= 2 flowing wells compared, dynamic and schedule "
         "comparisons both made; distinct = hash of (deck text, unit system)",
    stages=[
        dict(harness="c05_restart", flavour="plain", cases={Q: 2400, T: 30000}, timeout={Q: 1200, T: 7200}),
    ],
    min_nontrivial={Q: 1200, T: 11250},
    coverage_floor=[("c05_restart", "dynamic_comparisons", {Q: 2000000, T: 18750000}),
                    ("c05_restart", "schedule_field_comparisons", {Q: 1000000, T: 9375000}),
                    ("c05_restart", "restarted_schedules", {Q: 2000, T: 18750}),
                    ("c05_restart", "cases_with_msw", {Q: 100, T: 937}),
                    ("c05_restart", "cases_with_udq", {Q: 100, T: 937}),
                    ("c05_restart", "cases_with_actionx", {Q: 50, T: 468}),
                    ("c05_restart", "cases_with_inactive_cells", {Q: 600, T: 5625})],
    not_decided=[
        "schedule: the position of a segment inside WellSegments (original: branch by branch, restarted: by number) is not compared, segments are matched by number; counted as 'segment storage order differs'",
        "dynamic: wells that do not flow (shut, stopped, open without open connection) are not compared (statement: flowing wells); "
        "guide rates, group/network node data, aquifers, tracers, connection cumulatives are restored by the loader but not in the statement",
        "dynamic: integer solution arrays are written (INTE) but RestartIO::load only looks for REAL/DOUB arrays (a requested INTE "
        "array is reported missing); they stay in the file as context and are not requested",
        "dynamic: Eclipse-compatible output (IOConfig::setEclCompatibleRST(true): no extra arrays, no double) is not exercised",
        "dynamic: segment phase rates are recombined from total flow and two fractions: compared to 1e-9 relative (largest error seen 6e-13)",
        "schedule: control mode and control bit set of a well are compared only when the simulator state has it running on the control "
        "its schedule requests - IWEL[ActWCtrl] holds the simulator's active control and the restarted Well reads its control mode "
        "(and, for history wells, its control set) from that slot",
        "schedule: status of a well the schedule has OPEN/STOP/AUTO but which has no open connection (written as SHUT) is not compared",
        "schedule: the GRUP bit of a well's control set (re-derived from WGRUPCON availability on restart; availability itself is compared)",
        "schedule: a UDA that holds a number on one side only (restart constructors fill in zeros/defaults where the keyword handlers "
        "leave items unset); numbers are compared through the evaluated controls for the controls that are in the well's control set",
        "schedule: WTMULT on a limit that is not in the well's control set multiplies a placeholder in the original and is refused "
        "('Cannot apply WTMULT to undefined ... target') by the restarted run; counted as restart_refused_wtmult_on_unset_limit",
        "schedule: keyword kinds of the shared generator outside the validated set are dropped from the generated schedules (cover "
        "'excluded_keyword'): DRVDT / DRSDTR / VAPPARS make RestartIO::save throw 'Only valid if DRSDT is active'; GPMAINT / GCONSALE "
        "make a group an injection / production group without GCONINJE / GCONPROD data and the type is lost; FBHPDEF defaults are "
        "not stored (documented in Well.cpp); these observations are reported, not claimed",
        "schedule: group production: per-phase exceed actions (GCONPROD 11-13), respond-to-parent flag (item 8), guide rate value "
        "(item 9), reservoir volume target (item 14) are not restored by Group(RstGroup); control mode FLD is written as 0 and comes "
        "back as NONE with action RATE (GCONPROD FLD removed from generated schedules); the control bit set is compared only when "
        "the exceed action is not NONE",
        "schedule: group injection: reinjection group (GCONINJE 11) and respond-to-parent flag (item 8) are not restored",
        "schedule: UDQ UPDATE NEXT is written like OFF (IUDQ item 1: 2 = ON, 0 otherwise); ON vs not-ON is compared",
        "schedule: a UDQ ASSIGN is compared through the values it gives to the wells/groups that held a value when the file was "
        "written (the file stores values, not the selector)",
        "schedule: well lists without members leave no trace in the file (a later WLIST ADD to such a list is refused by the "
        "restarted run; counted as restart_refused_because_of_empty_well_list)",
        "schedule: order of wells / child groups inside a group is not compared (sets are); the per-well index of list names "
        "(WListManager::getWListNames) is not compared - WLIST DEL leaves the name behind in the original's index - the content of every "
        "list is",
        "schedule: WHISTCTL is removed from generated schedules: handleWHISTCTL calls Well::updateProduction on every well, which "
        "turns every injector into a producer without control mode (separate defect, reported)",
        "schedule: well test / economic limits / gas lift / TUNING / DRSDT / GUIDERAT / NETBALAN / GCONSUMP / VFP tables / RFT / "
        "events are loaded from the file but are outside the statement's list and not compared",
    ],
    assumptions=["schedule-consistent state: well status and flowing connections follow the schedule (the file stores the dynamic status)",
                 "the generator's WELLDIMS item 11 is raised to 8 (wells are put into up to 3 lists), its run-on ACTIONX condition records "
                 "are split into one record per comparison, its COMPSEGS ranges are shifted onto the segments (harness-side corrections "
                 "of the generated text, the shared generator is unchanged); the units item of VFPPROD / VFPINJ is defaulted in PVT-M decks and of "
                 "VFPINJ in LAB decks (the keywords refuse those unit strings)"],
)
