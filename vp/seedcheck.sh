#!/bin/sh
# Run a check against a scratch worktree with a seeded change applied.
#   vp/seedcheck.sh <patch.diff> <check args...>      e.g.  vp/seedcheck.sh /tmp/mut/s_C16/deliver/patch.diff C16 --stage c16_ad
# The worktree /tmp/mut/chkwt is moved to /repo's HEAD, the patch applied, the check run with a private build dir, the patch undone.
set -e
PATCH="$1"; shift
WT=/tmp/mut/chkwt
git -C $WT checkout -q -- . 
git -C $WT checkout -q --detach "$(git -C /repo rev-parse HEAD)"
git -C $WT apply "$PATCH"
cd /verif
set +e
VERIF_REPO=$WT VERIF_BUILD=/tmp/mut/chkbuild VERIF_EVIDENCE=/tmp/mut/chkevidence ./check "$@"
rc=$?
git -C $WT checkout -q -- .
echo "seedcheck exit=$rc"
exit $rc
