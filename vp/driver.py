#!/usr/bin/env python3
"""Check driver: build -> run harness shards under watchdogs -> merge -> known findings -> evidence.

Exit codes: 0 property held on everything explored (known findings are printed, not alarms)
            1 at least one violation that known_findings.json does not list (VIOLATION line printed)
            2 inconclusive / harness failure (build failed, worker hung, too little observed)
"""
import array
import json
import os
import re
import shutil
import signal
import subprocess
import sys
import time
from concurrent.futures import ThreadPoolExecutor

VERIF = os.path.dirname(os.path.dirname(os.path.abspath(__file__)))
# evidence of runs against a scratch tree (seeded changes, VERIF_EVIDENCE set by vp/seedcheck.sh) must not replace the evidence of /repo
EVIDENCE_DIR = os.environ.get("VERIF_EVIDENCE") or os.path.join(VERIF, "evidence")
sys.path.insert(0, os.path.join(VERIF, "vp"))
import build  # noqa: E402
from props import PROPS  # noqa: E402

NCPU = int(os.environ.get("VERIF_JOBS", "16"))

SAN_ENV = {
    "ASAN_OPTIONS": "abort_on_error=1:detect_leaks=0:allocator_may_return_null=1:handle_abort=1:"
                    "detect_stack_use_after_return=0:symbolize=1:max_malloc_fill_size=0:malloc_context_size=5:"
                    "max_allocation_size_mb=6000:hard_rss_limit_mb=7000",
    "UBSAN_OPTIONS": "print_stacktrace=1:halt_on_error=1:abort_on_error=1",
    "TSAN_OPTIONS": "halt_on_error=0:ignore_noninstrumented_modules=1:second_deadlock_stack=1:exitcode=0",
}


def log(msg):
    sys.stderr.write("[check] %s\n" % msg)
    sys.stderr.flush()


# ----------------------------------------------------------------------------------------------
# crash / sanitizer report -> stable key
# ----------------------------------------------------------------------------------------------
FRAME_RE = re.compile(r"#\d+\s+0x[0-9a-f]+\s+in\s+(.+?)\s+(/\S+?):(\d+)")
FRAME_RE2 = re.compile(r"#\d+\s+0x[0-9a-f]+\s+in\s+(.+?)\s+\(?(/\S+)")


def _strip_args(fn):
    # "Opm::A::b(int, char) const" -> "Opm::A::b"; keep template names short
    depth = 0
    out = []
    for ch in fn:
        if ch == "(" and depth == 0:
            break
        out.append(ch)
    s = "".join(out).strip()
    s = re.sub(r"<.*>", "<>", s)
    s = re.sub(r"\[abi:\w+\]", "", s)
    return s


def first_repo_frame(text, repo="/repo/"):
    for line in text.splitlines():
        m = FRAME_RE.search(line) or FRAME_RE2.search(line)
        if not m:
            continue
        fn, path = m.group(1), m.group(2)
        root = os.environ.get("VERIF_REPO", "/repo").rstrip("/")
        if (root + "/opm/") in path or (root + "/msim/") in path:
            return _strip_args(fn)
    return None


def crash_key(stderr_text, retcode):
    t = stderr_text
    # Memory exhaustion is not a sanitizer finding: in an uninstrumented build an absurd request makes operator new throw
    # std::bad_alloc (a std::exception, i.e. a pass); ASan cannot return null from a throwing new and aborts instead.
    if re.search(r"AddressSanitizer: (allocator is out of memory|requested allocation size|hard rss limit exhausted|out of memory)", t) or \
       re.search(r"SUMMARY: AddressSanitizer: (out-of-memory|allocation-size-too-big|rss-limit-exceeded)", t):
        return "toollimit:memory"
    m = re.search(r"ERROR: AddressSanitizer: (\S+)", t)
    if m and m.group(1) != "ABRT":
        kind = m.group(1)
        fr = first_repo_frame(t[m.start():]) or "?"
        return "asan:%s@%s" % (kind, fr)
    asan_abrt = m
    m = re.search(r"runtime error: (.*)", t)
    if m:
        msg = m.group(1)
        kind = "ub"
        for pat, k in [("signed integer overflow", "signed-integer-overflow"), ("null pointer", "null-pointer"),
                       ("reference binding to null", "null-reference"), ("outside the range of representable", "float-cast-overflow"),
                       ("division by zero", "division-by-zero"), ("shift", "shift"), ("index .* out of bounds", "index-out-of-bounds"),
                       ("misaligned", "misaligned"), ("load of value", "invalid-enum-or-bool-load"),
                       ("member call on", "bad-member-call"), ("member access within", "bad-member-access"),
                       ("downcast", "bad-downcast"), ("applying non-zero offset", "pointer-overflow"), ("pointer index expression", "pointer-overflow"),
                       ("negation of", "signed-integer-overflow"), ("not a valid value", "invalid-enum-or-bool-load")]:
            if re.search(pat, msg):
                kind = k
                break
        fr = first_repo_frame(t[m.start():])
        if fr is None:
            # no stack: fall back to file name of the report line
            m2 = re.search(r"(/\S+?):(\d+):(\d+): runtime error", t)
            fr = os.path.basename(m2.group(1)) if m2 else "?"
        return "ubsan:%s@%s" % (kind, fr)
    m = re.search(r"terminate called after throwing an instance of '([^']+)'", t)
    if m:
        return "abort:uncaught:%s" % m.group(1)
    if "terminate called without an active exception" in t:
        return "abort:terminate"
    m = re.search(r"(\S+): Assertion `(.*)' failed", t)
    if m:
        loc = m.group(1).split(":")
        return "abort:assert@%s" % os.path.basename(loc[0])
    if asan_abrt:
        # abort() caught by ASan's handle_abort without a recognisable reason above
        return "abort@%s" % (first_repo_frame(t[asan_abrt.start():]) or "?")
    m = re.search(r"ERROR: (\w+Sanitizer): (\S+)", t)
    if m:
        return "%s:%s@%s" % (m.group(1).lower(), m.group(2), first_repo_frame(t) or "?")
    if retcode is not None and retcode < 0:
        try:
            name = signal.Signals(-retcode).name
        except Exception:
            name = "SIG%d" % -retcode
        return "crash:%s" % name
    return "crash:exit%s" % retcode


def tsan_reports(text):
    """split ThreadSanitizer output into report blocks and key each by (kind, first repo frames)"""
    keys = []
    for blk in re.split(r"(?=WARNING: ThreadSanitizer: )", text):
        m = re.match(r"WARNING: ThreadSanitizer: ([^(\n]+)", blk)
        if not m:
            continue
        kind = m.group(1).strip().replace(" ", "-")
        fr = first_repo_frame(blk) or "?"
        keys.append(("tsan:%s@%s" % (kind, fr), blk[:3000]))
    return keys


# ----------------------------------------------------------------------------------------------
# running one stage
# ----------------------------------------------------------------------------------------------
class StageResult:
    def __init__(self):
        self.summaries = []
        self.violations = []     # dicts: key, what, replay, case
        self.inconclusive = []   # strings
        self.wall = 0.0
        self.restarts = 0


def _cpu_seconds(pid):
    try:
        f = open("/proc/%d/stat" % pid).read().rsplit(")", 1)[1].split()
        return (int(f[11]) + int(f[12])) / float(os.sysconf("SC_CLK_TCK"))
    except Exception:
        return 0.0


def run_worker(cmd, env, timeout, outdir, shard, cpu_limit=None):
    """returns (retcode or 'timeout', stdout, stderr).  With cpu_limit the deadline is on the CPU seconds the worker has consumed
    (a verdict that does not depend on how loaded the machine is); `timeout` stays as the wall-clock bound for a blocked worker."""
    so = open(os.path.join(outdir, "stdout_%d" % shard), "ab+")
    se = open(os.path.join(outdir, "stderr_%d" % shard), "ab+")
    so_pos, se_pos = so.seek(0, 2), se.seek(0, 2)
    p = subprocess.Popen(cmd, stdout=so, stderr=se, env=env, cwd=outdir, start_new_session=True)
    try:
        if cpu_limit is None:
            rc = p.wait(timeout=timeout)
        else:
            t_end = time.time() + timeout
            while True:
                try:
                    rc = p.wait(timeout=1.0)
                    break
                except subprocess.TimeoutExpired:
                    if _cpu_seconds(p.pid) >= cpu_limit or time.time() >= t_end:
                        raise
    except subprocess.TimeoutExpired:
        try:
            os.killpg(p.pid, signal.SIGKILL)
        except Exception:
            p.kill()
        p.wait()
        rc = "timeout"
    so.seek(so_pos)
    se.seek(se_pos)
    out = so.read().decode("utf-8", "replace")
    err = se.read().decode("utf-8", "replace")
    so.close()
    se.close()
    return rc, out, err


def read_journal(outdir, shard):
    try:
        return int(open(os.path.join(outdir, "journal_%d" % shard)).read().split()[0])
    except Exception:
        return None


def run_stage(pid, stage, tier, seed, workdir, replay_case=None):
    res = StageResult()
    flavour = stage.get("flavour", "plain")
    name = stage["harness"]
    with build.Lock(flavour):
        hd = build.build_harnesses(flavour, [name])
    exe = os.path.join(hd, name)
    cases = stage["cases"][tier] if isinstance(stage["cases"], dict) else stage["cases"]
    cases = int(os.environ.get("VERIF_CASES_" + name.upper(), cases))
    timeout = stage.get("timeout", {"quick": 900, "thorough": 7200})
    timeout = timeout[tier] if isinstance(timeout, dict) else timeout
    nsh = max(1, min(NCPU, stage.get("max_workers", NCPU), cases))
    outdir = os.path.join(workdir, stage.get("id", name))
    os.makedirs(outdir, exist_ok=True)
    env = dict(os.environ)
    env.update(SAN_ENV)
    env["OMP_NUM_THREADS"] = str(stage.get("omp_threads", 1))
    env.update(stage.get("env", {}))
    extra = list(stage.get("args", []))
    targs = stage.get("tier_args", {}).get(tier, [])
    extra += targs
    crash_mode = stage.get("crash", "violation")      # violation | inconclusive
    hang_mode = stage.get("hang", "inconclusive")     # violation | inconclusive
    case_timeout = stage.get("case_timeout", 120)
    t0 = time.time()

    def base_cmd(shard, nshard, start, ncases):
        return [exe, "--seed", str(seed), "--shard", "%d/%d" % (shard, nshard), "--cases", str(ncases),
                "--start", str(start), "--tier", tier, "--out", outdir] + extra

    def one_shard(shard):
        start = 0
        local = {"summaries": [], "violations": [], "inconclusive": [], "restarts": 0, "tsan": []}
        deadline = time.time() + timeout
        while True:
            remaining = deadline - time.time()
            if remaining <= 0:
                local["inconclusive"].append("stage %s shard %d: out of time budget" % (name, shard))
                return local
            rc, out, err = run_worker(base_cmd(shard, nsh, start, cases), env, remaining, outdir, shard)
            got_summary = False
            for line in out.splitlines():
                line = line.strip()
                if not line.startswith("{"):
                    continue
                try:
                    o = json.loads(line)
                except Exception:
                    continue
                if o.get("type") == "violation":
                    o["stage"] = stage.get("id", name)
                    local["violations"].append(o)
                elif o.get("type") == "summary":
                    local["summaries"].append(o)
                    got_summary = True
            if flavour == "tsan":
                local["tsan"] += tsan_reports(err)
            if got_summary and rc == 0:
                return local
            j = read_journal(outdir, shard)
            if rc == "timeout":
                if hang_mode == "violation" and j is not None and j >= 0:
                    # re-run the journaled case alone under the per-case watchdog
                    rc2, out2, err2 = run_worker(base_cmd(0, 1, j, j + 1), env, 10 * case_timeout, outdir, shard, cpu_limit=case_timeout)
                    if rc2 == "timeout":
                        local["violations"].append(_crash_violation(pid, stage, seed, tier, j, "hang", "case alone did not finish within %d CPU seconds (or %d s wall clock)" % (case_timeout, 10 * case_timeout), _note(outdir, shard), outdir, shard, extra))
                        start = j + 1
                        local["restarts"] += 1
                        deadline = time.time() + timeout
                        continue
                local["inconclusive"].append("stage %s shard %d: watchdog (%ds) fired at case %s" % (name, shard, timeout, j))
                return local
            # the worker died (signal, sanitizer abort, exit != 0 without summary): keep what it observed up to its last checkpoint
            if not got_summary:
                cp = os.path.join(outdir, "checkpoint_%d.json" % shard)
                try:
                    o = json.loads(open(cp).read())
                    if o.get("type") == "summary":
                        o["from_checkpoint"] = True
                        local["summaries"].append(o)
                    os.unlink(cp)
                except Exception:
                    pass
            if j is None or j < 0:
                local["inconclusive"].append("stage %s shard %d: worker failed outside a case (rc=%s): %s" % (name, shard, rc, err[-400:]))
                return local
            key = crash_key(err, rc if isinstance(rc, int) else None)
            if key.startswith("toollimit:"):
                local["toollimit"] = local.get("toollimit", 0) + 1
                local["restarts"] += 1
                if local["restarts"] > 10 * stage.get("max_restarts", 40):
                    local["inconclusive"].append("stage %s shard %d: too many tool-limit restarts" % (name, shard))
                    return local
                start = j + 1
                continue
            if crash_mode == "violation":
                local["violations"].append(_crash_violation(pid, stage, seed, tier, j, key, (err[:4000] + "\n[...]\n" + err[-12000:]) if len(err) > 16000 else err, _note(outdir, shard), outdir, shard, extra))
            else:
                local["inconclusive"].append("stage %s shard %d: worker died at case %d: %s" % (name, shard, j, key))
                return local
            local["restarts"] += 1
            if local["restarts"] > stage.get("max_restarts", 40):
                local["inconclusive"].append("stage %s shard %d: more than %d crashes, giving up" % (name, shard, stage.get("max_restarts", 40)))
                return local
            start = j + 1

    if replay_case is not None:
        rc, out, err = run_worker(base_cmd(0, 1, replay_case, replay_case + 1) + ["--replaying"], env, timeout, outdir, 0)
        sys.stdout.write(out)
        sys.stderr.write(err[-8000:])
        for line in out.splitlines():
            if line.startswith("{"):
                try:
                    o = json.loads(line)
                except Exception:
                    continue
                if o.get("type") == "violation":
                    o["stage"] = stage.get("id", name)
                    res.violations.append(o)
                elif o.get("type") == "summary":
                    res.summaries.append(o)
        if not res.summaries:
            key = crash_key(err, rc if isinstance(rc, int) else None)
            res.violations.append({"key": key, "what": err[-1500:], "case": replay_case, "replay": "", "stage": stage.get("id", name)})
        res.wall = time.time() - t0
        return res

    with ThreadPoolExecutor(max_workers=nsh) as ex:
        for local in ex.map(one_shard, range(nsh)):
            res.summaries += local["summaries"]
            res.violations += local["violations"]
            res.inconclusive += local["inconclusive"]
            res.restarts += local["restarts"]
            res.toollimit = getattr(res, "toollimit", 0) + local.get("toollimit", 0)
            for key, blk in local["tsan"]:
                p = os.path.join(outdir, "tsan_%d.txt" % len(res.violations))
                open(p, "w").write("property: %s\nkey: %s\nstage: %s\nseed: %s\ntier: %s\n--- report ---\n%s\n" % (pid, key, stage.get("id", name), seed, tier, blk))
                res.violations.append({"key": key, "what": "ThreadSanitizer report", "case": -1, "replay": p, "stage": stage.get("id", name)})
    res.wall = time.time() - t0
    return res


def _note(outdir, shard):
    try:
        return open(os.path.join(outdir, "journalnote_%d" % shard), "rb").read().decode("utf-8", "replace")
    except Exception:
        return ""


def _crash_violation(pid, stage, seed, tier, case, key, errtext, note, outdir, shard, extra):
    p = os.path.join(outdir, "crash_%d_%d.txt" % (shard, case))
    with open(p, "w") as f:
        f.write("property: %s\nkey: %s\nwhat: worker died / hung while running this case\nseed: %s\ncase: %d\ntier: %s\nargs: %s\n--- witness ---\n%s\n--- stderr tail ---\n%s\n" % (
            pid, key, seed, case, tier, " ".join(extra), note, errtext))
    return {"key": key, "what": "process died/hung in case %d: %s" % (case, key), "case": case, "replay": p, "stage": stage.get("id", stage["harness"])}


# ----------------------------------------------------------------------------------------------
# merge, known findings, evidence
# ----------------------------------------------------------------------------------------------
def load_known():
    p = os.path.join(VERIF, "known_findings.json")
    if not os.path.exists(p):
        return []
    return json.load(open(p)).get("findings", [])


def merge_cover(summaries):
    counters, maxima, cover, vc = {}, {}, {}, {}
    for s in summaries:
        for k, v in s.get("counters", {}).items():
            counters[k] = counters.get(k, 0) + v
        for k, v in s.get("maxima", {}).items():
            if v is not None and (k not in maxima or v > maxima[k]):
                maxima[k] = v
        for k, v in s.get("violation_counts", {}).items():
            vc[k] = vc.get(k, 0) + v
        for cat, items in s.get("cover", {}).items():
            d = cover.setdefault(cat, {})
            for k, v in items.items():
                d[k] = d.get(k, 0) + v
    return counters, maxima, cover, vc


def compact_cover(cover, limit=40):
    out = {}
    for cat, items in cover.items():
        if len(items) <= limit:
            out[cat] = dict(sorted(items.items()))
        else:
            top = sorted(items.items(), key=lambda kv: -kv[1])[:8]
            out[cat] = {"distinct": len(items), "total": sum(items.values()), "top": dict(top),
                        "names_sample": sorted(items)[:: max(1, len(items) // 25)][:25]}
    return out


def main(argv):
    import argparse
    ap = argparse.ArgumentParser()
    ap.add_argument("prop")
    ap.add_argument("--tier", default=os.environ.get("VERIF_TIER", "quick"), choices=["quick", "thorough"])
    ap.add_argument("--replay", default=None)
    ap.add_argument("--keep-work", action="store_true")
    ap.add_argument("--stage", default=None, help="run only the named stage(s), comma separated (no evidence is claimed for the others)")
    a = ap.parse_args(argv[1:])
    pid = a.prop
    if pid not in PROPS:
        log("unknown property %s" % pid)
        return 2
    cfg = PROPS[pid]
    seed = int(os.environ.get("VERIF_SEED", "1"))
    tier = a.tier
    t0 = time.time()
    workdir = os.path.join(VERIF, "_work", "%s_%s_%d_%d" % (pid, tier, seed, os.getpid()))
    shutil.rmtree(workdir, ignore_errors=True)
    os.makedirs(workdir)

    if a.replay:
        return replay(pid, cfg, a.replay, workdir)

    stages = [s for s in cfg["stages"] if tier in s.get("tiers", ["quick", "thorough"])]
    if a.stage:
        want = set(a.stage.split(","))
        stages = [s for s in stages if s.get("id", s["harness"]) in want]
    all_viol, inconclusive, stage_info, summaries_all = [], [], [], []
    hashes = set()
    samples = []
    for st in stages:
        sid = st.get("id", st["harness"])
        try:
            r = run_stage(pid, st, tier, seed, workdir)
        except SystemExit:
            inconclusive.append("build failed for stage %s" % sid)
            break
        ev = sum(s["evaluations"] for s in r.summaries)
        for s in r.summaries:
            try:
                arr = array.array("Q")
                with open(s["hashes"], "rb") as f:
                    data = f.read()
                arr.frombytes(data[: len(data) // 8 * 8])
                # hashes are per stage: the same case in two flavours is two observations of one case
                hashes.update(arr)
            except Exception:
                pass
            for x in s.get("samples", []):
                if len(samples) < 4:
                    samples.append({"stage": sid, "case": x})
        counters, maxima, cover, vc = merge_cover(r.summaries)
        stage_info.append({"stage": sid, "harness": st["harness"], "flavour": st.get("flavour", "plain"), "evaluations": ev,
                           "wall_s": round(r.wall, 1), "worker_restarts_after_crash": r.restarts, "cases_ended_by_memory_limit_of_the_sanitizer_runtime": getattr(r, "toollimit", 0),
                           "counters": counters, "maxima": maxima, "cover": compact_cover(cover), "violation_counts": vc})
        all_viol += r.violations
        inconclusive += r.inconclusive
        summaries_all += r.summaries
        log("stage %s: %d cases, %d violations, %.1fs" % (sid, ev, len(r.violations), r.wall))

    # ---- verdict -------------------------------------------------------------------------------
    known = [k for k in load_known() if k.get("property") == pid and k.get("status") == "known"]
    known_keys = {k["key"]: k for k in known}
    kf_seen, new_viol = {}, []
    for v in all_viol:
        if v["key"] in known_keys:
            kf_seen.setdefault(v["key"], []).append(v)
        else:
            new_viol.append(v)
    evaluations = sum(s["evaluations"] for s in summaries_all)
    distinct = len(hashes)
    minimum = cfg.get("min_nontrivial", {"quick": 2, "thorough": 2})
    minimum = minimum[tier] if isinstance(minimum, dict) else minimum
    if not a.stage and not inconclusive and distinct < minimum:
        inconclusive.append("only %d distinct non-trivial cases observed (minimum %d)" % (distinct, minimum))
    for chk in cfg.get("coverage_floor", []):
        # (stage, counter, minimum-per-tier)
        sid, cname, floor = chk
        floor = floor[tier] if isinstance(floor, dict) else floor
        got = 0
        for si in stage_info:
            if si["stage"] == sid:
                got = si["counters"].get(cname, 0)
        if not a.stage and got < floor:
            inconclusive.append("coverage floor not met: stage %s counter %s = %d < %d" % (sid, cname, got, floor))

    replay_dir = os.path.join(EVIDENCE_DIR, "replay", pid)
    vio_records = []
    if new_viol or kf_seen:
        os.makedirs(replay_dir, exist_ok=True)
    seen_keys = {}
    for v in new_viol:
        n = seen_keys.get(v["key"], 0)
        seen_keys[v["key"]] = n + 1
        if n >= 3:
            continue
        dst = _save_replay(pid, v, seed, tier, replay_dir, cfg)
        vio_records.append({"key": v["key"], "what": v.get("what", "")[:500], "replay": dst})
        print("VIOLATION property=%s replay=%s key=%s" % (pid, dst, v["key"]))
    for key, vs in kf_seen.items():
        dst = _save_replay(pid, vs[0], seed, tier, replay_dir, cfg)
        print("KNOWN-FINDING: property=%s %s [key=%s, met %d time(s) in this run, witness %s]" % (pid, known_keys[key].get("what", key), key, len(vs), dst))

    wall = time.time() - t0
    coverage = {
        "evaluations": evaluations,
        "distinct_nontrivial": distinct,
        "rule": cfg["rule"],
        "samples": samples if samples else ["(no sample produced)"],
        "stages": stage_info,
        "known_findings_met": {k: len(v) for k, v in kf_seen.items()},
        "new_violation_keys": {k: n for k, n in seen_keys.items()},
        "inconclusive": inconclusive,
        "verdict": "violated" if new_viol else ("inconclusive" if inconclusive else "held on what was observed"),
    }
    if cfg.get("exhaustive_subspaces"):
        coverage["exhaustive_subspaces"] = cfg["exhaustive_subspaces"]
    if cfg.get("not_decided"):
        coverage["not_decided"] = cfg["not_decided"]
    evidence = {
        "property_id": pid, "tier": tier, "seed": seed, "level": cfg["level"], "coverage": coverage,
        "assumptions": cfg.get("assumptions", []), "wall_s": round(wall, 1), "violations": len(new_viol),
    }
    if not a.stage:
        os.makedirs(EVIDENCE_DIR, exist_ok=True)
        tmp = os.path.join(EVIDENCE_DIR, ".%s.json.tmp" % pid)
        json.dump(evidence, open(tmp, "w"), indent=1, sort_keys=False)
        os.replace(tmp, os.path.join(EVIDENCE_DIR, "%s.json" % pid))
        if tier == "thorough":
            # the record of the last complete thorough run is kept beside the file that every run rewrites
            os.makedirs(os.path.join(EVIDENCE_DIR, "thorough"), exist_ok=True)
            shutil.copyfile(os.path.join(EVIDENCE_DIR, "%s.json" % pid), os.path.join(EVIDENCE_DIR, "thorough", "%s.json" % pid))
    if not a.keep_work:
        shutil.rmtree(workdir, ignore_errors=True)
        try:
            os.rmdir(os.path.join(VERIF, "_work"))
        except OSError:
            pass
    print("%s %s seed=%d: %d cases, %d distinct non-trivial, %d new violation(s), %d known finding key(s), %.0fs -> %s" % (
        pid, tier, seed, evaluations, distinct, len(new_viol), len(kf_seen), wall, coverage["verdict"]))
    if new_viol:
        return 1
    if inconclusive:
        for m in inconclusive:
            print("INCONCLUSIVE: %s" % m)
        return 2
    return 0


def _save_replay(pid, v, seed, tier, replay_dir, cfg):
    key_s = re.sub(r"[^A-Za-z0-9_.@-]+", "_", v["key"])[:80]
    dst = os.path.join(replay_dir, "%s_seed%d_case%s.txt" % (key_s, seed, v.get("case", "x")))
    body = ""
    try:
        body = open(v["replay"], errors="replace").read()
    except Exception:
        body = "property: %s\nkey: %s\nwhat: %s\nseed: %d\ncase: %s\ntier: %s\n" % (pid, v["key"], v.get("what", ""), seed, v.get("case"), tier)
    with open(dst, "w") as f:
        f.write("stage: %s\n" % v.get("stage", ""))
        f.write(body)
    return dst


def replay(pid, cfg, path, workdir):
    hdr = {}
    for line in open(path, errors="replace"):
        if line.startswith("---"):
            break
        if ":" in line:
            k, val = line.split(":", 1)
            hdr[k.strip()] = val.strip()
    sid = hdr.get("stage", "")
    st = None
    for s in cfg["stages"]:
        if s.get("id", s["harness"]) == sid:
            st = s
    if st is None:
        log("replay file names unknown stage %r" % sid)
        return 2
    seed = int(hdr.get("seed", "1"))
    case = int(hdr.get("case", "0"))
    tier = hdr.get("tier", "quick")
    if case < 0:
        log("this witness is not tied to a case index; re-run the check with VERIF_SEED=%d" % seed)
        return 2
    r = run_stage(pid, st, tier, seed, workdir, replay_case=case)
    shutil.rmtree(workdir, ignore_errors=True)
    known_keys = {k["key"] for k in load_known() if k.get("property") == pid and k.get("status") == "known"}
    bad = [v for v in r.violations if v["key"] not in known_keys]
    for v in r.violations:
        if v["key"] in known_keys:
            print("KNOWN-FINDING: property=%s key=%s (replayed)" % (pid, v["key"]))
    for v in bad:
        print("VIOLATION property=%s replay=%s key=%s" % (pid, path, v["key"]))
    return 1 if bad else 0


if __name__ == "__main__":
    sys.exit(main(sys.argv))
