#!/usr/bin/env python3
"""Build every harness binary that some registered stage uses (setup)."""
import os, sys
VERIF = os.path.dirname(os.path.dirname(os.path.abspath(__file__)))
sys.path.insert(0, os.path.join(VERIF, "vp"))
import build
from props import PROPS
need = {}
for cfg in PROPS.values():
    for st in cfg["stages"]:
        need.setdefault(st.get("flavour", "plain"), set()).add(st["harness"])
for fl, names in need.items():
    with build.Lock(fl):
        build.build_harnesses(fl, sorted(names))
print("harnesses built:", {k: sorted(v) for k, v in need.items()})
