#!/usr/bin/env python3
"""Regenerate MANIFEST.json from vp/props.py (claimed checks) + properties.jsonl (unclaimed -> not_applicable)."""
import json, os, subprocess, sys
VERIF = os.path.dirname(os.path.dirname(os.path.abspath(__file__)))
sys.path.insert(0, os.path.join(VERIF, "vp"))
from props import PROPS, NOT_APPLICABLE, ENGINES, CLAIMED
PROPS = {k: v for k, v in PROPS.items() if k in CLAIMED}

ids = [json.loads(l)["id"] for l in open(os.path.join(VERIF, "properties.jsonl")) if l.strip()]
hook_commits = [l.split()[0] for l in subprocess.run(["git", "-C", "/repo", "log", "--format=%h %s"], capture_output=True, text=True).stdout.splitlines() if l.split(" ", 1)[1].startswith("verif hook")]
checks = []
for pid in ids:
    if pid not in PROPS:
        continue
    c = PROPS[pid]
    checks.append({
        "property_id": pid,
        "quick_cmd": "./check %s --tier quick" % pid,
        "thorough_cmd": "./check %s --tier thorough" % pid,
        "evidence_file": "evidence/%s.json" % pid,
        "replay_cmd_template": "./check %s --replay {path}" % pid,
        "engine": c.get("engine", "runtime-monitor"),
        "level_claimed": {"category": c["level"], "text": c["level_text"], "design_ref": c.get("design_ref", "DESIGN.md section 3, " + pid)},
        "level_note": c["level_note"],
        "technique": c["technique"],
    })
na = [{"property_id": p, "reason": NOT_APPLICABLE.get(p, "no check registered yet in this revision of /verif (build in progress); nothing is claimed for it")} for p in ids if p not in PROPS]
m = {
    "version": 1,
    "setup_cmd": "./vp/setup.sh",
    "hooks": {
        "guard": "OPM_COMMON_VERIF",
        "enable": "-DOPM_COMMON_VERIF=1 in CMAKE_CXX_FLAGS of the out-of-tree builds under /verif/_build (vp/build.py)",
        "baseline_off_cmd": "./vp/baseline_off.sh",
        "source_commits": hook_commits,
        "add_only": True,
    },
    "engines": ENGINES,
    "checks": checks,
    "not_applicable": na,
    "notes": "Technique family: runtime monitoring and sanitizers. Every check = ./check CNN --tier T: rebuilds libopmcommon from /repo's working tree (3 flavours: plain, asan+ubsan, clang tsan) with the guard on, runs generated/hostile workloads in 16 worker processes under reference-model, relational and sanitizer oracles, matches violation keys against known_findings.json and writes evidence/CNN.json. Exit 0 held / 1 VIOLATION / 2 inconclusive.",
}
json.dump(m, open(os.path.join(VERIF, "MANIFEST.json"), "w"), indent=1)
print("MANIFEST.json: %d checks, %d not_applicable" % (len(checks), len(na)))
