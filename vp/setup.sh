#!/bin/sh
# Offline setup: configure + build the three library flavours of /repo's working tree and all harnesses.
set -e
cd "$(dirname "$0")/.."
python3 vp/build.py all
python3 vp/build_all_harnesses.py
