// C02 — unit conversion is invertible, composable, physical and deck-unit independent.
//
// One program, four stages selected by `part=`:
//   part=tables  (a) to_si/from_si round trip for every (system, measure), the three per-measure tables against each
//                    other and against the named-dimension table;
//                (b) every factor/offset against the independent physical table `ref::` below (written from the unit
//                    definitions, not from Units.hpp);
//                (c) every dimension string that occurs on any ParserItem of any keyword (collected reflectively)
//                    parses to the product/quotient of its base factors - the library's own and the reference's; every
//                    unit string of the field-property keyword table parses and agrees with the keyword's own dimension;
//                (d) every keyword JSON file of the build's keyword list constructs a ParserKeyword that is equal,
//                    attribute by attribute (own comparison through the public getters, ParserKeyword::operator==
//                    returns early), to the built-in keyword produced by the generator;
//                (f) RestartValue::convertFromSI / data::Solution::convertFromSI and the unit names of the summary /
//                    restart files against the reference factors.
//                All of these are finite and enumerated completely on the first case indices; random probing follows.
//   part=kw      (e) reflective: a G-KW text of every keyword that has dimensioned items is re-expressed in METRIC,
//                    FIELD, LAB and PVT-M with the reference factors; the four Decks must give the same SI values
//                    (and the reference SI value), defaulted items included.
//   part=model   (e) one physical model (grid, PVT/saturation/solution tables, field property operations, wells, groups,
//                    segments, schedule) written in the four unit systems with *harness-stated* physical dimensions;
//                    Deck SI values, the serialised EclipseState (all tables) and every ScheduleState, field properties,
//                    grid geometry and the evaluated well / group limits must agree to 1e-12 relative (1e-9 for quantities
//                    the library computes by differences of coordinates and table look-ups).
#include <config.h>
#include "common/gkw.hpp"
#include "common/ser_includes.hpp"
#include <opm/input/eclipse/EclipseState/EclipseState.hpp>
#include <opm/input/eclipse/EclipseState/Grid/FieldPropsManager.hpp>
#include <opm/input/eclipse/EclipseState/Grid/FieldProps.hpp>
#include <opm/input/eclipse/EclipseState/Grid/EclipseGrid.hpp>
#include <opm/input/eclipse/Schedule/Schedule.hpp>
#include <opm/input/eclipse/Schedule/ScheduleState.hpp>
#include <opm/input/eclipse/Schedule/SummaryState.hpp>
#include <opm/input/eclipse/Python/Python.hpp>
#include <opm/common/utility/TimeService.hpp>
#include <variant>
#include <optional>
#include <unordered_map>
#include <unordered_set>
#include <opm/input/eclipse/Units/UnitSystem.hpp>
#include <opm/input/eclipse/Units/Dimension.hpp>
#include <opm/input/eclipse/Parser/Parser.hpp>
#include <opm/input/eclipse/Parser/ParserKeyword.hpp>
#include <opm/input/eclipse/Parser/ParserRecord.hpp>
#include <opm/input/eclipse/Parser/ParserItem.hpp>
#include <opm/input/eclipse/Deck/Deck.hpp>
#include <opm/input/eclipse/Deck/UDAValue.hpp>
#include <opm/json/JsonObject.hpp>
#include <opm/output/data/Solution.hpp>
#include <opm/output/data/Cells.hpp>
#include <opm/output/data/Wells.hpp>
#include <opm/output/data/Groups.hpp>
#include <opm/output/data/Aquifer.hpp>
#include <opm/output/eclipse/RestartValue.hpp>
#include <filesystem>
#include <functional>
#include <limits>
#include <regex>

using namespace Opm;
using vh::Rng;
namespace fs = std::filesystem;
using M = UnitSystem::measure;

// =================================================================================================================
// The independent physical table.  Every number below is the SI value of a unit of measurement taken from the
// definition of that unit; nothing is taken from opm/input/eclipse/Units/Units.hpp.
// =================================================================================================================
namespace ref {
// length: the metre is the SI unit; international inch (1959) = 25.4 mm exactly; foot = 12 inches
constexpr double metre = 1.0;
constexpr double cm = 0.01;
constexpr double inch = 0.0254;
constexpr double foot = 0.3048;                       // = 12 * 0.0254
static_assert(foot - 12 * inch < 1e-16 && 12 * inch - foot < 1e-16, "foot = 12 inch");
// time
constexpr double second = 1.0;
constexpr double hour = 3600.0;
constexpr double day = 86400.0;
// mass: international avoirdupois pound (1959) = 0.45359237 kg exactly
constexpr double kilogram = 1.0;
constexpr double gram = 1.0e-3;
constexpr double pound = 0.45359237;
// force / pressure: standard gravity 9.80665 m/s^2 (3rd CGPM 1901); lbf = lb * g0; psi = lbf / in^2;
// standard atmosphere = 101325 Pa exactly; bar = 1e5 Pa exactly
constexpr double g0 = 9.80665;
constexpr double lbf = pound * g0;
constexpr double psi = lbf / (inch * inch);           // 6894.757293168...
constexpr double atm = 101325.0;
constexpr double bar = 1.0e5;
// temperature: K = degC + 273.15; K = (degF + 459.67) * 5/9; degree Rankine = 5/9 K
constexpr double kelvinPerCelsius = 1.0, celsiusZero = 273.15;
constexpr double kelvinPerFahrenheit = 5.0 / 9.0, fahrenheitZero = 459.67 * 5.0 / 9.0;   // 0 degF = 255.3722... K
// viscosity: poise = 0.1 Pa s, centipoise = 1e-3 Pa s
constexpr double cP = 1.0e-3;
// permeability: one darcy lets 1 cm^3/s of a 1 cP fluid pass through 1 cm^2 under a gradient of 1 atm/cm:
//   k = q mu L / (A dp) = (1e-6 m^3/s) (1e-3 Pa s) (1e-2 m) / ((1e-4 m^2) (101325 Pa)) = 1e-7/101325 m^2
constexpr double darcy = (1.0e-6 * 1.0e-3 * 1.0e-2) / (1.0e-4 * 101325.0);   // 9.869232667160128e-13
constexpr double mD = 1.0e-3 * darcy;
// volumes: US gallon = 231 in^3 exactly; oil barrel = 42 US gallons; Mscf = 1000 ft^3; cc = cm^3
constexpr double m3 = 1.0;
constexpr double cc = 1.0e-6;
constexpr double ft3 = foot * foot * foot;
constexpr double gallon = 231.0 * inch * inch * inch;
constexpr double stb = 42.0 * gallon;                 // 0.158987294928 m^3
constexpr double Mscf = 1000.0 * ft3;                 // 28.316846592 m^3
// energy: kJ = 1000 J.  BTU: thermochemical 1054.3502644888... J (= 4.184 J/cal_th * 453.59237 g * 5/9 K) or
// International-Table 1055.05585262 J; both are in use and tabulated to 7 digits (NIST SP 811: 1.054350E+03,
// 1.055056E+03), so either is accepted to 1e-6 relative.
constexpr double joule = 1.0, kJ = 1000.0;
constexpr double BTU_th = 4.184 * 453.59237 * 5.0 / 9.0;
constexpr double BTU_IT = 1055.05585262;
// surface tension: dyne = 1e-5 N; dyne/cm = 1e-3 N/m
constexpr double dyne_per_cm = 1.0e-5 / 1.0e-2;
// amount of substance: kg-mol = 1000 mol; lb-mol = 453.59237 mol; g-mol = 1 mol
constexpr double kgmol = 1000.0, lbmol = 453.59237, gmol = 1.0;
constexpr double ppm = 1.0e-6;
constexpr double GPa = 1.0e9;

// The base units of the four unit conventions (ECLIPSE reference manual, "Units": METRIC m/day/kg/barsa/K/sm3/rm3/kJ/kg-M,
// FIELD ft/day/lb/psia/degR/stb/Mscf/rb/Btu/lb-M, LAB cm/hr/g/atma/K/scc/rcc/J/g-M, PVT-M = METRIC with atma).
struct Sys {
    const char* deckName;
    double L, T, P, Tscale, Toff, mass, Vl, Vg, Vr, E, mol;
    bool btu;   // energy unit is the BTU (two accepted values)
};
static Sys SYS[4] = {
    {"METRIC", metre, day, bar, kelvinPerCelsius, celsiusZero, kilogram, m3, m3, m3, kJ, kgmol, false},
    {"FIELD", foot, day, psi, kelvinPerFahrenheit, fahrenheitZero, pound, stb, Mscf, stb, BTU_th, lbmol, true},
    {"LAB", cm, hour, atm, kelvinPerCelsius, celsiusZero, gram, cc, cc, cc, joule, gmol, false},
    {"PVT-M", metre, day, atm, kelvinPerCelsius, celsiusZero, kilogram, m3, m3, m3, kJ, kgmol, false},
};

struct Dim { double f = 1.0, off = 0.0; bool ok = true; int energyPower = 0; bool context = false; };

// named (atomic) dimensions of the deck grammar.  energyPower counts the BTU so that the alternative value can be formed.
inline Dim base(const Sys& s, const std::string& n) {
    Dim d;
    if (n == "1" || n == "Unit") d.f = 1.0;
    else if (n == "Pressure") d.f = s.P;
    else if (n == "Temperature") { d.f = s.Tscale; d.off = s.Toff; }
    else if (n == "AbsoluteTemperature") d.f = s.Tscale;
    else if (n == "Length") d.f = s.L;
    else if (n == "Time" || n == "Timestep") d.f = s.T;
    else if (n == "RunTime") d.f = second;
    else if (n == "Mass") d.f = s.mass;
    else if (n == "Permeability") d.f = mD;
    else if (n == "Area") d.f = s.L * s.L;
    else if (n == "Transmissibility") d.f = cP * s.Vr / (s.T * s.P);             // cP rm3/day/bars, cP rb/day/psi, cP rcc/hr/atm
    else if (n == "GasDissolutionFactor") d.f = s.Vg / s.Vl;                      // sm3/sm3, Mscf/stb, scc/scc
    else if (n == "OilDissolutionFactor") d.f = s.Vl / s.Vg;                      // sm3/sm3, stb/Mscf, scc/scc
    else if (n == "LiquidSurfaceVolume") d.f = s.Vl;
    else if (n == "GasSurfaceVolume") d.f = s.Vg;
    else if (n == "ReservoirVolume") d.f = s.Vr;
    else if (n == "GeometricVolume") d.f = s.L * s.L * s.L;
    else if (n == "Density") d.f = s.mass / (s.L * s.L * s.L);                    // kg/m3, lb/ft3, g/cc
    else if (n == "PolymerDensity" || n == "Salinity" || n == "FoamSurfactantConcentration") d.f = s.mass / s.Vl;   // kg/sm3, lb/stb, g/scc
    else if (n == "FoamDensity") d.f = s.mass / s.Vg;                             // foam carried by the gas: kg/sm3, lb/Mscf, g/scc
    else if (n == "Viscosity") d.f = cP;
    else if (n == "SurfaceTension") d.f = dyne_per_cm;
    else if (n == "Energy") { d.f = s.E; d.energyPower = s.btu ? 1 : 0; }
    else if (n == "PPM") d.f = ppm;
    else if (n == "Moles") d.f = s.mol;
    else if (n == "Ymodule") d.f = GPa;
    else if (n == "ContextDependent") { d.context = true; d.f = std::numeric_limits<double>::quiet_NaN(); }
    else d.ok = false;
    return d;
}

inline std::vector<std::string> split(const std::string& s, char c) {
    std::vector<std::string> v; std::string cur;
    for (char ch : s) { if (ch == c) { v.push_back(cur); cur.clear(); } else cur += ch; }
    v.push_back(cur);
    return v;
}

// grammar of a dimension string: factor ('*' factor)* [ '/' factor ('*' factor)* ]   --  "A*B/C*D" = (A*B)/(C*D)
// `lookup` yields the atomic dimensions (the reference's or the library's own), so that the same composition rule serves
// both the physical check and the internal-agreement check.
template <class Lookup>
inline Dim compose(const std::string& str, Lookup&& lookup) {
    Dim r;
    auto parts = split(str, '/');
    if (parts.size() > 2) { r.ok = false; return r; }
    for (size_t side = 0; side < parts.size(); ++side) {
        auto fac = split(parts[side], '*');
        for (auto& n : fac) {
            Dim b = lookup(n);
            if (!b.ok) { r.ok = false; return r; }
            if (b.context) { r.context = true; }
            if (b.off != 0.0) {
                // a dimension with an offset is only meaningful on its own
                if (fac.size() > 1 || parts.size() > 1) { r.ok = false; return r; }
                return b;
            }
            if (side == 0) { r.f *= b.f; r.energyPower += b.energyPower; }
            else { r.f /= b.f; r.energyPower -= b.energyPower; }
        }
    }
    return r;
}
inline Dim parse(const Sys& s, const std::string& str) { return compose(str, [&](const std::string& n) { return base(s, n); }); }

// the alternative value of a factor when the BTU is the International-Table one
inline double withBtuIT(const Dim& d) { return d.f * std::pow(BTU_IT / BTU_th, d.energyPower); }

// does `got` equal the reference factor?  1e-13 relative: both sides are products of at most ~10 correctly rounded
// constants; where a BTU is involved either definition is accepted to 1e-6 per power (7-digit tabulated values).
inline bool factorMatches(double got, const Dim& d, double* relerr = nullptr) {
    double e = vh::reldiff(got, d.f);
    if (d.energyPower != 0) {
        double e2 = vh::reldiff(got, withBtuIT(d));
        double tol = 1e-6 * std::abs(d.energyPower);
        if (relerr) *relerr = 0.0;            // not a rounding measurement
        return e <= tol || e2 <= tol;
    }
    if (relerr) *relerr = e;
    return e <= 1e-13;
}

// UnitSystem::measure -> the dimension string that defines it physically (same grammar as above)
struct MeasureDef { M m; const char* name; const char* dim; };
static const MeasureDef MEASURES[] = {
    {M::identity, "identity", "1"},
    {M::length, "length", "Length"},
    {M::time, "time", "Time"},
    {M::runtime, "runtime", "RunTime"},
    {M::density, "density", "Density"},
    {M::pressure, "pressure", "Pressure"},
    {M::temperature_absolute, "temperature_absolute", "AbsoluteTemperature"},
    {M::temperature, "temperature", "Temperature"},
    {M::viscosity, "viscosity", "Viscosity"},
    {M::permeability, "permeability", "Permeability"},
    {M::area, "area", "Length*Length"},
    {M::liquid_surface_volume, "liquid_surface_volume", "LiquidSurfaceVolume"},
    {M::gas_surface_volume, "gas_surface_volume", "GasSurfaceVolume"},
    {M::volume, "volume", "ReservoirVolume"},
    {M::geometric_volume, "geometric_volume", "Length*Length*Length"},
    {M::liquid_surface_rate, "liquid_surface_rate", "LiquidSurfaceVolume/Time"},
    {M::gas_surface_rate, "gas_surface_rate", "GasSurfaceVolume/Time"},
    {M::rate, "rate", "ReservoirVolume/Time"},
    {M::geometric_volume_rate, "geometric_volume_rate", "Length*Length*Length/Time"},
    {M::pipeflow_velocity, "pipeflow_velocity", "Length/RunTime"},                       // m/s, ft/s, cm/s
    {M::transmissibility, "transmissibility", "Viscosity*ReservoirVolume/Time*Pressure"},
    {M::effective_Kh, "effective_Kh", "Permeability*Length"},
    {M::mass, "mass", "Mass"},
    {M::mass_rate, "mass_rate", "Mass/Time"},
    {M::gas_oil_ratio, "gas_oil_ratio", "GasSurfaceVolume/LiquidSurfaceVolume"},
    {M::oil_gas_ratio, "oil_gas_ratio", "LiquidSurfaceVolume/GasSurfaceVolume"},
    {M::water_cut, "water_cut", "1"},
    {M::gas_formation_volume_factor, "gas_formation_volume_factor", "ReservoirVolume/GasSurfaceVolume"},
    {M::oil_formation_volume_factor, "oil_formation_volume_factor", "ReservoirVolume/LiquidSurfaceVolume"},
    {M::water_formation_volume_factor, "water_formation_volume_factor", "ReservoirVolume/LiquidSurfaceVolume"},
    {M::gas_inverse_formation_volume_factor, "gas_inverse_formation_volume_factor", "GasSurfaceVolume/ReservoirVolume"},
    {M::oil_inverse_formation_volume_factor, "oil_inverse_formation_volume_factor", "LiquidSurfaceVolume/ReservoirVolume"},
    {M::water_inverse_formation_volume_factor, "water_inverse_formation_volume_factor", "LiquidSurfaceVolume/ReservoirVolume"},
    {M::liquid_productivity_index, "liquid_productivity_index", "LiquidSurfaceVolume/Time*Pressure"},
    {M::gas_productivity_index, "gas_productivity_index", "GasSurfaceVolume/Time*Pressure"},
    {M::energy, "energy", "Energy"},
    {M::energy_rate, "energy_rate", "Energy/Time"},
    {M::icd_strength, "icd_strength", "Pressure*Time*Time/GeometricVolume*GeometricVolume"},          // bars/(rm3/day)^2, psi/(rft3/day)^2
    {M::aicd_strength, "aicd_strength", "Pressure*Time*Time/GeometricVolume*GeometricVolume*Density"},
    {M::polymer_density, "polymer_density", "PolymerDensity"},
    {M::salinity, "salinity", "Salinity"},
    {M::gas_oil_ratio_rate, "gas_oil_ratio_rate", "GasSurfaceVolume/LiquidSurfaceVolume*Time"},      // Rs per time
    {M::moles, "moles", "Moles"},
    {M::ppm, "ppm", "PPM"},
    {M::ymodule, "ymodule", "Ymodule"},
    {M::dfactor, "dfactor", "Time/GasSurfaceVolume"},                                                 // day/sm3, day/Mscf, hr/scc
};
constexpr int NMEASURE = sizeof MEASURES / sizeof *MEASURES;
static_assert(NMEASURE == static_cast<int>(M::_count), "the reference covers every UnitSystem::measure");

// ---------------------------------------------------------------------------------------------------------------
// unit *names* as they appear in SMSPEC/restart headers -> SI value, from a dictionary of unit symbols.
// A name with a symbol that is not in the dictionary is "not decided", never a violation.
// ---------------------------------------------------------------------------------------------------------------
struct NameVal { bool parsed = false; double f = 1.0, off = 0.0; bool btu = false; std::string why; };
inline bool symbol(const std::string& s, size_t& pos, double& val, bool& btu) {
    struct E { const char* sym; double v; bool btu; };
    static const E dict[] = {
        {"SECONDS", second, false}, {"HOURS", hour, false}, {"BARSA", bar, false}, {"DAYS", day, false}, {"MSCF", Mscf, false},
        {"RFT3", ft3, false}, {"BARS", bar, false}, {"PSIA", psi, false},
        {"DAY", day, false}, {"SEC", second, false}, {"SM3", m3, false}, {"RM3", m3, false}, {"SCC", cc, false}, {"RCC", cc, false},
        {"STB", stb, false}, {"FT3", ft3, false}, {"FT2", foot * foot, false}, {"CM2", cm * cm, false}, {"PSI", psi, false}, {"ATM", atm, false},
        {"BTU", BTU_th, true}, {"PPM", ppm, false}, {"GPa", GPa, false},
        {"HR", hour, false}, {"FT", foot, false}, {"CM", cm, false}, {"M3", m3, false}, {"M2", 1.0, false}, {"CC", cc, false}, {"RB", stb, false}, {"KG", kilogram, false},
        {"LB", pound, false}, {"KJ", kJ, false}, {"CP", cP, false}, {"MD", mD, false},
        {"M", metre, false}, {"G", gram, false}, {"J", joule, false}, {"D", day, false}, {"B", bar, false}, {"H", hour, false},
    };
    for (const auto& e : dict) {
        size_t n = strlen(e.sym);
        if (s.compare(pos, n, e.sym) == 0) { pos += n; val = e.v; btu = e.btu; return true; }
    }
    return false;
}
// product := symbol+ | '(' expr ')' ['2'] ;  expr := product ('/' product)*   (left associative division)
inline bool nameExpr(const std::string& s, size_t& pos, double& val, bool& btu);
inline bool nameProduct(const std::string& s, size_t& pos, double& val, bool& btu) {
    val = 1.0;
    bool any = false;
    while (pos < s.size()) {
        if (s[pos] == '(') {
            ++pos;
            double v; if (!nameExpr(s, pos, v, btu)) return false;
            if (pos >= s.size() || s[pos] != ')') return false;
            ++pos;
            if (pos < s.size() && s[pos] == '2') { v *= v; ++pos; }
            val *= v; any = true;
        } else if (s[pos] == '/' || s[pos] == ')') break;
        else { double v; bool b = false; if (!symbol(s, pos, v, b)) return false; btu = btu || b; val *= v; any = true; }
    }
    return any;
}
inline bool nameExpr(const std::string& s, size_t& pos, double& val, bool& btu) {
    if (!nameProduct(s, pos, val, btu)) return false;
    while (pos < s.size() && s[pos] == '/') { ++pos; double v; if (!nameProduct(s, pos, v, btu)) return false; val /= v; }
    return true;
}
inline NameVal unitName(const std::string& raw) {
    NameVal r;
    std::string s;
    for (char c : raw) if (c != ' ') s += c;
    if (s.empty()) { r.parsed = true; return r; }                        // dimensionless
    if (s == "K") { r.parsed = true; return r; }
    if (s == "R") { r.parsed = true; r.f = kelvinPerFahrenheit; return r; }
    if (s == "C") { r.parsed = true; r.f = 1.0; r.off = celsiusZero; return r; }
    if (s == "F") { r.parsed = true; r.f = kelvinPerFahrenheit; r.off = fahrenheitZero; return r; }
    if (s == "KG-M") { r.parsed = true; r.f = kgmol; return r; }
    if (s == "LB-M") { r.parsed = true; r.f = lbmol; return r; }
    if (s == "g-M") { r.parsed = true; r.f = gmol; return r; }
    size_t pos = 0; double v = 1.0; bool btu = false;
    if (nameExpr(s, pos, v, btu) && pos == s.size()) { r.parsed = true; r.f = v; r.btu = btu; }
    else r.why = "symbol at offset " + std::to_string(pos) + " of '" + s + "' not in the dictionary";
    return r;
}
} // namespace ref

// The size of the BTU is judged in part=tables (either definition, 7 digits).  The re-expression parts write FIELD numbers
// with the BTU the library uses - provided it is one of the two - so that they can demand 1e-12 for everything else.
static void calibrateBtu(const UnitSystem& field) {
    const double lib = field.to_si("Energy", 1.0);
    if (vh::reldiff(lib, ref::BTU_th) <= 1e-6 || vh::reldiff(lib, ref::BTU_IT) <= 1e-6) ref::SYS[1].E = lib;
}

static const UnitSystem::UnitType UTYPE[4] = {UnitSystem::UnitType::UNIT_TYPE_METRIC, UnitSystem::UnitType::UNIT_TYPE_FIELD,
                                              UnitSystem::UnitType::UNIT_TYPE_LAB, UnitSystem::UnitType::UNIT_TYPE_PVT_M};

static std::string g17(double v) { char b[40]; snprintf(b, sizeof b, "%.17g", v); return b; }

static std::string repoRoot() { const char* e = getenv("VERIF_REPO"); return e ? e : "/repo"; }

// <build>/keyword_list.argv of the flavour this binary was built for: the binary lives in <BUILD>/harness/<flavour>/
static std::string keywordListPath() {
    std::vector<std::string> cand;
    char buf[4096]; ssize_t n = readlink("/proc/self/exe", buf, sizeof buf - 1);
    if (n > 0) { buf[n] = 0; fs::path exe(buf); cand.push_back((exe.parent_path().parent_path().parent_path() / exe.parent_path().filename() / "keyword_list.argv").string()); }
    if (const char* e = getenv("VERIF_BUILD")) { cand.push_back(std::string(e) + "/keyword_list.argv"); cand.push_back(std::string(e) + "/plain/keyword_list.argv"); }
    cand.push_back("/verif/_build/plain/keyword_list.argv");
    for (auto& c : cand) if (fs::exists(c)) return c;
    return "";
}

// ---------------------------------------------------------------------------------------------------------------
// (d) attribute-by-attribute description of a ParserKeyword through its public getters
// ---------------------------------------------------------------------------------------------------------------
static std::string describeItem(const ParserItem& it) {
    std::ostringstream o;
    o << "item " << it.name() << " type=" << it.type_literal() << " tag=" << int(it.dataType()) << " size=" << it.size_literal() << " hasdef=" << it.hasDefault();
    if (it.hasDefault()) {
        switch (it.dataType()) {
        case type_tag::integer: o << " def=" << it.getDefault<int>(); break;
        case type_tag::fdouble: o << " def=" << g17(it.getDefault<double>()); break;
        case type_tag::string: o << " def='" << it.getDefault<std::string>() << "'"; break;
        case type_tag::raw_string: o << " def=r'" << it.getDefault<RawString>() << "'"; break;
        case type_tag::uda: { const auto& u = it.getDefault<UDAValue>(); if (u.is<double>()) o << " def=u" << g17(u.get<double>()); else o << " def=u'" << u.get<std::string>() << "'"; break; }
        default: o << " def=?";
        }
    }
    o << " dims=";
    for (auto& d : it.dimensions()) o << d << "|";
    return o.str();
}
static std::vector<std::string> describeKeyword(const ParserKeyword& kw) {
    std::vector<std::string> v;
    std::ostringstream o;
    v.push_back("name=" + kw.getName());
    { std::vector<std::string> dn(kw.deck_names().begin(), kw.deck_names().end()); std::sort(dn.begin(), dn.end()); std::string s = "deck_names="; for (auto& d : dn) s += d + ","; v.push_back(s); }
    { std::vector<std::string> sn(kw.sections().begin(), kw.sections().end()); std::sort(sn.begin(), sn.end()); std::string s = "sections="; for (auto& d : sn) s += d + ","; v.push_back(s); }
    v.push_back(std::string("regex=") + (kw.hasMatchRegex() ? "1" : "0") + " suffix=" + (kw.hasMatchRegexSuffix() ? "1" : "0"));
    v.push_back("size=" + kw.getKeywordSize().construct());
    o << "sizetype=" << int(kw.getSizeType()) << " table=" << kw.isTableCollection() << " data=" << kw.isDataKeyword() << " raw=" << kw.rawStringKeyword()
      << " code=" << kw.isCodeKeyword() << " alternating=" << kw.isAlternatingKeyword() << " doublerecord=" << kw.isDoubleRecordKeyword() << " codeEnd=" << kw.codeEnd()
      << " min_size=" << (kw.min_size() ? std::to_string(*kw.min_size()) : std::string("none"));
    v.push_back(o.str());
    { std::string s = "requires="; for (auto& d : kw.requiredKeywords()) s += d + ","; s += " prohibits="; for (auto& d : kw.prohibitedKeywords()) s += d + ","; v.push_back(s); }
    int r = 0;
    for (const auto& rec : kw) {
        std::ostringstream q;
        q << "record " << r++ << " data=" << rec.isDataRecord() << " raw=" << rec.rawStringRecord() << " end=" << rec.end_string() << " items=" << rec.size();
        v.push_back(q.str());
        for (const auto& it : rec) v.push_back("  " + describeItem(it));
    }
    return v;
}

// a deck name that matches a (simple) keyword-name regular expression: first alternative, minimal repetitions
static std::string regexSample(const std::string& re) {
    std::string out;
    size_t i = 0;
    std::function<std::string(bool)> seq = [&](bool top) -> std::string {
        std::string acc, last;
        auto flush = [&]() { acc += last; last.clear(); };
        while (i < re.size()) {
            char c = re[i];
            if (c == '|') {
                // keep the first alternative: skip to the end of this group
                int depth = 0;
                while (i < re.size()) { if (re[i] == '(') ++depth; else if (re[i] == ')') { if (depth == 0) break; --depth; } else if (re[i] == '[') { while (i < re.size() && re[i] != ']') ++i; } ++i; }
                continue;
            }
            if (c == ')') { if (top) { ++i; continue; } break; }
            if (c == '(') { flush(); ++i; last = seq(false); if (i < re.size() && re[i] == ')') ++i; continue; }
            if (c == '[') {
                flush(); ++i;
                char pick = 'X'; bool first = true;
                while (i < re.size() && re[i] != ']') { if (first) { pick = re[i]; first = false; } ++i; }
                ++i; last = std::string(1, pick); continue;
            }
            if (c == '.') { flush(); last = "X"; ++i; continue; }
            if (c == '+') { ++i; continue; }
            if (c == '*' || c == '?') { last.clear(); ++i; continue; }
            if (c == '{') {
                size_t e = re.find('}', i); int mn = atoi(re.c_str() + i + 1);
                std::string rep; for (int k = 0; k < mn; ++k) rep += last;
                last = rep; i = e + 1; continue;
            }
            if (c == '\\') { ++i; }
            flush(); last = std::string(1, re[i]); ++i;
        }
        flush();
        return acc;
    };
    out = seq(true);
    return out;
}

// ---------------------------------------------------------------------------------------------------------------
// shared environment
// ---------------------------------------------------------------------------------------------------------------
struct Env {
    Parser parser;
    std::vector<UnitSystem> us;                    // the four deck unit systems
    std::vector<std::string> dimStrings;           // every dimension string on any ParserItem (sorted)
    std::map<std::string, std::string> dimExample; // dimension string -> KEYWORD:ITEM
    std::vector<std::string> kwWithDims;           // deck names of generatable keywords with >= 1 dimensioned item
    Env() {
        for (int s = 0; s < 4; ++s) us.emplace_back(UTYPE[s]);
        std::set<std::string> seen;
        std::set<std::string> dims;
        auto all = parser.getAllDeckNames();
        std::sort(all.begin(), all.end());
        for (const auto& n : all) {
            const ParserKeyword* kw = nullptr;
            if (parser.hasKeyword(n)) kw = &parser.getKeyword(n);
            else {
                // keyword known by a regular expression only: reach it through a matching deck name
                continue;
            }
            bool has = false;
            for (const auto& rec : *kw) for (const auto& it : rec) for (const auto& d : it.dimensions()) { dims.insert(d); has = true; if (!dimExample.count(d)) dimExample[d] = kw->getName() + ":" + it.name(); }
            if (has && seen.insert(kw->getName()).second) kwWithDims.push_back(n);
        }
        dimStrings.assign(dims.begin(), dims.end());
    }
};

static const char* SYSKEY[4] = {"METRIC", "FIELD", "LAB", "PVT-M"};

// named dimension <-> measure pairs that must hold the same conversion (the "two tables" of UnitSystem)
struct NamedMeasure { const char* dim; M m; };
static const NamedMeasure NAMED_MEASURE[] = {
    {"1", M::identity}, {"Unit", M::identity}, {"Pressure", M::pressure}, {"Temperature", M::temperature}, {"AbsoluteTemperature", M::temperature_absolute},
    {"Length", M::length}, {"Time", M::time}, {"Timestep", M::time}, {"RunTime", M::runtime}, {"Mass", M::mass}, {"Permeability", M::permeability},
    {"Area", M::area}, {"Transmissibility", M::transmissibility}, {"GasDissolutionFactor", M::gas_oil_ratio}, {"OilDissolutionFactor", M::oil_gas_ratio},
    {"LiquidSurfaceVolume", M::liquid_surface_volume}, {"GasSurfaceVolume", M::gas_surface_volume}, {"ReservoirVolume", M::volume},
    {"GeometricVolume", M::geometric_volume}, {"Density", M::density}, {"PolymerDensity", M::polymer_density}, {"Salinity", M::salinity},
    {"Viscosity", M::viscosity}, {"Energy", M::energy}, {"PPM", M::ppm}, {"Moles", M::moles}, {"Ymodule", M::ymodule},
    // composites that name the same quantity as a measure
    {"LiquidSurfaceVolume/Time", M::liquid_surface_rate}, {"GasSurfaceVolume/Time", M::gas_surface_rate}, {"ReservoirVolume/Time", M::rate},
    {"GeometricVolume/Time", M::geometric_volume_rate}, {"Length*Length*Length/Time", M::geometric_volume_rate}, {"Length*Length", M::area},
    {"Length*Length*Length", M::geometric_volume}, {"Permeability*Length", M::effective_Kh}, {"Mass/Time", M::mass_rate},
    {"Viscosity*ReservoirVolume/Time*Pressure", M::transmissibility}, {"GasSurfaceVolume/LiquidSurfaceVolume", M::gas_oil_ratio},
    {"LiquidSurfaceVolume/GasSurfaceVolume", M::oil_gas_ratio}, {"ReservoirVolume/GasSurfaceVolume", M::gas_formation_volume_factor},
    {"ReservoirVolume/LiquidSurfaceVolume", M::oil_formation_volume_factor}, {"GasSurfaceVolume/ReservoirVolume", M::gas_inverse_formation_volume_factor},
    {"LiquidSurfaceVolume/ReservoirVolume", M::oil_inverse_formation_volume_factor}, {"LiquidSurfaceVolume/Time*Pressure", M::liquid_productivity_index},
    {"GasSurfaceVolume/Time*Pressure", M::gas_productivity_index}, {"Energy/Time", M::energy_rate},
    {"Pressure*Time*Time/GeometricVolume*GeometricVolume", M::icd_strength}, {"Pressure*Time*Time/GeometricVolume*GeometricVolume*Density", M::aicd_strength},
    {"GasDissolutionFactor/Time", M::gas_oil_ratio_rate}, {"Time/GasSurfaceVolume", M::dfactor}, {"Mass/LiquidSurfaceVolume", M::polymer_density},
};

// values used for round trips: magnitudes over the double range that stays finite, both signs, zero
static std::vector<double> probeValues(Rng& rng, int nrandom) {
    std::vector<double> v = {0.0, 1.0, -1.0, 3.75, 0.1, 1.0 / 3.0, 273.15, -273.15, 459.67, -40.0, 1e-30, -1e-30, 1e30, 6894.757293168361, 14.695948775513449};
    for (int i = 0; i < nrandom; ++i) { double m = rng.loguniform(1e-12, 1e12); v.push_back(rng.chance(0.5) ? m : -m); }
    return v;
}

static const double EPS = std::numeric_limits<double>::epsilon();

// ---------------------------------------------------------------------------------------------------------------
// part=tables
// ---------------------------------------------------------------------------------------------------------------
struct JsonEntry { std::string name, file; int definitions = 1; };

static int runTables(const vh::Args& args, vh::Reporter& rep, Env& env) {
    // (d) the build's keyword list; the last definition of a name wins (KeywordLoader semantics)
    std::vector<JsonEntry> json;
    std::string listPath = keywordListPath();
    long listFiles = 0, unreadable = 0;
    {
        std::string all = vh::read_file(listPath);
        std::vector<std::string> files; std::string cur;
        for (char c : all) { if (c == ';' || c == '\n' || c == ' ') { if (!cur.empty()) files.push_back(cur); cur.clear(); } else cur += c; }
        if (!cur.empty()) files.push_back(cur);
        listFiles = (long)files.size();
        std::map<std::string, size_t> byName;
        for (auto& f : files) {
            std::string path = f;
            // the list holds absolute paths of the tree that was configured; honour a relocated tree
            try {
                Json::JsonObject j{fs::path(path)};
                ParserKeyword kw(j);
                auto it = byName.find(kw.getName());
                if (it == byName.end()) { byName[kw.getName()] = json.size(); json.push_back({kw.getName(), path, 1}); }
                else { json[it->second].file = path; json[it->second].definitions++; }
            } catch (const std::exception&) { ++unreadable; json.push_back({"?" + path, path, 1}); }
        }
    }
    // the unit strings of the field-property keyword table (used for the scalars of EQUALS / ADD / MINVALUE ... and box operations)
    std::vector<std::pair<std::string, std::string>> fpUnits;
    {
        namespace K = Fieldprops::keywords;
        std::map<std::string, std::string> m;
        for (const auto* tab : {&K::GRID::double_keywords, &K::EDIT::double_keywords, &K::PROPS::double_keywords, &K::SOLUTION::double_keywords, &K::SCHEDULE::double_keywords})
            for (const auto& kv : *tab) if (kv.second.unit) m[kv.first] = *kv.second.unit;
        fpUnits.assign(m.begin(), m.end());
    }
    const long nSM = 4L * ref::NMEASURE;
    const long nSD = 4L * (long)env.dimStrings.size();
    const long nJ = (long)json.size();
    const long nFP = (long)fpUnits.size();
    const long E = nSM + nSD + nJ + 1 + nFP;     // + 1: the converse of (d) and the census of the keyword directory
    if (args.shard == 0 && args.start == 0) {
        rep.count("enumerated_cases_total", E);
        rep.count("enumeration_complete", args.cases >= E ? 1 : 0);
        rep.count("dimension_strings_collected", (long)env.dimStrings.size());
        rep.count("keyword_list_files", listFiles);
        rep.count("keyword_list_names", nJ);
        rep.count("fieldprops_unit_strings", nFP);
    }
    if (listPath.empty() || nJ == 0) { fprintf(stderr, "c02_units: keyword_list.argv not found\n"); return 2; }

    rep.run_cases([&](long idx, Rng& rng) {
        // ------------------------------------------------------------------------------ (a) (b) (f-names)
        if (idx < nSM) {
            const int s = (int)(idx / ref::NMEASURE), mi = (int)(idx % ref::NMEASURE);
            const auto& md = ref::MEASURES[mi];
            const auto& sys = ref::SYS[s];
            const UnitSystem& u = env.us[s];
            const std::string tag = std::string(SYSKEY[s]) + ":" + md.name;
            rep.cover("system_measure", tag);
            ref::Dim rd = ref::parse(sys, md.dim);
            std::ostringstream w; w.precision(17);
            w << "system " << SYSKEY[s] << " measure " << md.name << " (reference: " << md.dim << " = " << rd.f << " offset " << rd.off << ")\n";
            // the tables: to_si(1)-to_si(0) is the to-SI factor, to_si(0) the offset, from_si(off+1) the from-SI factor
            const double off = u.to_si(md.m, 0.0);
            const double fto = u.to_si(md.m, 1.0) - off;
            // (off + 1) may round; (off + 1) - off is exact (Sterbenz), so the quotient is the from-SI table entry to 1 ulp
            const double ffrom = u.from_si(md.m, off + 1.0) / ((off + 1.0) - off);
            const Dimension dm = u.getDimension(md.m);
            w << "library: to_si factor " << fto << " offset " << off << " from_si factor " << ffrom << " getDimension " << dm.getSIScaling() << "/" << dm.getSIOffset() << "\n";
            // (b) physical
            double re = 0;
            if (!ref::factorMatches(dm.getSIScaling(), rd, &re))
                rep.violation("measure-factor:" + tag, "to-SI factor of " + tag + " is " + g17(dm.getSIScaling()) + ", the unit definitions give " + g17(rd.f), w.str());
            rep.maxof("max_rel_err_measure_factor", re);
            if (vh::reldiff(dm.getSIOffset(), rd.off) > 1e-13)
                rep.violation("measure-offset:" + tag, "to-SI offset of " + tag + " is " + g17(dm.getSIOffset()) + ", the unit definitions give " + g17(rd.off), w.str());
            rep.count("comparisons_reference");
            // (a) the three tables agree: from = 1/to (2 ulp: two roundings), offset table = getDimension offset
            if (std::fabs(ffrom * dm.getSIScaling() - 1.0) > 4 * EPS)
                rep.violation("measure-tables-not-inverse:" + tag, "from-SI factor " + g17(ffrom) + " times to-SI factor " + g17(dm.getSIScaling()) + " is not 1", w.str());
            if (off != dm.getSIOffset())
                rep.violation("measure-offset-tables:" + tag, "to_si(0) = " + g17(off) + " but getDimension offset = " + g17(dm.getSIOffset()), w.str());
            if (rd.off == 0.0 && vh::reldiff(fto, dm.getSIScaling()) > 4 * EPS)
                rep.violation("measure-tables-not-inverse:" + tag, "to_si(1) = " + g17(fto) + " but getDimension factor = " + g17(dm.getSIScaling()), w.str());
            // (a) round trip, scalar and vector overloads; to_si against the reference value
            auto vals = probeValues(rng, 40);
            std::vector<double> vec = vals;
            u.to_si(md.m, vec);
            std::vector<double> back = vec;
            u.from_si(md.m, back);
            double worst = 0;
            for (size_t i = 0; i < vals.size(); ++i) {
                const double x = vals[i];
                const double y = u.to_si(md.m, x);
                const double z = u.from_si(md.m, y);
                const double scale = std::fabs(x) + std::fabs(rd.off / rd.f);
                const double err = std::fabs(z - x), errv = std::fabs(back[i] - x);
                if (scale > 0) worst = std::max(worst, std::max(err, errv) / (scale * EPS));
                if (err > 4 * EPS * scale || errv > 4 * EPS * scale) {
                    w << "x = " << x << " to_si = " << y << " from_si(to_si(x)) = " << z << " (vector overload " << back[i] << ")\n";
                    rep.violation("measure-roundtrip:" + tag, "from_si(to_si(x)) differs from x = " + g17(x) + " by more than 4 ulp: " + g17(z) + " / vector " + g17(back[i]), w.str());
                    break;
                }
                // value against the reference: y = f x + off
                const double yr = rd.f * x + rd.off;
                const double tol = (rd.energyPower ? 1e-6 : 1e-13) * (std::fabs(rd.f * x) + std::fabs(rd.off));
                if (std::fabs(y - yr) > tol && std::fabs(y - (ref::withBtuIT(rd) * x + rd.off)) > tol) {
                    rep.violation("measure-value:" + tag, "to_si(" + g17(x) + ") = " + g17(y) + ", the unit definitions give " + g17(yr), w.str());
                    break;
                }
                if (std::fabs(vec[i] - y) > 4 * EPS * std::fabs(y)) {
                    rep.violation("measure-vector-overload:" + tag, "to_si(vector) gives " + g17(vec[i]) + ", to_si(scalar) " + g17(y) + " for x = " + g17(x), w.str());
                    break;
                }
                rep.count("comparisons_roundtrip", 2);
            }
            rep.maxof("max_roundtrip_err_ulp_of_scale", worst);
            // (a) named-dimension table vs per-measure table
            for (const auto& nm : NAMED_MEASURE) {
                if (nm.m != md.m) continue;
                try {
                    Dimension dn = u.parse(nm.dim);
                    rep.count("comparisons_named_vs_measure");
                    rep.cover("named_vs_measure", std::string(nm.dim) + "~" + md.name);
                    // both are products of the same constants in different association: 16 ulp
                    if (vh::reldiff(dn.getSIScaling(), dm.getSIScaling()) > 16 * EPS || dn.getSIOffset() != dm.getSIOffset())
                        rep.violation(std::string("named-vs-measure:") + SYSKEY[s] + ":" + nm.dim, std::string("dimension '") + nm.dim + "' converts with " + g17(dn.getSIScaling()) + "/" + g17(dn.getSIOffset()) +
                                      " but measure " + md.name + " with " + g17(dm.getSIScaling()) + "/" + g17(dm.getSIOffset()) + " in " + SYSKEY[s], w.str());
                } catch (const std::exception& e) {
                    rep.violation(std::string("named-dimension-refused:") + SYSKEY[s] + ":" + nm.dim, std::string("dimension '") + nm.dim + "' is refused: " + e.what(), w.str());
                }
            }
            // (f) the unit name written to summary / restart headers denotes a unit of exactly this size
            {
                const std::string nm = u.name(md.m);
                ref::NameVal nv = ref::unitName(nm);
                if (!nv.parsed) { rep.count("unit_names_not_decided"); rep.cover("unit_name_not_decided", tag + " '" + nm + "'"); }
                else {
                    rep.count("comparisons_unit_name");
                    bool ok = vh::reldiff(nv.f, rd.f) <= (nv.btu || rd.energyPower ? 1e-6 : 1e-12) && vh::reldiff(nv.off, rd.off) <= 1e-13;
                    if (!ok) rep.violation("unit-name:" + tag, "unit name '" + nm + "' of " + tag + " denotes " + g17(nv.f) + " (offset " + g17(nv.off) + ") in SI but values are converted with " + g17(rd.f) + " (offset " + g17(rd.off) + ")", w.str());
                }
            }
            bool nontrivial = false;
            for (int q = 0; q < 4; ++q) { ref::Dim d2 = ref::parse(ref::SYS[q], md.dim); if (d2.f != 1.0 || d2.off != 0.0) nontrivial = true; }
            rep.case_done(vh::fnv("SM:" + tag), nontrivial);
            if (idx == 5 + ref::NMEASURE) rep.sample(w.str());
            return;
        }
        // ------------------------------------------------------------------------------ (c)
        if (idx < nSM + nSD) {
            const long k = idx - nSM;
            const int s = (int)(k / (long)env.dimStrings.size());
            const std::string& D = env.dimStrings[k % env.dimStrings.size()];
            const auto& sys = ref::SYS[s];
            const UnitSystem& u = env.us[s];
            const std::string tag = std::string(SYSKEY[s]) + ":" + D;
            rep.cover("dimension_string", D);
            std::ostringstream w; w.precision(17);
            w << "system " << SYSKEY[s] << " dimension string '" << D << "' (first used by " << env.dimExample[D] << ")\n";
            ref::Dim rd = ref::parse(sys, D);
            // the library's own atomic dimensions, composed by the rule of the grammar
            bool libAtomThrew = false;
            ref::Dim ld = ref::compose(D, [&](const std::string& n) {
                ref::Dim b;
                try { const Dimension& d = u.getDimension(n); b.off = d.getSIOffset(); b.f = d.getSIScaling(); }
                catch (const std::out_of_range&) { b.ok = false; libAtomThrew = true; }                 // unknown name
                catch (const std::logic_error&) { b.context = true; b.f = std::numeric_limits<double>::quiet_NaN(); }   // NaN factor
                return b;
            });
            if (!rd.ok) {
                // the reference does not know a base name used by a keyword: the check cannot decide this string
                rep.count("dimension_strings_not_decided"); rep.cover("dimension_string_not_decided", D);
                rep.case_done(vh::fnv("SD:" + tag), false);
                return;
            }
            Dimension got;
            bool threw = false; std::string err;
            try { got = u.parse(D); (void)got.getSIScaling(); } catch (const std::exception& e) { threw = true; err = e.what(); }
            if (rd.context) {
                // ContextDependent: the library must refuse to convert (NaN factor), which it does by throwing from getSIScaling
                rep.count("context_dependent");
                if (!threw) rep.violation("context-dependent-converted:" + tag, "a context dependent dimension converts with factor " + g17(got.getSIScaling()), w.str());
                rep.case_done(vh::fnv("SD:" + tag), false);
                return;
            }
            if (threw) { rep.violation("dimension-string-refused:" + tag, "dimension string '" + D + "' used by " + env.dimExample[D] + " is refused: " + err, w.str()); return; }
            w << "library parse: " << got.getSIScaling() << " offset " << got.getSIOffset() << "\ncomposition of the library's atomic factors: " << ld.f << " offset " << ld.off
              << "\nreference: " << rd.f << " offset " << rd.off << "\n";
            rep.count("comparisons_composite", 2);
            // (c) product/quotient of the base factors: same constants, possibly other association: 1 ulp per factor, 16 ulp bound
            if (!ld.ok || vh::reldiff(got.getSIScaling(), ld.f) > 16 * EPS || got.getSIOffset() != ld.off)
                rep.violation("composite-not-product:" + tag, "'" + D + "' parses to " + g17(got.getSIScaling()) + " but the product/quotient of its base factors is " + g17(ld.f), w.str());
            double re = 0;
            if (!ref::factorMatches(got.getSIScaling(), rd, &re) || vh::reldiff(got.getSIOffset(), rd.off) > 1e-13)
                rep.violation("dimension-factor:" + tag, "'" + D + "' converts with " + g17(got.getSIScaling()) + "/" + g17(got.getSIOffset()) + ", the unit definitions give " + g17(rd.f) + "/" + g17(rd.off), w.str());
            rep.maxof("max_rel_err_dimension_factor", re);
            // string overloads of to_si / from_si and the memoising getNewDimension used while parsing
            UnitSystem copy(UTYPE[s]);
            const Dimension& memo = copy.getNewDimension(D);
            if (!(memo == got)) rep.violation("getNewDimension-differs:" + tag, "getNewDimension('" + D + "') differs from parse()", w.str());
            for (double x : probeValues(rng, 10)) {
                const double y = u.to_si(D, x), z = u.from_si(D, y);
                const double scale = std::fabs(x) + std::fabs(rd.off / rd.f);
                if (std::fabs(z - x) > 4 * EPS * scale) { rep.violation("dimension-roundtrip:" + tag, "from_si(to_si(x)) differs from x = " + g17(x) + ": " + g17(z), w.str()); break; }
                if (std::fabs(y - (got.getSIScaling() * x + got.getSIOffset())) > 2 * EPS * (std::fabs(y) + std::fabs(got.getSIOffset()))) { rep.violation("dimension-to_si:" + tag, "to_si(string, x) is not factor*x+offset for x = " + g17(x), w.str()); break; }
                rep.count("comparisons_roundtrip");
            }
            bool nontrivial = false;
            for (int q = 0; q < 4; ++q) { ref::Dim d2 = ref::parse(ref::SYS[q], D); if (d2.f != 1.0 || d2.off != 0.0) nontrivial = true; }
            rep.case_done(vh::fnv("SD:" + tag), nontrivial);
            if (k == 30) rep.sample(w.str());
            return;
        }
        // ------------------------------------------------------------------------------ (d)
        if (idx < nSM + nSD + nJ) {
            const JsonEntry& je = json[idx - nSM - nSD];
            if (je.name[0] == '?') { rep.violation("json-unreadable", "keyword file " + je.file + " of the build's keyword list cannot be loaded", je.file); return; }
            Json::JsonObject j{fs::path(je.file)};
            ParserKeyword kw(j);
            rep.count("json_files_compared");
            if (je.definitions > 1) rep.cover("json_redefined_name", je.name);
            // find the built-in keyword: by internal name, by one of its deck names, or through a name matching its regex
            const ParserKeyword* built = nullptr;
            std::vector<std::string> cand = {je.name};
            { std::vector<std::string> dn(kw.deck_names().begin(), kw.deck_names().end()); std::sort(dn.begin(), dn.end()); for (auto& d : dn) cand.push_back(d); }
            if (kw.hasMatchRegex()) {
                std::string re = j.get_string("deck_name_regex");
                std::string sfx = j.has_item("deck_name_regex_suffix") ? regexSample(j.get_string("deck_name_regex_suffix")) : "";
                std::string smp = regexSample(re);
                cand.push_back(smp); cand.push_back(smp + sfx);
            }
            std::string shadow;
            for (auto& c : cand) {
                if (!ParserKeyword::validDeckName(c)) continue;
                if (!kw.matches(c)) continue;
                if (!env.parser.isRecognizedKeyword(c)) continue;
                const ParserKeyword& b = env.parser.getParserKeywordFromDeckName(c);
                if (b.getName() == je.name) { built = &b; break; }
                shadow = b.getName();
            }
            std::string desc;
            auto a = describeKeyword(kw);
            for (auto& l : a) desc += l + "\n";
            size_t nitems = 0, ndims = 0;
            for (const auto& rec : kw) for (const auto& it : rec) { ++nitems; ndims += it.dimensions().size(); }
            if (!built) {
                if (!shadow.empty()) { rep.count("json_builtin_shadowed"); rep.cover("json_builtin_shadowed_by", je.name + "<-" + shadow); }
                else rep.violation("json-keyword-missing:" + je.name, "keyword " + je.name + " of " + je.file + " is in the build's keyword list but the parser has no such built-in keyword", desc);
                rep.case_done(vh::fnv("J:" + je.name), false);
                return;
            }
            auto b = describeKeyword(*built);
            std::string diff;
            for (size_t q = 0; q < std::max(a.size(), b.size()); ++q) {
                const std::string l1 = q < a.size() ? a[q] : "<absent>", l2 = q < b.size() ? b[q] : "<absent>";
                if (l1 != l2) diff += "  json:     " + l1 + "\n  built-in: " + l2 + "\n";
            }
            rep.count("comparisons_json_attributes", (long)a.size());
            rep.count("json_items_compared", (long)nitems);
            rep.count("json_dimensions_compared", (long)ndims);
            bool libEq = (kw == *built);
            bool recEq = true;
            { auto i1 = kw.begin(); auto i2 = built->begin(); for (; i1 != kw.end() && i2 != built->end(); ++i1, ++i2) if (!(*i1 == *i2)) recEq = false; }
            if (!diff.empty() || !libEq || !recEq) {
                std::string cls = "attributes";
                if (diff.find("dims=") != std::string::npos) cls = "dimension";
                else if (diff.find("def=") != std::string::npos || diff.find("hasdef=") != std::string::npos) cls = "default";
                rep.violation("json-vs-generated:" + cls + ":" + je.name, "built-in keyword " + je.name + " differs from its definition " + je.file + (diff.empty() ? " (operator==)" : ":\n" + diff),
                              "file: " + je.file + "\n--- differences ---\n" + diff + "operator== " + (libEq ? "true" : "false") + " records== " + (recEq ? "true" : "false") + "\n--- keyword from JSON ---\n" + desc);
            }
            rep.case_done(vh::fnv("J:" + je.name), nitems > 0);
            if (je.name == "COMPDAT") rep.sample("built-in keyword vs " + je.file + "\n" + desc);
            return;
        }
        // ------------------------------------------------------------------------------ (d) converse + census
        if (idx == nSM + nSD + nJ) {
            std::set<std::string> names;
            for (auto& je : json) names.insert(je.name);
            auto all = env.parser.getAllDeckNames();
            long missing = 0;
            std::set<std::string> builtNames;
            for (auto& n : all) { if (env.parser.hasKeyword(n)) builtNames.insert(env.parser.getKeyword(n).getName()); else builtNames.insert(n); }
            for (auto& n : builtNames) if (!names.count(n)) { ++missing; rep.violation("builtin-without-json:" + n, "built-in keyword " + n + " has no definition in the build's keyword list", n); }
            rep.count("builtin_keywords", (long)builtNames.size());
            // files below share/keywords that are not in the list (not part of the build: nothing to compare)
            long onDisk = 0, notListed = 0;
            std::set<std::string> listed;
            for (auto& je : json) listed.insert(fs::path(je.file).filename().string());
            std::set<std::string> listedPaths;
            { std::string allf = vh::read_file(listPath); std::string cur; for (char c : allf) { if (c == ';' || c == '\n' || c == ' ') { if (!cur.empty()) listedPaths.insert(cur); cur.clear(); } else cur += c; } if (!cur.empty()) listedPaths.insert(cur); }
            const std::string dir = repoRoot() + "/opm/input/eclipse/share/keywords";
            if (fs::exists(dir)) for (auto& e : fs::recursive_directory_iterator(dir)) {
                if (!e.is_regular_file() || e.path().extension() == ".cmake") continue;
                ++onDisk;
                if (!listedPaths.count(e.path().string())) { ++notListed; rep.cover("json_not_in_build_list", e.path().filename().string()); }
            }
            rep.count("json_files_on_disk", onDisk);
            rep.count("json_files_not_in_build_list", notListed);
            rep.case_done(vh::fnv("census"), false);
            (void)missing;
            return;
        }
        // ------------------------------------------------------------------------------ (c) field-property keyword units
        if (idx < E) {
            const auto& [kwn, unit] = fpUnits[idx - (nSM + nSD + nJ + 1)];
            rep.cover("fieldprops_unit", kwn + ":" + unit);
            std::ostringstream w; w.precision(17);
            w << "field property keyword " << kwn << ": unit string '" << unit << "' in the field-property keyword table\n";
            // the dimension the keyword definition gives to the array itself
            std::string kdim;
            if (env.parser.hasKeyword(kwn)) { const auto& pk = env.parser.getKeyword(kwn); if (pk.begin() != pk.end() && pk.getRecord(0).size() > 0 && pk.getRecord(0).get(0).dimensions().size() == 1) kdim = pk.getRecord(0).get(0).dimensions()[0]; }
            w << "dimension of the keyword's data item: '" << kdim << "'\n";
            bool nontrivial = false;
            for (int s = 0; s < 4; ++s) {
                const UnitSystem& u = env.us[s];
                Dimension du;
                try { du = u.parse(unit); (void)du.getSIScaling(); }
                catch (const std::exception& e) { rep.violation("fieldprops-unit-refused:" + kwn, "unit string '" + unit + "' of field property " + kwn + " is refused by UnitSystem::parse: " + e.what(), w.str()); break; }
                rep.count("comparisons_fieldprops_units");
                if (du.getSIScaling() != 1.0 || du.getSIOffset() != 0.0) nontrivial = true;
                if (kdim.empty() || kdim == "ContextDependent") continue;
                Dimension dk = u.parse(kdim);
                // scalars applied to the array (EQUALS PERMX 100) and the array itself (PERMX 100 ...) must convert alike
                if (vh::reldiff(du.getSIScaling(), dk.getSIScaling()) > 16 * EPS || du.getSIOffset() != dk.getSIOffset()) {
                    w << SYSKEY[s] << ": table unit converts with " << du.getSIScaling() << "/" << du.getSIOffset() << ", keyword dimension with " << dk.getSIScaling() << "/" << dk.getSIOffset() << "\n";
                    rep.violation("fieldprops-unit-vs-keyword:" + kwn, "in " + std::string(SYSKEY[s]) + " a scalar applied to " + kwn + " (EQUALS/ADD ...) is converted as '" + unit + "' (" + g17(du.getSIScaling()) + ") but the array data as '" + kdim + "' (" + g17(dk.getSIScaling()) + ")", w.str());
                    break;
                }
            }
            rep.case_done(vh::fnv("FP:" + kwn), nontrivial);
            return;
        }
        // ------------------------------------------------------------------------------ random probing
        const long r = idx - E;
        const int s = (int)rng.below(4);
        const auto& sys = ref::SYS[s];
        const UnitSystem& u = env.us[s];
        if (r % 2 == 0) {
            // a random composite dimension string (shapes beyond those used by the keywords)
            static const char* ATOMS[] = {"1", "Pressure", "AbsoluteTemperature", "Length", "Time", "Mass", "Permeability", "Area", "Transmissibility", "GasDissolutionFactor",
                                          "OilDissolutionFactor", "LiquidSurfaceVolume", "GasSurfaceVolume", "ReservoirVolume", "GeometricVolume", "Density", "PolymerDensity",
                                          "FoamDensity", "FoamSurfactantConcentration", "Salinity", "Viscosity", "Timestep", "SurfaceTension", "Energy", "PPM", "Moles", "Ymodule", "RunTime", "Unit"};
            const int nA = sizeof ATOMS / sizeof *ATOMS;
            std::string D;
            int nn = 1 + (int)rng.below(4), nd = (int)rng.below(5);
            for (int i = 0; i < nn; ++i) D += std::string(i ? "*" : "") + ATOMS[rng.below(nA)];
            for (int i = 0; i < nd; ++i) D += std::string(i ? "*" : "/") + ATOMS[rng.below(nA)];
            ref::Dim rd = ref::parse(sys, D);
            std::ostringstream w; w.precision(17);
            w << "system " << SYSKEY[s] << " random dimension string '" << D << "' reference " << rd.f << "\n";
            rep.cover("random_composite_shape", std::to_string(nn) + "/" + std::to_string(nd));
            try {
                Dimension got = u.parse(D);
                double re = 0;
                rep.count("comparisons_composite");
                if (!ref::factorMatches(got.getSIScaling(), rd, &re) || got.getSIOffset() != 0.0)
                    rep.violation(std::string("random-composite:") + SYSKEY[s], "'" + D + "' converts with " + g17(got.getSIScaling()) + ", the unit definitions give " + g17(rd.f), w.str());
                rep.maxof("max_rel_err_dimension_factor", re);
                double x = rng.loguniform(1e-9, 1e9);
                double z = u.from_si(D, u.to_si(D, x));
                if (std::fabs(z - x) > 4 * EPS * x) rep.violation(std::string("random-composite-roundtrip:") + SYSKEY[s], "from_si(to_si(x)) differs from x for '" + D + "'", w.str());
            } catch (const std::exception& e) {
                rep.violation(std::string("random-composite-refused:") + SYSKEY[s], "'" + D + "' is refused: " + e.what(), w.str());
            }
            rep.case_done(vh::fnv("RC:" + std::string(SYSKEY[s]) + D), nn + nd >= 2);
            if (r == 0) rep.sample(w.str());
        } else {
            // (f) output conversion: a solution container + extra vectors with SI values of random measures
            std::ostringstream w; w.precision(17);
            w << "system " << SYSKEY[s] << " RestartValue::convertFromSI / convertToSI\n";
            data::Solution sol;   // SI
            struct Ent { std::string key; int mi; std::vector<double> si; bool extra; };
            std::vector<Ent> ents;
            int ne = 2 + (int)rng.below(8);
            for (int e = 0; e < ne; ++e) {
                Ent en; en.mi = (int)rng.below(ref::NMEASURE); en.extra = rng.chance(0.3);
                en.key = (en.extra ? "X" : "S") + std::to_string(e);
                int nv = 1 + (int)rng.below(6);
                for (int q = 0; q < nv; ++q) { double m = rng.loguniform(1e-6, 1e9); en.si.push_back(rng.chance(0.15) ? -m : (rng.chance(0.05) ? 0.0 : m)); }
                ents.push_back(en);
            }
            std::vector<int> ints = {1, 2, 3};
            sol.insert("INTS", ints, data::TargetType::RESTART_SOLUTION);
            for (auto& en : ents) if (!en.extra) sol.insert(en.key, ref::MEASURES[en.mi].m, en.si, data::TargetType::RESTART_SOLUTION);
            RestartValue rv(sol, data::Wells{}, data::GroupAndNetworkValues{}, data::Aquifers{});
            for (auto& en : ents) if (en.extra) rv.addExtra(en.key, ref::MEASURES[en.mi].m, en.si);
            rv.convertFromSI(u);
            bool bad = false;
            for (auto& en : ents) {
                const auto& md = ref::MEASURES[en.mi];
                ref::Dim rd = ref::parse(sys, md.dim);
                const std::vector<double>& out = en.extra ? rv.getExtra(en.key) : rv.solution.data<double>(en.key);
                rep.cover("output_measure", md.name);
                for (size_t q = 0; q < en.si.size(); ++q) {
                    const double expect = (en.si[q] - rd.off) / rd.f, expect2 = (en.si[q] - rd.off) / ref::withBtuIT(rd);
                    const double tol = (rd.energyPower ? 1e-6 : 1e-12) * (std::fabs(en.si[q]) + std::fabs(rd.off)) / rd.f;
                    rep.count("comparisons_output");
                    if (md.m == M::identity && out[q] != en.si[q]) bad = true;
                    if (std::fabs(out[q] - expect) > tol && std::fabs(out[q] - expect2) > tol) {
                        bad = true;
                        w << en.key << " measure " << md.name << " SI " << en.si[q] << " written " << out[q] << " expected SI/reference = " << expect << "\n";
                        rep.violation(std::string("output-convertFromSI:") + SYSKEY[s] + ":" + md.name, std::string("convertFromSI of ") + md.name + " in " + SYSKEY[s] + ": SI " + g17(en.si[q]) + " -> " + g17(out[q]) + ", SI/reference factor = " + g17(expect), w.str());
                    }
                }
            }
            if (rv.solution.data<int>("INTS") != ints) { bad = true; rep.violation("output-int-data-changed", "integer solution data changed by convertFromSI", w.str()); }
            rv.convertToSI(u);
            for (auto& en : ents) {
                const auto& md = ref::MEASURES[en.mi];
                ref::Dim rd = ref::parse(sys, md.dim);
                const std::vector<double>& out = en.extra ? rv.getExtra(en.key) : rv.solution.data<double>(en.key);
                for (size_t q = 0; q < en.si.size(); ++q) {
                    rep.count("comparisons_output");
                    if (std::fabs(out[q] - en.si[q]) > 4 * EPS * (std::fabs(en.si[q]) + std::fabs(rd.off))) {
                        bad = true;
                        rep.violation(std::string("output-roundtrip:") + SYSKEY[s] + ":" + md.name, std::string("convertToSI(convertFromSI(x)) differs from x = ") + g17(en.si[q]) + ": " + g17(out[q]), w.str());
                    }
                }
            }
            (void)bad;
            std::string h = SYSKEY[s];
            for (auto& en : ents) { h += en.key + ref::MEASURES[en.mi].name; for (double v : en.si) h += g17(v); }
            rep.case_done(vh::fnv(h), true);
            if (r == 1) { for (auto& en : ents) w << en.key << " " << ref::MEASURES[en.mi].name << " n=" << en.si.size() << "\n"; rep.sample(w.str()); }
        }
    });
    return 0;
}


// ---------------------------------------------------------------------------------------------------------------
// part=kw : G-KW texts of every keyword with dimensioned items, re-expressed in the four unit systems
// ---------------------------------------------------------------------------------------------------------------
// which ParserRecord produced record r of a gkw::Kw (mirrors gkw::genKeyword)
static size_t parserRecordIndex(const ParserKeyword& kw, const gkw::Kw& k, size_t r) {
    const size_t nrec = (size_t)std::distance(kw.begin(), kw.end());
    const auto st = kw.getSizeType();
    if (nrec <= 1) return 0;
    if (st == FIXED || st == SPECIAL_CASE_ROCK) return std::min(r, nrec - 1);
    if (st == SLASH_TERMINATED || st == UNKNOWN) {
        if (kw.isAlternatingKeyword()) return r % nrec;
        if (kw.isDoubleRecordKeyword()) return r % 2;
        return std::min(r, nrec - 1);
    }
    if (st == DOUBLE_SLASH_TERMINATED) return (r == 0 || (r - 1 < k.slashAfter.size() && k.slashAfter[r - 1])) ? 0 : 1;
    if (st == OTHER_KEYWORD_IN_DECK) return kw.isTableCollection() ? 0 : std::min(r % nrec, nrec - 1);
    return 0;
}

static bool parseNumber(const std::string& t, double& v) {
    if (t.empty() || t[0] == '\'' ) return false;
    std::string s = t;
    for (auto& c : s) if (c == 'D' || c == 'd') c = 'e';
    char* end = nullptr;
    v = strtod(s.c_str(), &end);
    return end && *end == 0 && end != s.c_str() && std::isfinite(v);
}

struct Expect { double si = 0; bool isDefault = false; bool known = false; std::string dim; double floor_ = 0; bool identityEverywhere = true; };

static int runKw(const vh::Args& args, vh::Reporter& rep, Env& env) {
    std::vector<std::string> cat;
    for (auto& n : env.kwWithDims) {
        if (!ParserKeyword::validDeckName(n) || gkw::isSpecialName(n)) continue;
        if (env.parser.getKeyword(n).isCodeKeyword()) continue;
        cat.push_back(n);
    }
    const long ncat = (long)cat.size();
    if (args.shard == 0 && args.start == 0) rep.count("keywords_with_dimensioned_items", ncat);
    gkw::ParseContext strict = gkw::strictContext();
    gkw::GenOpts g;
    g.pHostile = 0.1;
    rep.run_cases([&](long idx, Rng& rng) {
        const std::string& name = cat[idx % ncat];
        const ParserKeyword& pkw = env.parser.getKeyword(name);
        gkw::Kw k; std::vector<gkw::Kw> prelude;
        const bool withPrelude = rng.chance(0.5);
        if (!gkw::genKeyword(env.parser, name, rng, g, k, withPrelude ? &prelude : nullptr)) { rep.count("not_generatable"); rep.cover("not_generatable", name); return; }
        // token -> (item, position in item) and the physical value it denotes (its METRIC reading)
        std::map<std::tuple<size_t, size_t, size_t>, Expect> expect;   // (record, item index, value index)
        struct Slot { size_t r, t; std::string dim; double si; };
        std::vector<Slot> slots;                                        // tokens to rewrite per system
        bool mapped = true;
        // a lone "/" that closes a table / record group is an (empty) record of its own in the DeckKeyword
        std::vector<size_t> deckRec(k.recs.size());
        size_t expectedDeckRecords = 0;
        { size_t extra = 0; for (size_t r = 0; r < k.recs.size(); ++r) { deckRec[r] = r + extra; if (r < k.slashAfter.size() && k.slashAfter[r]) ++extra; } expectedDeckRecords = k.recs.size() + extra; }
        for (size_t r = 0; r < k.recs.size() && mapped; ++r) {
            const ParserRecord& prec = pkw.getRecord(parserRecordIndex(pkw, k, r));
            size_t t = 0, ii = 0;
            for (const auto& it : prec) {
                const bool all = it.sizeType() == ParserItem::item_size::ALL;
                const size_t tend = all ? k.recs[r].toks.size() : std::min(t + 1, k.recs[r].toks.size());
                for (size_t j = 0; t < tend; ++t, ++j) {
                    const gkw::Tok& tok = k.recs[r].toks[t];
                    if (!all && tok.type != it.dataType()) { mapped = false; break; }
                    if ((it.dataType() != type_tag::fdouble && it.dataType() != type_tag::uda) || it.dimensions().empty()) continue;
                    Expect e;
                    e.dim = it.dimensions()[j % it.dimensions().size()];
                    ref::Dim dM = ref::parse(ref::SYS[0], e.dim);
                    if (!dM.ok || dM.context) continue;
                    for (int q = 0; q < 4; ++q) { ref::Dim dq = ref::parse(ref::SYS[q], e.dim); e.floor_ = std::max(e.floor_, std::fabs(dq.off)); if (dq.f != 1.0 || dq.off != 0.0) e.identityEverywhere = false; }
                    if (tok.isDefault) {
                        e.isDefault = true;
                        if (it.hasDefault()) {
                            double dv = it.dataType() == type_tag::fdouble ? it.getDefault<double>() : (it.getDefault<UDAValue>().is<double>() ? it.getDefault<UDAValue>().get<double>() : std::numeric_limits<double>::quiet_NaN());
                            if (std::isfinite(dv)) { e.si = dM.f * dv + dM.off; e.known = true; }   // keyword defaults are METRIC numbers
                        }
                    } else {
                        double v;
                        if (!parseNumber(tok.text, v)) continue;     // a UDA given as a quantity name
                        e.si = dM.f * v + dM.off; e.known = true;
                        slots.push_back({r, t, e.dim, e.si});
                    }
                    expect[{deckRec[r], ii, j}] = e;
                }
                ++ii;
                if (all) break;
            }
        }
        if (!mapped) { rep.count("token_item_mapping_failed"); rep.cover("token_item_mapping_failed", name); return; }
        // the four texts
        std::string text[4];
        for (int s = 0; s < 4; ++s) {
            gkw::Kw ks = k;
            if (s > 0) for (auto& sl : slots) {
                ref::Dim d = ref::parse(ref::SYS[s], sl.dim);
                ks.recs[sl.r].toks[sl.t].text = g17((sl.si - d.off) / d.f);
            }
            gkw::DeckT dt;
            for (auto& p : prelude) dt.kws.push_back(p);
            dt.kws.push_back(ks);
            text[s] = std::string(s == 0 && rng.chance(0.5) ? "" : std::string(SYSKEY[s]) + "\n") + gkw::renderCanon(dt);
        }
        struct Obs { bool parsed = false; std::string err; std::vector<std::vector<std::vector<double>>> si, raw0, raw1, raw2; std::vector<std::vector<std::string>> flags; std::vector<std::vector<int>> types; };
        Obs obs[4];
        for (int s = 0; s < 4; ++s) {
            try {
                ErrorGuard eg;
                Deck D = env.parser.parseString(text[s], strict, eg);
                if (D.size() == 0) { obs[s].err = "empty deck"; continue; }
                const DeckKeyword& dk = D[D.size() - 1];
                if (dk.name() != name) { obs[s].err = "last keyword is " + dk.name(); continue; }
                for (const auto& rec : dk) {
                    obs[s].si.emplace_back(); obs[s].raw0.emplace_back(); obs[s].raw1.emplace_back(); obs[s].raw2.emplace_back(); obs[s].flags.emplace_back(); obs[s].types.emplace_back();
                    for (const auto& it : rec) {
                        std::vector<double> si, r0, r1, r2; std::string fl;
                        const size_t n = it.data_size();
                        obs[s].types.back().push_back(int(it.getType()));
                        for (size_t i = 0; i < n; ++i) fl += it.defaultApplied(i) ? (it.hasValue(i) ? 'D' : 'd') : (it.hasValue(i) ? 'V' : 'v');
                        bool allv = n > 0; for (size_t i = 0; i < n; ++i) allv = allv && it.hasValue(i);
                        if (it.getType() == type_tag::fdouble && allv) {
                            for (size_t i = 0; i < n; ++i) r0.push_back(it.get<double>(i));     // raw first: DeckItem converts lazily in place
                            try { si = it.getSIDoubleData(); } catch (const std::exception&) { si.clear(); }
                            if (!si.empty()) {
                                r1 = it.getData<double>();                                          // converts back in place
                                (void)it.getSIDoubleData();                                         // SI state again
                                for (size_t i = 0; i < n; ++i) r2.push_back(it.get<double>(i));     // scalar raw accessor while in SI state
                                (void)it.getData<double>();
                            }
                        } else if (it.getType() == type_tag::uda) {
                            for (size_t i = 0; i < n; ++i) {
                                double v = std::numeric_limits<double>::quiet_NaN();
                                if (it.hasValue(i)) { auto u = it.get<UDAValue>(i); if (u.is<double>()) { try { v = u.getSI(); } catch (const std::exception&) {} } }
                                si.push_back(v);
                            }
                        }
                        obs[s].si.back().push_back(si); obs[s].raw0.back().push_back(r0); obs[s].raw1.back().push_back(r1); obs[s].raw2.back().push_back(r2); obs[s].flags.back().push_back(fl);
                    }
                }
                obs[s].parsed = true;
            } catch (const std::exception& e) { obs[s].err = e.what(); }
        }
        std::string witness = "keyword " + name + " (" + k.cls + ")\n";
        for (int s = 0; s < 4; ++s) witness += std::string("--- ") + SYSKEY[s] + " ---\n" + text[s];
        if (!obs[0].parsed) { rep.count("base_refused"); rep.cover("base_refused_class", k.cls); return; }
        if (obs[0].si.size() != expectedDeckRecords && obs[0].si.size() + 1 != expectedDeckRecords) {
            // record structure of the Deck is not the one the token map assumes: keep the relational comparison only
            rep.count("token_map_unusable"); rep.cover("token_map_unusable", name);
            expect.clear();
        }
        rep.cover("keyword", name);
        rep.cover("size_class", k.cls);
        long compared = 0, nontrivialValues = 0;
        for (int s = 1; s < 4; ++s) {
            if (!obs[s].parsed) {
                rep.violation(std::string("kw-reexpressed-refused:") + SYSKEY[s], name + " parses in METRIC but its " + SYSKEY[s] + " re-expression is refused: " + obs[s].err.substr(0, 300), witness + "--- exception ---\n" + obs[s].err + "\n");
                continue;
            }
            if (obs[s].flags != obs[0].flags || obs[s].types != obs[0].types) {
                rep.violation(std::string("kw-structure-differs:") + SYSKEY[s], name + ": record/item/default structure of the " + SYSKEY[s] + " deck differs from the METRIC deck", witness);
                continue;
            }
        }
        for (size_t r = 0; r < obs[0].si.size(); ++r) for (size_t i = 0; i < obs[0].si[r].size(); ++i) {
            const auto& baseSI = obs[0].si[r][i];
            for (size_t j = 0; j < baseSI.size(); ++j) {
                auto ex = expect.find({r, i, j});
                const bool haveEx = ex != expect.end();
                const double fl = haveEx ? ex->second.floor_ : 0.0;
                const std::string dim = haveEx ? ex->second.dim : "?";
                for (int s = 0; s < 4; ++s) {
                    if (!obs[s].parsed || obs[s].flags != obs[0].flags || obs[s].types != obs[0].types) continue;
                    if (obs[s].si[r][i].size() != baseSI.size()) { rep.violation(std::string("kw-si-unavailable:") + SYSKEY[s], name + ": SI data available in METRIC but not in " + SYSKEY[s], witness); continue; }
                    const double a = obs[s].si[r][i][j], b = baseSI[j];
                    if (std::isnan(a) && std::isnan(b)) continue;
                    std::ostringstream o; o.precision(17);
                    ++compared;
                    const bool isDef = obs[0].flags[r][i][j] == 'D';
                    // the property: same SI value whatever the deck unit system (1e-12 relative; for temperatures relative to the offset)
                    if (s > 0) {
                        double e = vh::reldiff(a, b, fl);
                        rep.maxof("max_rel_diff_between_systems", e);
                        if (!(e <= 1e-12)) {
                            o << name << " record " << r << " item " << i << " value " << j << " (dimension " << dim << (isDef ? ", defaulted" : "") << "): SI " << a << " in " << SYSKEY[s] << " but " << b << " in METRIC";
                            rep.violation(std::string(isDef ? "kw-default-si-differs:" : "kw-si-differs:") + SYSKEY[s] + ":" + dim, o.str(), witness + o.str() + "\n");
                        }
                    }
                    // ... and it is the physical value that was written
                    if (haveEx && ex->second.known) {
                        double e = vh::reldiff(a, ex->second.si, fl);
                        rep.maxof("max_rel_diff_to_reference", e);
                        if (!(e <= 1e-12)) {
                            o << name << " record " << r << " item " << i << " value " << j << " (dimension " << dim << (isDef ? ", defaulted" : "") << "): SI " << a << " in " << SYSKEY[s] << ", the unit definitions give " << ex->second.si;
                            rep.violation(std::string(isDef ? "kw-default-si-vs-reference:" : "kw-si-vs-reference:") + SYSKEY[s] + ":" + dim, o.str(), witness + o.str() + "\n");
                        }
                        if (!ex->second.identityEverywhere && ex->second.si != 0.0) ++nontrivialValues;
                        rep.cover(isDef ? "dimension_defaulted" : "dimension_given", dim);
                    }
                    // lazy in-place conversion raw -> SI -> raw returns the number that was written
                    if (j < obs[s].raw1[r][i].size()) {
                        const double r0 = obs[s].raw0[r][i][j], r1 = obs[s].raw1[r][i][j], r2 = obs[s].raw2[r][i][j];
                        ref::Dim dd = haveEx ? ref::parse(ref::SYS[isDef ? 0 : s], dim) : ref::Dim{};
                        const double scale = std::fabs(r0) + (dd.ok && dd.f > 0 ? std::fabs(dd.off / dd.f) : 0.0);
                        if (std::fabs(r1 - r0) > 4 * EPS * scale) {
                            o << name << " record " << r << " item " << i << " value " << j << ": raw value " << r0 << " reads " << r1 << " after the SI data were requested (" << SYSKEY[s] << ")";
                            rep.violation(std::string("kw-raw-si-raw:") + SYSKEY[s] + ":" + dim, o.str(), witness + o.str() + "\n");
                        }
                        // the scalar accessor get<double>(i) must give the deck value too, whatever was read before
                        rep.count("scalar_get_after_si_checked");
                        if (std::fabs(r2 - r0) > 4 * EPS * scale) {
                            o << name << " record " << r << " item " << i << " value " << j << " (" << SYSKEY[s] << "): get<double>() gives " << r0 << " before and " << r2
                              << " after getSIDoubleData() was called on the same item (SI value " << a << ")";
                            rep.violation("deckitem-scalar-get-ignores-si-state", o.str(), witness + o.str() + "\n");
                        }
                    }
                }
            }
        }
        rep.count("si_values_compared", compared);
        rep.count("item_checks", (long)expect.size());
        rep.case_done(vh::fnv(text[1] + text[2]), nontrivialValues > 0);
        if (idx == 1 || name == "PVTW") rep.sample(witness);
    });
    return 0;
}


// ---------------------------------------------------------------------------------------------------------------
// part=model : one physical model written in the four unit systems
// ---------------------------------------------------------------------------------------------------------------
// Text with physical values: every dimensioned number is kept as (SI value, dimension as stated by the harness from the
// ECLIPSE manual) and rendered per unit system with the reference factors.
struct PhysText {
    struct Seg { std::string lit; bool val = false; double si = 0; std::string dim; };
    std::vector<Seg> segs;
    long nvalues = 0, ndefaults = 0;
    std::set<std::string> dims;
    PhysText& t(const std::string& s) { if (!segs.empty() && !segs.back().val) segs.back().lit += s; else { Seg g; g.lit = s; segs.push_back(g); } return *this; }
    PhysText& v(double si, const std::string& dim) { Seg g; g.val = true; g.si = si; g.dim = dim; segs.push_back(g); ++nvalues; dims.insert(dim); return *this; }
    PhysText& d() { ++ndefaults; return t(" 1*"); }
    std::string render(int s) const {
        std::string o;
        for (const auto& g : segs) {
            if (!g.val) { o += g.lit; continue; }
            ref::Dim dd = ref::parse(ref::SYS[s], g.dim);
            o += " " + g17((g.si - dd.off) / dd.f);
        }
        return o;
    }
};

struct ModelInfo {
    int nx = 2, ny = 2, nz = 2;
    std::vector<std::string> features;
    // the model changes, with WELTARG, a limit of P1 whose item was defaulted in the preceding WCONPROD (names the situation in keys)
    std::set<std::string> weltargOnDefaultedItem;
    bool addTempi = false;     // ADD is applied to the initial temperature (names the situation in keys)
};

// The model.  All numbers are SI; the dimension strings are the harness's statement of the physical dimension of the
// item (ECLIPSE reference manual), written without looking at the keyword JSON files.
static PhysText generateModel(Rng& rng, ModelInfo& mi) {
    PhysText p;
    auto U = [&](double a, double b) { return rng.uniform(a, b); };
    auto LU = [&](double a, double b) { return rng.loguniform(a, b); };
    auto feat = [&](const std::string& f) { mi.features.push_back(f); };
    // value or default (the choice is the same in all four renderings)
    auto vd = [&](double si, const char* dim, double pdef = 0.3) { if (rng.chance(pdef)) { p.d(); return true; } p.v(si, dim); return false; };
    bool p1Defaulted[7] = {true, true, true, true, true, true, true};   // ORAT WRAT GRAT LRAT RESV BHP THP of P1's current WCONPROD
    bool i1ResvDefaulted = true;                                        // RESV of I1's current WCONINJE
    const int nx = mi.nx = 2 + (int)rng.below(3), ny = mi.ny = 2 + (int)rng.below(2), nz = mi.nz = 2 + (int)rng.below(3);
    const int n = nx * ny * nz;
    const bool disgas = rng.chance(0.7), vapoil = rng.chance(0.4);
    const bool polymer = rng.chance(0.3), thermalTables = rng.chance(0.5), network = rng.chance(0.3), aquifer = rng.chance(0.4);
    const bool familyTwo = rng.chance(0.3);
    const bool equil = rng.chance(0.6);
    const int ntpvt = 1 + (int)rng.below(2), ntsfun = 1 + (int)rng.below(2);
    // shallow and thick cells: cell thickness and volume are differences of depths, keep their condition number ~100
    const double P0 = U(1.5e7, 3.5e7), top = U(200, 600);
    p.t("RUNSPEC\nTITLE\n C02 physical model\nDIMENS\n " + std::to_string(nx) + " " + std::to_string(ny) + " " + std::to_string(nz) + " /\nOIL\nWATER\nGAS\n");
    if (disgas) p.t("DISGAS\n");
    if (vapoil) p.t("VAPOIL\n");
    if (polymer) { p.t("POLYMER\n"); feat("POLYMER"); }
    if (network) { p.t("NETWORK\n 5 5 /\n"); feat("NETWORK"); }
    p.t("@UNITS@\nSTART\n 1 'JAN' 2020 /\nTABDIMS\n " + std::to_string(ntsfun) + " " + std::to_string(ntpvt) + " 20 20 /\nEQLDIMS\n 1 /\nWELLDIMS\n 10 10 5 10 /\nWSEGDIMS\n 3 10 5 /\n");
    p.t("VFPPDIMS\n 5 5 5 5 5 3 /\nVFPIDIMS\n 5 5 3 /\nREGDIMS\n/\n");
    if (aquifer) { p.t("AQUDIMS\n 1* 1* 1* 1* 3 20 /\n"); }
    p.t("GRID\nINIT\n");
    // ---------------------------------------------------------------- GRID
    auto cellArray = [&](const char* kw, int cnt, double a, double b, const char* dim, bool logu = false) {
        p.t(std::string(kw) + "\n");
        for (int i = 0; i < cnt; ++i) { p.v(logu ? LU(a, b) : U(a, b), dim); if (i % 8 == 7) p.t("\n"); }
        p.t(" /\n");
    };
    cellArray("DX", n, 20, 200, "Length"); cellArray("DY", n, 20, 200, "Length"); cellArray("DZ", n, 5, 30, "Length");
    p.t("TOPS\n"); for (int i = 0; i < nx * ny; ++i) p.v(top + U(0, 20), "Length"); p.t(" /\n");
    cellArray("PORO", n, 0.05, 0.35, "1");
    cellArray("PERMX", n, 1e-15, 1e-11, "Permeability", true);
    cellArray("PERMY", n, 1e-15, 1e-11, "Permeability", true);
    cellArray("PERMZ", n, 1e-16, 1e-12, "Permeability", true);
    if (rng.chance(0.5)) { cellArray("NTG", n, 0.5, 1.0, "1"); feat("NTG"); }
    if (thermalTables && rng.chance(0.6)) { cellArray("THCONR", n, 1.0, 4.0, "Energy/AbsoluteTemperature*Length*Time"); feat("THCONR"); }
    if (rng.chance(0.3)) { p.t("MINPV\n").v(U(0.5, 5.0), "ReservoirVolume").t(" /\n"); feat("MINPV"); }
    if (rng.chance(0.3)) { p.t("PINCH\n").v(U(0.01, 0.5), "Length").t(" 'GAP'"); vd(U(1, 50), "Length", 0.5); p.t(" /\n"); feat("PINCH"); }
    // scalar operations on field properties (BOX items are integers)
    auto box = [&]() { int i1 = 1 + (int)rng.below(nx), i2 = i1 + (int)rng.below(nx - i1 + 1), k1 = 1 + (int)rng.below(nz), k2 = k1 + (int)rng.below(nz - k1 + 1);
                       return " " + std::to_string(i1) + " " + std::to_string(i2) + " 1 " + std::to_string(ny) + " " + std::to_string(k1) + " " + std::to_string(k2) + " /\n"; };
    if (rng.chance(0.7)) {
        feat("GRID-OPS");
        p.t("EQUALS\n 'PERMZ'").v(LU(1e-16, 1e-12), "Permeability").t(box());
        if (rng.chance(0.5)) p.t(" 'PORO'").v(U(0.1, 0.3), "1").t(box());
        p.t("/\nADD\n 'PERMX'").v(LU(1e-15, 1e-13), "Permeability").t(box()).t("/\n");
        p.t("MULTIPLY\n 'PERMY'").v(U(0.5, 2.0), "1").t(box()).t("/\n");
        if (rng.chance(0.5)) p.t("MAXVALUE\n 'PERMX'").v(LU(1e-12, 1e-11), "Permeability").t(box()).t("/\nMINVALUE\n 'PERMZ'").v(LU(1e-16, 1e-15), "Permeability").t(box()).t("/\n");
        if (rng.chance(0.3)) p.t("COPY\n 'PERMX' 'PERMY' /\n/\n");
    }
    // OPERATE: the constants of ADDX / MAXLIM / MINLIM (first parameter) and of MULTA (second parameter) carry the unit of the target
    if (rng.chance(0.4)) {
        feat("OPERATE");
        auto bx = [&]() { std::string b = box(); return b.substr(0, b.find('/')); };
        p.t("OPERATE\n 'PERMZ'" + bx() + "'ADDX' 'PERMX'").v(LU(1e-15, 1e-13), "Permeability").t(" /\n");
        p.t(" 'PERMY'" + bx() + (rng.chance(0.5) ? "'MAXLIM'" : "'MINLIM'") + " 'PERMY'").v(LU(1e-13, 1e-12), "Permeability").t(" /\n");
        if (rng.chance(0.5)) p.t(" 'PERMX'" + bx() + "'MULTA' 'PERMX'").v(U(0.5, 2.0), "1").v(LU(1e-16, 1e-15), "Permeability").t(" /\n");
        p.t("/\n");
    }
    // ---------------------------------------------------------------- PROPS
    p.t("PROPS\n");
    p.t("DENSITY\n"); for (int t = 0; t < ntpvt; ++t) { vd(U(700, 900), "Density", 0.2); vd(U(1000, 1100), "Density", 0.2); vd(U(0.7, 1.2), "Density", 0.2); p.t(" /\n"); }
    p.t("PVTW\n"); for (int t = 0; t < ntpvt; ++t) { p.v(P0 + U(-1e6, 1e6), "Pressure"); vd(U(1.0, 1.05), "1"); vd(U(3e-10, 6e-10), "1/Pressure"); vd(U(3e-4, 1e-3), "Viscosity"); vd(U(0, 1e-10), "1/Pressure"); p.t(" /\n"); }
    p.t("ROCK\n"); for (int t = 0; t < ntpvt; ++t) { vd(P0 + U(-1e6, 1e6), "Pressure", t == 0 ? 0 : 0.2); vd(U(3e-10, 8e-10), "1/Pressure", t == 0 ? 0 : 0.2); p.t(" /\n"); }
    auto satRows = [&](int rows) { std::vector<double> s(rows); double lo = U(0.05, 0.25), hi = 1.0; for (int i = 0; i < rows; ++i) s[i] = lo + (hi - lo) * i / (rows - 1); return s; };
    if (!familyTwo) {
        p.t("SWOF\n");
        for (int t = 0; t < ntsfun; ++t) { int rows = 3 + (int)rng.below(4); auto sw = satRows(rows); double pc0 = U(1e4, 3e5);
            for (int i = 0; i < rows; ++i) { double x = (double)i / (rows - 1); p.v(sw[i], "1").v(x * x, "1").v((1 - x) * (1 - x), "1").v(pc0 * (1 - x), "Pressure").t("\n"); } p.t(" /\n"); }
        p.t("SGOF\n");
        for (int t = 0; t < ntsfun; ++t) { int rows = 3 + (int)rng.below(4); double pc0 = U(1e4, 2e5), smax = U(0.6, 0.8);
            for (int i = 0; i < rows; ++i) { double x = (double)i / (rows - 1); p.v(smax * x, "1").v(x * x, "1").v((1 - x) * (1 - x), "1").v(pc0 * x, "Pressure").t("\n"); } p.t(" /\n"); }
    } else {
        feat("FAMILY-II");
        p.t("SWFN\n");
        for (int t = 0; t < ntsfun; ++t) { int rows = 3 + (int)rng.below(4); auto sw = satRows(rows); double pc0 = U(1e4, 3e5);
            for (int i = 0; i < rows; ++i) { double x = (double)i / (rows - 1); p.v(sw[i], "1").v(x * x, "1").v(pc0 * (1 - x), "Pressure").t("\n"); } p.t(" /\n"); }
        p.t("SGFN\n");
        for (int t = 0; t < ntsfun; ++t) { int rows = 3 + (int)rng.below(4); double pc0 = U(1e4, 2e5), smax = U(0.6, 0.8);
            for (int i = 0; i < rows; ++i) { double x = (double)i / (rows - 1); p.v(smax * x, "1").v(x * x, "1").v(pc0 * x, "Pressure").t("\n"); } p.t(" /\n"); }
        p.t("SOF3\n");
        for (int t = 0; t < ntsfun; ++t) { int rows = 3 + (int)rng.below(4);
            for (int i = 0; i < rows; ++i) { double x = (double)i / (rows - 1); p.v(0.8 * x, "1").v(x * x, "1").v(x * x * x, "1").t("\n"); } p.t(" /\n"); }
    }
    // gas: dry (PVDG) or wet (PVTG); formation volume factors are reservoir volume per surface volume
    if (!vapoil) {
        p.t("PVDG\n");
        for (int t = 0; t < ntpvt; ++t) { int rows = 3 + (int)rng.below(4); double pp = U(1e6, 3e6), bg = U(0.05, 0.1), mu = U(1e-5, 1.5e-5);
            for (int i = 0; i < rows; ++i) { p.v(pp, "Pressure").v(bg, "ReservoirVolume/GasSurfaceVolume").v(mu, "Viscosity").t("\n"); pp += U(3e6, 9e6); bg *= U(0.4, 0.8); mu *= U(1.05, 1.3); } p.t(" /\n"); }
    } else {
        feat("PVTG");
        p.t("PVTG\n");
        for (int t = 0; t < ntpvt; ++t) { int nodes = 2 + (int)rng.below(3); double pg = U(2e6, 5e6), rv = U(1e-5, 5e-5), bg = U(0.03, 0.06), mu = U(1.2e-5, 1.6e-5);
            for (int q = 0; q < nodes; ++q) {
                int rows = 1 + (int)rng.below(3);
                p.v(pg, "Pressure");
                double rvr = rv, bgr = bg, mur = mu;
                for (int i = 0; i < rows; ++i) { p.v(rvr, "LiquidSurfaceVolume/GasSurfaceVolume").v(bgr, "ReservoirVolume/GasSurfaceVolume").v(mur, "Viscosity").t("\n"); rvr *= U(0.3, 0.7); bgr *= 0.999; mur *= 0.99; }
                p.t(" /\n"); pg += U(4e6, 9e6); rv *= U(1.3, 2.0); bg *= U(0.5, 0.8); mu *= U(1.05, 1.2);
            }
            p.t("/\n"); }
    }
    if (disgas) {
        p.t("PVTO\n");
        for (int t = 0; t < ntpvt; ++t) { int nodes = 2 + (int)rng.below(3); double rs = U(5, 30), pb = U(2e6, 5e6), bo = U(1.05, 1.15), mu = U(1e-3, 2e-3);
            for (int q = 0; q < nodes; ++q) {
                int rows = (q == nodes - 1) ? 2 + (int)rng.below(2) : 1 + (int)rng.below(2);
                p.v(rs, "GasSurfaceVolume/LiquidSurfaceVolume");
                double pr = pb, bor = bo, mur = mu;
                for (int i = 0; i < rows; ++i) { p.v(pr, "Pressure").v(bor, "ReservoirVolume/LiquidSurfaceVolume").v(mur, "Viscosity").t("\n"); pr += U(5e6, 1e7); bor *= 0.99; mur *= 1.05; }
                p.t(" /\n"); rs += U(20, 60); pb += U(4e6, 9e6); bo += U(0.05, 0.15); mu *= U(0.7, 0.9);
            }
            p.t("/\n"); }
    } else {
        feat("PVDO");
        p.t("PVDO\n");
        for (int t = 0; t < ntpvt; ++t) { int rows = 3 + (int)rng.below(3); double pp = U(1e6, 3e6), bo = U(1.1, 1.3), mu = U(1e-3, 2e-3);
            for (int i = 0; i < rows; ++i) { p.v(pp, "Pressure").v(bo, "ReservoirVolume/LiquidSurfaceVolume").v(mu, "Viscosity").t("\n"); pp += U(5e6, 1e7); bo *= 0.98; mu *= 1.05; } p.t(" /\n"); }
    }
    if (thermalTables) {
        feat("THERMAL-TABLES");
        p.t("SPECHEAT\n");
        for (int t = 0; t < ntpvt; ++t) { int rows = 2 + (int)rng.below(3); double T = U(280, 300);
            for (int i = 0; i < rows; ++i) { p.v(T, "Temperature").v(U(1800, 2200), "Energy/Mass*AbsoluteTemperature").v(U(4000, 4300), "Energy/Mass*AbsoluteTemperature").v(U(2000, 2500), "Energy/Mass*AbsoluteTemperature").t("\n"); T += U(20, 60); } p.t(" /\n"); }
        p.t("SPECROCK\n");
        for (int t = 0; t < ntsfun; ++t) { int rows = 2 + (int)rng.below(3); double T = U(280, 300);
            for (int i = 0; i < rows; ++i) { p.v(T, "Temperature").v(U(1.8e6, 2.5e6), "Energy/Length*Length*Length*AbsoluteTemperature").t("\n"); T += U(20, 60); } p.t(" /\n"); }
        if (rng.chance(0.6)) {
            p.t("VISCREF\n"); for (int t = 0; t < ntpvt; ++t) { p.v(P0, "Pressure").v(U(20, 100), "GasSurfaceVolume/LiquidSurfaceVolume").t(" /\n"); }
            p.t("WATVISCT\n"); for (int t = 0; t < ntpvt; ++t) { int rows = 2 + (int)rng.below(3); double T = U(280, 300), mu = U(8e-4, 1e-3); for (int i = 0; i < rows; ++i) { p.v(T, "Temperature").v(mu, "Viscosity").t("\n"); T += U(20, 50); mu *= U(0.5, 0.8); } p.t(" /\n"); }
            p.t("OILVISCT\n"); for (int t = 0; t < ntpvt; ++t) { int rows = 2 + (int)rng.below(3); double T = U(280, 300), mu = U(2e-3, 5e-3); for (int i = 0; i < rows; ++i) { p.v(T, "Temperature").v(mu, "Viscosity").t("\n"); T += U(20, 50); mu *= U(0.5, 0.8); } p.t(" /\n"); }
        }
        if (rng.chance(0.5)) { p.t("STCOND\n"); vd(U(285, 295), "Temperature", 0.3); vd(U(1.0e5, 1.02e5), "Pressure", 0.3); p.t(" /\n"); feat("STCOND"); }
        if (rng.chance(0.5)) {
            feat("DENT");
            p.t("OILDENT\n"); for (int t = 0; t < ntpvt; ++t) { vd(U(288, 298), "AbsoluteTemperature"); vd(U(5e-4, 1e-3), "1/AbsoluteTemperature"); vd(U(1e-7, 1e-6), "1/AbsoluteTemperature*AbsoluteTemperature"); p.t(" /\n"); }
            p.t("WATDENT\n"); for (int t = 0; t < ntpvt; ++t) { vd(U(288, 298), "AbsoluteTemperature"); vd(U(2e-4, 4e-4), "1/AbsoluteTemperature"); vd(U(1e-6, 4e-6), "1/AbsoluteTemperature*AbsoluteTemperature"); p.t(" /\n"); }
        }
    }
    if (polymer) {
        p.t("PLYVISC\n"); for (int t = 0; t < ntpvt; ++t) { int rows = 2 + (int)rng.below(3); double c = 0, f = 1; for (int i = 0; i < rows; ++i) { p.v(c, "Mass/LiquidSurfaceVolume").v(f, "1").t("\n"); c += U(0.5, 1.5); f += U(1, 10); } p.t(" /\n"); }
        p.t("PLYADS\n"); for (int t = 0; t < ntsfun; ++t) { int rows = 2 + (int)rng.below(3); double c = 0, a = 0; for (int i = 0; i < rows; ++i) { p.v(c, "Mass/LiquidSurfaceVolume").v(a, "1").t("\n"); c += U(0.5, 1.5); a += U(1e-5, 3e-5); } p.t(" /\n"); }
        p.t("PLYMAX\n"); for (int t = 0; t < 1; ++t) { p.v(U(2, 5), "Mass/LiquidSurfaceVolume").v(U(0, 1), "Mass/LiquidSurfaceVolume").t(" /\n"); }
    }
    // ---------------------------------------------------------------- REGIONS / SOLUTION
    p.t("REGIONS\n");
    if (ntsfun > 1) { p.t("SATNUM\n"); for (int i = 0; i < n; ++i) p.t(" " + std::to_string(1 + rng.below(ntsfun))); p.t(" /\n"); }
    if (ntpvt > 1) { p.t("PVTNUM\n"); for (int i = 0; i < n; ++i) p.t(" " + std::to_string(1 + rng.below(ntpvt))); p.t(" /\n"); }
    p.t("SOLUTION\n");
    if (equil) {
        feat("EQUIL");
        p.t("EQUIL\n"); vd(top + U(0, 40), "Length", 0.1); p.v(P0, "Pressure"); vd(top + U(40, 100), "Length", 0.2); vd(U(0, 5e4), "Pressure", 0.4); vd(top + U(-20, 5), "Length", 0.2); vd(U(0, 5e4), "Pressure", 0.4); p.t(" 1 1 0 /\n");
        auto depthTable = [&](const char* kw, double a, double b, const char* dim) { p.t(std::string(kw) + "\n"); double z = top - 100; int rows = 2 + (int)rng.below(3); for (int i = 0; i < rows; ++i) { p.v(z, "Length").v(U(a, b), dim).t("\n"); z += U(50, 300); } p.t(" /\n"); };
        if (disgas) { if (rng.chance(0.5)) depthTable("RSVD", 20, 100, "GasSurfaceVolume/LiquidSurfaceVolume"); else depthTable("PBVD", 5e6, 2e7, "Pressure"); }
        if (vapoil) { if (rng.chance(0.5)) depthTable("RVVD", 1e-5, 1e-4, "LiquidSurfaceVolume/GasSurfaceVolume"); else depthTable("PDVD", 5e6, 2e7, "Pressure"); }
        if (thermalTables && rng.chance(0.6)) { depthTable("RTEMPVD", 300, 400, "Temperature"); feat("RTEMPVD"); }
        else if (thermalTables && rng.chance(0.5)) { p.t("RTEMP\n"); vd(U(300, 400), "Temperature", 0.3); p.t(" /\n"); feat("RTEMP"); }
        if (polymer && rng.chance(0.5)) { depthTable("SALTVD", 0, 30, "Mass/LiquidSurfaceVolume"); feat("SALTVD"); }
    } else {
        feat("EXPLICIT-INIT");
        cellArray("PRESSURE", n, 1.5e7, 3.5e7, "Pressure"); cellArray("SWAT", n, 0.1, 0.4, "1"); cellArray("SGAS", n, 0.0, 0.3, "1");
        if (disgas) cellArray("RS", n, 20, 120, "GasSurfaceVolume/LiquidSurfaceVolume");
        if (vapoil) cellArray("RV", n, 1e-5, 1e-4, "LiquidSurfaceVolume/GasSurfaceVolume");
        if (thermalTables) { cellArray("TEMPI", n, 300, 400, "Temperature"); feat("TEMPI"); }
        if (rng.chance(0.5)) { p.t("EQUALS\n 'PRESSURE'").v(U(1.5e7, 3.5e7), "Pressure").t(box()).t("/\nADD\n 'PRESSURE'").v(U(1e5, 1e6), "Pressure").t(box()).t("/\n"); if (disgas) p.t("MULTIPLY\n 'RS'").v(U(0.8, 1.2), "1").t(box()).t("/\n"); feat("SOLUTION-OPS"); }
        // OPERATE on an array whose unit differs between the unit systems (permeabilities are mD everywhere: a constant left in deck
        // units gives the same wrong SI value in all four systems and the comparison across systems cannot see it)
        if (rng.chance(0.4)) {
            feat("OPERATE-PRESSURE");
            auto bx = [&]() { std::string b = box(); return b.substr(0, b.find('/')); };
            p.t("OPERATE\n 'PRESSURE'" + bx() + "'ADDX' 'PRESSURE'").v(U(1e5, 2e6), "Pressure").t(" /\n");
            p.t(" 'PRESSURE'" + bx() + (rng.chance(0.5) ? "'MAXLIM'" : "'MINLIM'") + " 'PRESSURE'").v(U(2e7, 3e7), "Pressure").t(" /\n");
            if (rng.chance(0.5)) p.t(" 'PRESSURE'" + bx() + "'MULTA' 'PRESSURE'").v(U(0.9, 1.1), "1").v(U(1e5, 1e6), "Pressure").t(" /\n");
            p.t("/\n");
        }
        if (thermalTables && rng.chance(0.4)) { p.t("EQUALS\n 'TEMPI'").v(U(300, 400), "Temperature").t(box()).t("/\n"); feat("EQUALS-TEMPI"); }
        // a temperature *difference* added to a temperature: 10 K = 10 degC = 18 degF = 18 degR
        if (thermalTables && rng.chance(0.3)) { p.t("ADD\n 'TEMPI'").v(U(5, 30), "AbsoluteTemperature").t(box()).t("/\n"); feat("ADD-TEMPI"); mi.addTempi = true; }
    }
    if (aquifer) {
        feat("AQUIFER");
        if (rng.chance(0.5)) { p.t("AQUFETP\n 1").v(top + U(50, 100), "Length").v(P0, "Pressure").v(LU(1e7, 1e9), "LiquidSurfaceVolume").v(U(5e-10, 1e-9), "1/Pressure").v(LU(1e-9, 1e-8), "LiquidSurfaceVolume/Time*Pressure").t(" 1 /\n/\n"); }
        else { p.t("AQUCT\n 1").v(top + U(50, 100), "Length").v(P0, "Pressure").v(LU(1e-14, 1e-12), "Permeability").v(U(0.1, 0.3), "1").v(U(5e-10, 1e-9), "1/Pressure").v(U(500, 2000), "Length").v(U(10, 50), "Length"); vd(U(90, 360), "1", 0.5); p.t(" 1 1 /\n/\n"); }
        p.t("AQUANCON\n 1 1 1 1 " + std::to_string(ny) + " 1 " + std::to_string(nz) + " 'I-'"); vd(U(100, 5000), "Length*Length", 0.5); vd(U(0.5, 2), "1", 0.5); p.t(" /\n/\n");
    }
    p.t("SUMMARY\nFOPR\nSCHEDULE\n");
    // ---------------------------------------------------------------- SCHEDULE
    p.t("GRUPTREE\n 'G1' 'FIELD' /\n 'G2' 'FIELD' /\n/\n");
    struct W { std::string name, group; int i, j; char kind; };   // P producer, H history producer, W water injector, G gas injector
    std::vector<W> wells = {{"P1", "G1", 1, 1, 'P'}, {"P2", "G1", nx, 1, 'H'}, {"I1", "G2", 1, ny, 'W'}, {"I2", "G2", nx, ny, 'G'}};
    p.t("WELSPECS\n");
    for (auto& w : wells) { p.t(" '" + w.name + "' '" + w.group + "' " + std::to_string(w.i) + " " + std::to_string(w.j)); vd(top + U(0, 30), "Length", 0.4); p.t(w.kind == 'G' ? " 'GAS'" : (w.kind == 'W' ? " 'WATER'" : " 'OIL'")); vd(U(50, 300), "Length", 0.5); p.t(" /\n"); }
    p.t("/\nCOMPDAT\n");
    for (auto& w : wells) for (int k = 1; k <= nz; ++k) {
        p.t(" '" + w.name + "' " + std::to_string(w.i) + " " + std::to_string(w.j) + " " + std::to_string(k) + " " + std::to_string(k) + " 'OPEN' 1*");
        int form = (int)rng.below(4);
        // CF and Kh both given: the library derives the equivalent radius r0 = rw exp(2 pi Kh / CF - S); keep the exponent moderate
        if (form == 0) { const double kh = LU(1e-13, 1e-11); p.v(2 * M_PI * kh / U(5, 9), "Viscosity*ReservoirVolume/Time*Pressure").v(U(0.1, 0.3), "Length"); vd(kh, "Permeability*Length", 0.5); vd(U(-1, 5), "1", 0.5); }
        else if (form == 1) { p.d().v(U(0.1, 0.3), "Length").v(LU(1e-13, 1e-11), "Permeability*Length").v(U(-1, 5), "1"); vd(LU(1e-3, 1e-1), "Time/GasSurfaceVolume", 0.5); p.t(" '" + std::string(1, "XYZ"[rng.below(3)]) + "'"); vd(U(5, 40), "Length", 0.5); }
        else if (form == 2) { p.d().v(U(0.1, 0.3), "Length").d().v(U(-1, 5), "1").d().t(" 'Z'"); }
        else { p.d().v(U(0.1, 0.3), "Length"); }
        p.t(" /\n");
    }
    p.t("/\n");
    const bool msw = rng.chance(0.4);
    if (msw) {
        feat("MSW");
        p.t("WELSEGS\n 'P1'").v(top - 10, "Length").v(U(0, 5), "Length"); vd(U(1e-5, 1e-3), "Length*Length*Length", 0.5); p.t(" 'ABS' 'HFA' 'HO' /\n");
        for (int k = 1; k <= nz; ++k) { p.t(" " + std::to_string(k + 1) + " " + std::to_string(k + 1) + " 1 " + std::to_string(k)).v(10.0 * k + 5, "Length").v(top + 10.0 * k, "Length").v(U(0.1, 0.3), "Length").v(LU(1e-5, 1e-3), "Length"); if (rng.chance(0.5)) { vd(U(0.01, 0.07), "Length*Length", 0.3); vd(U(0.05, 1.0), "Length*Length*Length", 0.3); } p.t(" /\n"); }
        p.t("/\nCOMPSEGS\n 'P1' /\n");
        // connection k (centre at 10k+2) is clearly nearest to segment k+1 (at 10k+5): no ties for rounding to break
        for (int k = 1; k <= nz; ++k) { p.t(" 1 1 " + std::to_string(k) + " 1").v(10.0 * (k - 1) + 8, "Length").v(10.0 * k + 6, "Length").t(" /\n"); }
        p.t("/\n");
        if (rng.chance(0.5)) { p.t("WSEGVALV\n 'P1' 2").v(U(0.5, 1.0), "1").v(LU(1e-4, 1e-2), "Length*Length"); vd(U(0, 2), "Length", 0.5); vd(U(0.1, 0.2), "Length", 0.5); vd(LU(1e-5, 1e-3), "Length", 0.5); vd(U(0.01, 0.05), "Length*Length", 0.5); p.t(" /\n/\n"); feat("WSEGVALV"); }
        if (nz >= 2 && rng.chance(0.5)) { p.t("WSEGSICD\n 'P1' 3 3").v(LU(1e3, 1e6), "Pressure*Time*Time/Length*Length*Length*Length*Length*Length"); vd(U(5, 20), "Length", 0.5); vd(U(900, 1100), "Density", 0.5); vd(U(5e-4, 2e-3), "Viscosity", 0.5); p.t(" /\n/\n"); feat("WSEGSICD"); }
    }
    const bool vfp = rng.chance(0.4);
    if (vfp) {
        feat("VFPPROD");
        // the axis types are converted by hand in VFPProdTable (not through item dimensions): every flow / water fraction / gas
        // fraction type with its physical dimension
        static const char* FLO[] = {"OIL", "LIQ", "GAS"};
        static const char* FLODIM[] = {"LiquidSurfaceVolume/Time", "LiquidSurfaceVolume/Time", "GasSurfaceVolume/Time"};
        static const char* WFR[] = {"WCT", "WOR", "WGR"};
        static const char* WFRDIM[] = {"1", "1", "LiquidSurfaceVolume/GasSurfaceVolume"};
        static const char* GFR[] = {"GOR", "GLR", "OGR"};
        static const char* GFRDIM[] = {"GasSurfaceVolume/LiquidSurfaceVolume", "GasSurfaceVolume/LiquidSurfaceVolume", "LiquidSurfaceVolume/GasSurfaceVolume"};
        const int fl = (int)rng.below(3), wf = (int)rng.below(3), gf = (int)rng.below(3);
        feat(std::string("VFPPROD ") + FLO[fl] + "/" + WFR[wf] + "/" + GFR[gf]);
        p.t("VFPPROD\n 1").v(top, "Length").t(std::string(" '") + FLO[fl] + "' '" + WFR[wf] + "' '" + GFR[gf] + "' 'THP' 'GRAT' '@VFPUNITS@' 'BHP' /\n");
        for (int i = 0; i < 3; ++i) p.v((fl == 2 ? 1.0 : 1e-3) * (i + 1) * U(0.9, 1.1), FLODIM[fl]); p.t(" /\n");
        for (int i = 0; i < 2; ++i) p.v(1e6 * (i + 1) + U(0, 1e5), "Pressure"); p.t(" /\n");
        if (wf == 2) p.v(1e-5 * U(1, 2), WFRDIM[wf]).v(1e-3 * U(1, 2), WFRDIM[wf]).t(" /\n");
        else p.v(0.0, "1").v(0.5, "1").t(" /\n");
        if (gf == 2) p.v(1e-5 * U(1, 2), GFRDIM[gf]).v(1e-3 * U(1, 2), GFRDIM[gf]).t(" /\n");
        else p.v(50 + U(0, 10), GFRDIM[gf]).v(150 + U(0, 10), GFRDIM[gf]).t(" /\n");
        p.v(0.0, "GasSurfaceVolume/Time").t(" /\n");
        for (int t = 1; t <= 2; ++t) for (int w = 1; w <= 2; ++w) for (int g = 1; g <= 2; ++g) { p.t(" " + std::to_string(t) + " " + std::to_string(w) + " " + std::to_string(g) + " 1"); for (int f = 0; f < 3; ++f) p.v(U(8e6, 2e7), "Pressure"); p.t(" /\n"); }
    }
    if (network) {
        p.t("BRANPROP\n 'G1' 'FIELD' 9999 /\n 'G2' 'FIELD' 9999 /\n/\nNODEPROP\n 'FIELD'").v(U(2e6, 5e6), "Pressure").t(" /\n 'G1' /\n 'G2' /\n/\n");
    }
    auto prodControl = [&](const std::string& w) {
        static const char* modes[] = {"ORAT", "WRAT", "GRAT", "LRAT", "RESV", "BHP"};
        const int md = (int)rng.below(6);    // the item of the control mode itself must be given
        p.t("WCONPROD\n '" + w + "' 'OPEN' '" + modes[md] + "'");
        bool df[7];
        df[0] = vd(LU(1e-4, 1e-2), "LiquidSurfaceVolume/Time", md == 0 ? 0 : 0.2); df[1] = vd(LU(1e-4, 1e-2), "LiquidSurfaceVolume/Time", md == 1 ? 0 : 0.2); df[2] = vd(LU(1e-2, 1), "GasSurfaceVolume/Time", md == 2 ? 0 : 0.2); df[3] = vd(LU(1e-4, 1e-2), "LiquidSurfaceVolume/Time", md == 3 ? 0 : 0.2);
        df[4] = vd(LU(1e-4, 1e-2), "ReservoirVolume/Time", md == 4 ? 0 : 0.2); df[5] = vd(U(5e6, 1.5e7), "Pressure", md == 5 ? 0 : 0.3); df[6] = true;
        if (vfp && rng.chance(0.6)) { p.v(U(1e6, 2e6), "Pressure").t(" 1").v(LU(1e-2, 1e-1), "GasSurfaceVolume/Time"); df[6] = false; }
        if (w == "P1") for (int q = 0; q < 7; ++q) p1Defaulted[q] = df[q];
        p.t(" /\n/\n");
    };
    auto injControl = [&](const W& w) {
        static const char* modes[] = {"RATE", "RESV", "BHP"};
        const int md = (int)rng.below(3);
        // a liquid injector injects water or, in a fifth of the cases, oil (the handler converts item 10 by hand for that type)
        const bool oilInj = w.kind != 'G' && rng.chance(0.2);
        p.t("WCONINJE\n '" + w.name + "' '" + (w.kind == 'G' ? "GAS" : (oilInj ? "OIL" : "WATER")) + "' 'OPEN' '" + modes[md] + "'");
        p.v(w.kind == 'G' ? LU(1e-1, 10) : LU(1e-4, 1e-2), w.kind == 'G' ? "GasSurfaceVolume/Time" : "LiquidSurfaceVolume/Time");
        const bool rd = vd(LU(1e-4, 1e-2), "ReservoirVolume/Time", md == 1 ? 0 : 0.3); const bool bd = vd(U(3e7, 5e7), "Pressure", md == 2 ? 0 : 0.3);
        if (w.name == "I1") i1ResvDefaulted = rd;
        (void)bd;
        // item 10: vaporised oil in the injected gas (Rv, liquid / gas) or dissolved gas in the injected oil (Rs, gas / liquid)
        if ((w.kind == 'G' || oilInj) && rng.chance(0.5)) {
            feat(oilInj ? "WCONINJE OIL item 10 (Rs)" : "WCONINJE GAS item 10 (Rv)");
            p.t(" 2*");
            if (oilInj) p.v(U(50, 150), "GasSurfaceVolume/LiquidSurfaceVolume"); else p.v(LU(1e-5, 1e-3), "LiquidSurfaceVolume/GasSurfaceVolume");
        }
        p.t(" /\n/\n");
    };
    auto histControl = [&](const std::string& w) {
        p.t("WCONHIST\n '" + w + "' 'OPEN' '" + (rng.chance(0.5) ? "ORAT" : "RESV") + "'").v(LU(1e-4, 1e-2), "LiquidSurfaceVolume/Time").v(LU(1e-4, 1e-2), "LiquidSurfaceVolume/Time").v(LU(1e-2, 1), "GasSurfaceVolume/Time");
        if (rng.chance(0.5)) { p.t(" 2* "); vd(U(1e6, 2e6), "Pressure", 0.3); vd(U(1e7, 2e7), "Pressure", 0.3); }
        p.t(" /\n/\n");
    };
    prodControl("P1"); histControl("P2"); injControl(wells[2]); injControl(wells[3]);
    const int nsteps = 2 + (int)rng.below(3);
    for (int st = 0; st < nsteps; ++st) {
        int nk = 2 + (int)rng.below(6);
        for (int q = 0; q < nk; ++q) {
            switch (rng.below(25)) {
            case 0: prodControl("P1"); break;
            case 1: histControl("P2"); break;
            case 2: injControl(wells[2 + rng.below(2)]); break;
            case 3: { static const char* m[] = {"ORAT", "WRAT", "GRAT", "LRAT", "RESV", "BHP", "THP"}; static const char* dm[] = {"LiquidSurfaceVolume/Time", "LiquidSurfaceVolume/Time", "GasSurfaceVolume/Time", "LiquidSurfaceVolume/Time", "ReservoirVolume/Time", "Pressure", "Pressure"};
                      int k = (int)rng.below(7); if (!vfp && k == 6) k = 5;   // a THP limit needs a VFP table
                      if (p1Defaulted[k]) { mi.weltargOnDefaultedItem.insert("P1"); feat("WELTARG-on-item-defaulted-in-WCONPROD"); }
                      p.t(std::string("WELTARG\n 'P1' '") + m[k] + "'").v(k == 2 ? LU(1e-2, 1) : (k >= 5 ? U(5e6, 1.5e7) : LU(1e-4, 1e-2)), dm[k]).t(" /\n/\n"); feat("WELTARG"); break; }
            case 4: { p.t("GCONPROD\n 'G1' 'ORAT'"); vd(LU(1e-4, 1e-2), "LiquidSurfaceVolume/Time", 0.1); vd(LU(1e-4, 1e-2), "LiquidSurfaceVolume/Time", 0.3); vd(LU(1e-2, 1), "GasSurfaceVolume/Time", 0.3); vd(LU(1e-4, 1e-2), "LiquidSurfaceVolume/Time", 0.3);
                      p.t(" 'RATE' 'YES' 1* ' ' 3*"); vd(LU(1e-4, 1e-2), "ReservoirVolume/Time", 0.5); p.t(" /\n/\n"); feat("GCONPROD"); break; }
            case 5: { bool gas = rng.chance(0.4); p.t(std::string("GCONINJE\n 'G2' '") + (gas ? "GAS" : "WATER") + "' '" + (rng.chance(0.5) ? "RATE" : "RESV") + "'").v(gas ? LU(1e-1, 10) : LU(1e-4, 1e-2), gas ? "GasSurfaceVolume/Time" : "LiquidSurfaceVolume/Time").v(LU(1e-4, 1e-2), "ReservoirVolume/Time");
                      vd(U(0.5, 1), "1", 0.5); vd(U(0.5, 1), "1", 0.5); p.t(" /\n/\n"); feat("GCONINJE"); break; }
            case 6: { p.t("WECON\n 'P1'"); vd(LU(1e-6, 1e-4), "LiquidSurfaceVolume/Time", 0.3); vd(LU(1e-4, 1e-2), "GasSurfaceVolume/Time", 0.3); vd(U(0.8, 0.99), "1", 0.3); vd(U(200, 2000), "GasSurfaceVolume/LiquidSurfaceVolume", 0.3); vd(U(1e-3, 1e-2), "LiquidSurfaceVolume/GasSurfaceVolume", 0.3);
                      p.t(" 'CON' 'NO' /\n/\n"); feat("WECON"); break; }
            case 7: { p.t("GECON\n 'G1'"); vd(LU(1e-6, 1e-4), "LiquidSurfaceVolume/Time", 0.3); vd(LU(1e-4, 1e-2), "GasSurfaceVolume/Time", 0.3); vd(U(0.8, 0.99), "1", 0.3); vd(U(200, 2000), "GasSurfaceVolume/LiquidSurfaceVolume", 0.3); vd(U(1e-3, 1e-2), "LiquidSurfaceVolume/GasSurfaceVolume", 0.3);
                      p.t(" 'NONE' 'NO' /\n/\n"); feat("GECON"); break; }
            case 8: { p.t("WTEST\n 'P1'").v(U(1, 30) * 86400, "Time").t(" 'P' 2"); vd(U(0, 5) * 86400, "Time", 0.5); p.t(" /\n/\n"); feat("WTEST"); break; }
            case 9: { p.t("WTEMP\n 'I1'").v(U(290, 350), "Temperature").t(" /\n/\n"); feat("WTEMP"); break; }
            case 10: { p.t("WINJTEMP\n 'I1' 1*").v(U(290, 350), "Temperature"); vd(U(1e6, 1e7), "Pressure", 0.5); p.t(" /\n/\n"); feat("WINJTEMP"); break; }
            case 11: { if (!polymer) break; p.t("WPOLYMER\n 'I1'").v(U(0.5, 3), "Mass/LiquidSurfaceVolume").v(U(0, 1), "Mass/LiquidSurfaceVolume").t(" /\n/\n"); feat("WPOLYMER"); break; }
            case 12: { if (!disgas) break; p.t("DRSDT\n").v(LU(1e-6, 1e-3), "GasSurfaceVolume/LiquidSurfaceVolume*Time").t(" /\n"); feat("DRSDT"); break; }
            case 13: { p.t("GCONSUMP\n 'G1'").v(LU(1e-3, 1e-1), "GasSurfaceVolume/Time"); vd(LU(1e-3, 1e-1), "GasSurfaceVolume/Time", 0.5); p.t(" /\n/\n"); feat("GCONSUMP"); break; }
            case 14: { p.t("LIFTOPT\n").v(LU(1e-2, 1e-1), "GasSurfaceVolume/Time").v(LU(1e-4, 1e-2), "LiquidSurfaceVolume/GasSurfaceVolume"); vd(U(1, 10) * 86400, "Time", 0.5); p.t(" /\n");
                       p.t("WLIFTOPT\n 'P1' 'YES'").v(LU(1e-1, 1), "GasSurfaceVolume/Time").t(" 1.0").v(LU(1e-3, 1e-2), "GasSurfaceVolume/Time").t(" /\n/\n");
                       p.t("GLIFTOPT\n 'G1'"); vd(LU(1, 10), "GasSurfaceVolume/Time", 0.4); vd(LU(1, 10), "GasSurfaceVolume/Time", 0.4); p.t(" /\n/\n"); feat("LIFTOPT"); break; }
            case 15: { p.t("TUNING\n").v(U(0.5, 2) * 86400, "Time").v(U(10, 50) * 86400, "Time"); vd(U(0.05, 0.2) * 86400, "Time", 0.5); vd(U(0.1, 0.3) * 86400, "Time", 0.5); p.t(" /\n /\n 12 1 25 1 8 8");
                       vd(U(1e6, 1e7), "Pressure", 0.5); p.t(" 1*"); vd(U(1e6, 1e7), "Pressure", 0.5); p.t(" /\n"); feat("TUNING"); break; }
            case 16: { p.t("NEXTSTEP\n").v(U(0.5, 5) * 86400, "Time").t(" 'NO' /\n"); feat("NEXTSTEP"); break; }
            case 17: { p.t("WINJMULT\n 'I1'").v(U(3e7, 5e7), "Pressure").v(LU(1e-8, 1e-6), "1/Pressure").t(" 'WREV' /\n/\n"); feat("WINJMULT"); break; }
            case 18: { p.t("WDFAC\n 'P1'").v(LU(1e-3, 1e-1), "Time/GasSurfaceVolume").t(" /\n/\n"); feat("WDFAC"); break; }
            case 19: { p.t("WEFAC\n 'P1'").v(U(0.5, 1), "1").t(" /\n/\nGEFAC\n 'G1'").v(U(0.5, 1), "1").t(" /\n/\n"); break; }
            case 20: { p.t("GPMAINT\n 'G2' 'WINJ' 1 1*").v(U(1.5e7, 3e7), "Pressure").v(LU(1e-10, 1e-8), "ReservoirVolume/Time*Pressure").v(U(10, 100) * 86400, "Time").t(" /\n/\n"); feat("GPMAINT"); break; }
            case 21: { if (!network) break; p.t("NODEPROP\n 'FIELD'").v(U(2e6, 5e6), "Pressure").t(" /\n/\n"); break; }
            case 24: { static const char* m[] = {"WRAT", "RESV", "BHP"}; static const char* dm[] = {"LiquidSurfaceVolume/Time", "ReservoirVolume/Time", "Pressure"};
                       int k = (int)rng.below(3); if (k == 1 && i1ResvDefaulted) { mi.weltargOnDefaultedItem.insert("I1"); feat("WELTARG-on-item-defaulted-in-WCONINJE"); }
                       p.t(std::string("WELTARG\n 'I1' '") + m[k] + "'").v(k == 2 ? U(3e7, 5e7) : LU(1e-4, 1e-2), dm[k]).t(" /\n/\n"); feat("WELTARG-injector"); break; }
            case 22: { p.t("WELSPECS\n 'P1' 'G1' 1 1").v(top + U(0, 30), "Length").t(" 'OIL'"); vd(U(50, 300), "Length", 0.5); p.t(" /\n/\n"); break; }
            case 23: { p.t("COMPDAT\n 'P2' " + std::to_string(nx) + " 1 1 1 'OPEN' 1*"); vd(LU(1e-13, 1e-11), "Viscosity*ReservoirVolume/Time*Pressure", 0.5); p.v(U(0.1, 0.3), "Length"); p.t(" /\n/\n"); break; }
            }
        }
        if (rng.chance(0.7)) { p.t("TSTEP\n"); int m = 1 + (int)rng.below(3); for (int q = 0; q < m; ++q) p.v(U(1, 40) * 86400, "Time"); p.t(" /\n"); }
        else p.t("DATES\n 1 '" + std::string(st == 0 ? "JUN" : (st == 1 ? "DEC" : "JAN")) + "' " + std::to_string(st < 2 ? 2020 + st / 2 : 2020 + st) + " /\n/\n");
    }
    return p;
}

// ---- tolerant structural dump: a visitor with the call interface of Opm::Serializer that flattens any serialisable object
// into (path, number | text) entries.  Numbers are compared with a relative tolerance, everything else exactly.
struct Ent { std::string path; bool num = false; double v = 0; std::string txt; bool udaNoDim = false; };
struct NumVisitor {
    std::vector<Ent>& out;
    std::string path;
    std::vector<int> member;     // index of the serializeOp call inside the enclosing object(s)
    explicit NumVisitor(std::vector<Ent>& o, const std::string& root) : out(o), path(root) {}
    bool isSerializing() const { return true; }
    template <class T> struct is_vec : std::false_type {};
    template <class T, class A> struct is_vec<std::vector<T, A>> : std::true_type {};
    template <class T> struct is_opt : std::false_type {};
    template <class T> struct is_opt<std::optional<T>> : std::true_type {};
    template <class T> struct is_var : std::false_type {};
    template <class... T> struct is_var<std::variant<T...>> : std::true_type {};
    template <class T> struct is_pair : std::false_type {};
    template <class A, class B> struct is_pair<std::pair<A, B>> : std::true_type {};
    template <class... T> struct is_pair<std::tuple<T...>> : std::true_type {};
    template <class T> struct is_sp : std::false_type {};
    template <class T> struct is_sp<std::shared_ptr<T>> : std::true_type {};
    template <class T> struct is_sp<std::unique_ptr<T>> : std::true_type {};
    template <class T> struct is_map : std::false_type {};
    template <class K, class V, class C, class A> struct is_map<std::map<K, V, C, A>> : std::true_type {};
    template <class K, class V, class H, class E, class A> struct is_map<std::unordered_map<K, V, H, E, A>> : std::true_type {};
    template <class T> struct is_set : std::false_type {};
    template <class K, class C, class A> struct is_set<std::set<K, C, A>> : std::true_type {};
    template <class K, class H, class E, class A> struct is_set<std::unordered_set<K, H, E, A>> : std::true_type {};
    template <class T> struct is_arr : std::false_type {};
    template <class T, std::size_t N> struct is_arr<std::array<T, N>> : std::true_type {};
    template <class T, class = void> struct has_sop : std::false_type {};
    template <class T> struct has_sop<T, std::void_t<decltype(std::declval<T&>().serializeOp(std::declval<NumVisitor&>()))>> : std::true_type {};

    void text(const std::string& s) { Ent e; e.path = path; e.txt = s; out.push_back(e); }
    void number(double v) { Ent e; e.path = path; e.num = true; e.v = v; out.push_back(e); }
    template <class T> std::string keyOf(const T& k) { std::vector<Ent> tmp; NumVisitor v(tmp, ""); v(k); std::string s; for (auto& e : tmp) s += e.num ? g17(e.v) : e.txt; return s; }
    struct Scope { NumVisitor& v; std::string saved; Scope(NumVisitor& vv, const std::string& add) : v(vv), saved(vv.path) { v.path += add; } ~Scope() { v.path = saved; } };

    template <class T> void operator()(const T& x) {
        std::string memberTag;
        if (!member.empty()) memberTag = "#" + std::to_string(member.back()++);
        Scope msc(*this, memberTag);
        std::vector<int> savedMember; savedMember.swap(member);      // containers and wrappers do not number their elements
        struct Restore { std::vector<int>& m; std::vector<int>& s; ~Restore() { m.swap(s); } } restore{member, savedMember};
        visit(x);
    }
    template <class T> void visit(const T& x) {
        using U = std::remove_cv_t<std::remove_reference_t<T>>;
        if constexpr (is_sp<U>::value) { if (x) (*this)(*x); else text("null"); }
        else if constexpr (is_pair<U>::value) { std::apply([this](const auto&... e) { ((this->operator()(e)), ...); }, x); }
        else if constexpr (is_var<U>::value) { text("variant" + std::to_string(x.index())); std::visit([this](const auto& e) { (*this)(e); }, x); }
        else if constexpr (is_opt<U>::value) { if (x) { text("some"); (*this)(*x); } else text("none"); }
        else if constexpr (std::is_same_v<U, std::vector<bool>>) { std::string s; for (bool b : x) s += b ? '1' : '0'; text(s); }
        else if constexpr (is_vec<U>::value || is_arr<U>::value) { text("[" + std::to_string(x.size())); size_t i = 0; for (const auto& e : x) { Scope sc(*this, "[" + std::to_string(i++) + "]"); (*this)(e); } }
        else if constexpr (is_map<U>::value) {
            std::vector<std::pair<std::string, const typename U::value_type*>> items;
            for (const auto& kv : x) items.emplace_back(keyOf(kv.first), &kv);
            std::sort(items.begin(), items.end(), [](const auto& a, const auto& b) { return a.first < b.first; });
            text("{" + std::to_string(items.size()));
            for (auto& it : items) { Scope sc(*this, "{" + it.first + "}"); text(it.first); (*this)(it.second->second); }
        }
        else if constexpr (is_set<U>::value) { std::vector<std::string> ks; for (const auto& k : x) ks.push_back(keyOf(k)); std::sort(ks.begin(), ks.end()); std::string s = "set:"; for (auto& k : ks) s += k + ";"; text(s); }
        else if constexpr (std::is_same_v<U, KeywordLocation>) { }
        else if constexpr (std::is_same_v<U, UnitSystem>) { }                 // the deck's unit system is the varied parameter
        else if constexpr (std::is_same_v<U, Dimension>) { }                  // conversion factors of the deck's unit system
        else if constexpr (std::is_same_v<U, UDAValue>) {
            // a user defined argument keeps the deck number and its Dimension: the quantity it denotes is getSI()
            // A UDA whose Dimension is the identity is either a pure number or an item the library converts later from its
            // context (injection rate by phase, WELTARG value by mode): marked, see the comparison.
            if (x.template is<double>()) { double v; try { v = x.getSI(); } catch (const std::exception&) { v = x.template get<double>(); } number(v);
                                           const auto& dm = x.get_dim(); bool ident = false; try { ident = dm.getSIScaling() == 1.0 && dm.getSIOffset() == 0.0; } catch (const std::exception&) { ident = true; } out.back().udaNoDim = ident; }
            else if (x.template is<std::string>()) text(x.template get<std::string>());
            else text("uda-undefined");
        }
        else if constexpr (std::is_same_v<U, DeckItem>) {
            Scope sc(*this, "/" + x.name());
            for (size_t i = 0; i < x.data_size(); ++i) {
                if (!x.hasValue(i)) { text(x.defaultApplied(i) ? "d" : "v"); continue; }
                switch (x.getType()) {
                case type_tag::integer: text(std::to_string(x.template get<int>(i))); break;
                case type_tag::string: text(x.template get<std::string>(i)); break;
                case type_tag::raw_string: text(x.template get<RawString>(i)); break;
                case type_tag::fdouble: { double v; try { v = x.getSIDouble(i); } catch (const std::exception&) { v = x.template get<double>(i); } number(v); break; }
                case type_tag::uda: (*this)(x.template get<UDAValue>(i)); break;
                default: text("?");
                }
            }
        }
        else if constexpr (std::is_same_v<U, UDQDefine>) { (void)x.input_string(); member.push_back(0); const_cast<U&>(x).serializeOp(*this); member.pop_back(); }
        else if constexpr (has_sop<U>::value) {
            std::string tn = typeid(U).name();
            // keep the readable tail of the mangled name
            size_t q = tn.size(); while (q > 0 && !std::isdigit((unsigned char)tn[q - 1])) --q;
            Scope sc(*this, "/" + tn.substr(q));
            member.push_back(0);
            const_cast<U&>(x).serializeOp(*this);
            member.pop_back();
        }
        else if constexpr (std::is_same_v<U, std::string>) { text(x); }
        else if constexpr (std::is_floating_point_v<U>) { number((double)x); }
        else if constexpr (std::is_enum_v<U>) { text("e" + std::to_string(static_cast<long>(x))); }
        else if constexpr (std::is_arithmetic_v<U>) { text(std::to_string(+x)); }
        else if constexpr (std::is_same_v<U, time_point>) { text("t" + std::to_string(x.time_since_epoch().count())); }
        else { std::string s = "pod" + std::to_string(sizeof(U)) + ":"; const unsigned char* pp = reinterpret_cast<const unsigned char*>(&x); char b[4]; for (size_t i = 0; i < sizeof(U); i++) { snprintf(b, sizeof b, "%02x", pp[i]); s += b; } text(s); }
    }
};

struct ObsSection { std::string name; std::vector<Ent> ents; };
struct ModelObs { bool ok = false; std::string err; std::string stage; std::vector<ObsSection> sections; };

static void observeModel(const Parser& parser, const std::string& text, const std::shared_ptr<Python>& python, ModelObs& mo) {
    try {
        mo.stage = "parse";
        ParseContext pc;
        ErrorGuard eg;
        Deck deck = parser.parseString(text, pc, eg);
        eg.clear();
        // --- Deck: every item of every keyword, SI
        {
            ObsSection sec; sec.name = "deck";
            for (size_t ki = 0; ki < deck.size(); ++ki) {
                const DeckKeyword& kw = deck[ki];
                if (kw.name() == "METRIC" || kw.name() == "FIELD" || kw.name() == "LAB" || kw.name() == "PVT-M") continue;
                size_t r = 0;
                // items without a dimension in the keyword definition (WCONINJE RATE, WELTARG NEW_VALUE, VFP table bodies ...) have no
                // SI value at Deck level: the library converts them later from the context; they are observed in the Schedule section
                std::set<std::string> dimensioned;
                if (parser.hasKeyword(kw.name())) for (const auto& prec : parser.getKeyword(kw.name())) for (const auto& pit : prec) {
                    bool ctx = false; for (auto& d : pit.dimensions()) if (d == "ContextDependent") ctx = true;
                    if (!pit.dimensions().empty() && !ctx) dimensioned.insert(pit.name());
                }
                for (const auto& rec : kw) {
                    for (const auto& it : rec) {
                        std::string path = kw.name() + "[" + std::to_string(r) + "]." + it.name();
                        const bool hasDim = dimensioned.count(it.name()) > 0;
                        for (size_t i = 0; i < it.data_size(); ++i) {
                            Ent e; e.path = path + "[" + std::to_string(i) + "]";
                            const char fl = it.defaultApplied(i) ? 'D' : 'V';
                            if (!it.hasValue(i)) { if (it.getType() != type_tag::string && it.getType() != type_tag::raw_string) { e.txt = std::string(1, fl) + "!"; sec.ents.push_back(e); } continue; }
                            if (it.getType() == type_tag::fdouble) {
                                Ent f = e; f.txt = std::string(1, fl); sec.ents.push_back(f);
                                if (!hasDim) continue;
                                e.num = true;
                                e.v = it.getSIDouble(i);
                                sec.ents.push_back(e);
                            } else if (it.getType() == type_tag::uda) {
                                auto u = it.get<UDAValue>(i);
                                Ent f = e; f.txt = std::string(1, fl); sec.ents.push_back(f);
                                if (u.is<double>() && hasDim) { e.num = true; e.v = u.getSI(); sec.ents.push_back(e); }
                            } else if (it.getType() == type_tag::integer) { e.txt = fl + std::to_string(it.get<int>(i)); sec.ents.push_back(e); }
                        }
                    }
                    ++r;
                }
            }
            mo.sections.push_back(std::move(sec));
        }
        mo.stage = "EclipseState";
        EclipseState es(deck);
        { ObsSection sec; sec.name = "eclipse-state"; NumVisitor v(sec.ents, "EclipseState"); v(es); mo.sections.push_back(std::move(sec)); }
        {
            ObsSection sec; sec.name = "field-properties";
            const auto& fp = es.fieldProps();
            auto keys = fp.keys<double>();
            std::sort(keys.begin(), keys.end());
            for (auto& k : keys) { const auto& d = fp.get_double(k); Ent t; t.path = k; t.txt = "n=" + std::to_string(d.size()); sec.ents.push_back(t); size_t i = 0; for (double x : d) { Ent e; e.path = k + "[" + std::to_string(i++) + "]"; e.num = true; e.v = x; sec.ents.push_back(e); } }
            auto porv = fp.porv(true);
            size_t i = 0; for (double x : porv) { Ent e; e.path = "PORV[" + std::to_string(i++) + "]"; e.num = true; e.v = x; sec.ents.push_back(e); }
            mo.sections.push_back(std::move(sec));
        }
        {
            ObsSection sec; sec.name = "grid";
            const auto& g = es.getInputGrid();
            Ent t; t.path = "active"; t.txt = std::to_string(g.getNumActive()); sec.ents.push_back(t);
            for (size_t c = 0; c < g.getCartesianSize(); ++c) {
                Ent e; e.num = true;
                e.path = "volume[" + std::to_string(c) + "]"; e.v = g.getCellVolume(c); sec.ents.push_back(e);
                auto ctr = g.getCellCenter(c);
                for (int q = 0; q < 3; ++q) { e.path = "center" + std::to_string(q) + "[" + std::to_string(c) + "]"; e.v = ctr[q]; sec.ents.push_back(e); }
                e.path = "thickness[" + std::to_string(c) + "]"; e.v = g.getCellThickness(c); sec.ents.push_back(e);
            }
            mo.sections.push_back(std::move(sec));
        }
        mo.stage = "Schedule";
        Schedule sched(deck, es, pc, eg, python);
        eg.clear();
        {
            ObsSection sec; sec.name = "schedule";
            SummaryState st(TimeService::now(), 0.0);
            for (size_t step = 0; step < sched.size(); ++step) {
                const std::string sp = "step" + std::to_string(step);
                if (step + 1 < sched.size()) { Ent e; e.path = sp + "/length"; e.num = true; e.v = sched.stepLength(step); sec.ents.push_back(e); }
                { NumVisitor v(sec.ents, sp); v(sched[step]); }
                // evaluated limits and targets (what a simulator sees)
                for (const auto& wn : sched.wellNames(step)) {
                    const auto& w = sched.getWell(wn, step);
                    auto add = [&](const char* what, double val) { Ent e; e.path = sp + "/" + wn + "/" + what; e.num = true; e.v = val; sec.ents.push_back(e); };
                    add("ref_depth", w.getRefDepth());
                    if (w.isProducer()) { auto c = w.productionControls(st); add("oil_rate", c.oil_rate); add("water_rate", c.water_rate); add("gas_rate", c.gas_rate); add("liquid_rate", c.liquid_rate); add("resv_rate", c.resv_rate); add("bhp_limit", c.bhp_limit); add("thp_limit", c.thp_limit); add("alq", c.alq_value); }
                    else { auto c = w.injectionControls(st); add("surface_rate", c.surface_rate); add("reservoir_rate", c.reservoir_rate); add("bhp_limit", c.bhp_limit); add("thp_limit", c.thp_limit); }
                }
                for (const auto& gn : sched.groupNames(step)) {
                    const auto& g = sched.getGroup(gn, step);
                    auto add = [&](const char* what, double val) { Ent e; e.path = sp + "/" + gn + "/" + what; e.num = true; e.v = val; sec.ents.push_back(e); };
                    if (g.isProductionGroup()) { auto c = g.productionControls(st); add("oil_target", c.oil_target); add("water_target", c.water_target); add("gas_target", c.gas_target); add("liquid_target", c.liquid_target); add("resv_target", c.resv_target); }
                    for (Phase ph : {Phase::WATER, Phase::GAS}) if (g.hasInjectionControl(ph)) { auto c = g.injectionControls(ph, st); add("inj_surface_max_rate", c.surface_max_rate); add("inj_resv_max_rate", c.resv_max_rate); }
                    // group economic limits (GECON): minimum oil and gas rates, maximum water cut, gas-oil ratio, water-gas ratio
                    const auto& ge = sched[step].gecon();
                    if (ge.has_group(gn)) { const auto& q = ge.get_group(gn); auto si = [](const UDAValue& u) { return u.is<double>() ? u.getSI() : 0.0; };
                        add("gecon_min_oil_rate", si(q.minOilRate())); add("gecon_min_gas_rate", si(q.minGasRate())); add("gecon_max_water_cut", si(q.maxWaterCut())); add("gecon_max_gas_oil_ratio", si(q.maxGasOilRatio())); add("gecon_max_water_gas_ratio", si(q.maxWaterGasRatio())); }
                    const auto& gc = sched[step].gconsump();
                    if (gc.has(gn)) { auto q = gc.get(gn, st); add("gconsump_consumption_rate", q.consumption_rate); add("gconsump_import_rate", q.import_rate); }
                }
            }
            mo.sections.push_back(std::move(sec));
        }
        mo.ok = true;
    } catch (const std::exception& e) { mo.err = e.what(); }
}

// the site of an entry: its path with every number replaced by '#'
static std::string siteOf(const std::string& path) {
    std::string o;
    for (char c : path) { if (std::isdigit((unsigned char)c)) { if (o.empty() || o.back() != '#') o += '#'; } else o += c; }
    return o;
}

static int runModel(const vh::Args& args, vh::Reporter& rep, Env& env) {
    auto python = std::make_shared<Python>();
    rep.run_cases([&](long idx, Rng& rng) {
        ModelInfo mi;
        PhysText p = generateModel(rng, mi);
        const bool vfpUnitsDefaulted = rng.chance(0.3);
        std::string text[4];
        ModelObs obs[4];
        for (int s = 0; s < 4; ++s) {
            text[s] = p.render(s);
            auto rep1 = [&](const std::string& what, const std::string& with) { size_t q; while ((q = text[s].find(what)) != std::string::npos) text[s].replace(q, what.size(), with); };
            rep1("@UNITS@", SYSKEY[s]);
            // the table's own UNITS item: the deck's system, or defaulted (the library knows no 'PVT-M' tables)
            rep1("'@VFPUNITS@'", s == 3 || vfpUnitsDefaulted ? std::string("1*") : "'" + std::string(SYSKEY[s]) + "'");
            observeModel(env.parser, text[s], python, obs[s]);
        }
        for (auto& f : mi.features) rep.cover("model_feature", f);
        for (auto& d : p.dims) rep.cover("model_dimension", d);
        rep.count("physical_values_written", p.nvalues);
        rep.count("items_defaulted", p.ndefaults);
        auto witness = [&](int s) { return std::string("--- METRIC ---\n") + text[0] + "--- " + SYSKEY[s] + " ---\n" + text[s]; };
        if (!obs[0].ok) {
            // the generator wrote something the library refuses in METRIC already: not a unit matter
            rep.count("model_refused_in_metric"); rep.cover("model_refused_stage", obs[0].stage + ": " + obs[0].err.substr(0, 80));
            if (args.replaying) fprintf(stderr, "%s\n%s\n", obs[0].err.c_str(), text[0].c_str());
            return;
        }
        long compared = 0;
        for (int s = 1; s < 4; ++s) {
            if (!obs[s].ok) {
                rep.violation(std::string("model-refused:") + SYSKEY[s] + ":" + obs[s].stage, std::string("the model is accepted in METRIC but refused in ") + SYSKEY[s] + " (" + obs[s].stage + "): " + obs[s].err.substr(0, 300), witness(s) + "--- exception ---\n" + obs[s].err + "\n");
                continue;
            }
            for (size_t q = 0; q < obs[0].sections.size(); ++q) {
                const auto& A = obs[0].sections[q].ents; const auto& B = obs[s].sections[q].ents;
                const std::string& sn = obs[0].sections[q].name;
                size_t nmin = std::min(A.size(), B.size());
                int reported = 0;
                bool structural = false;
                for (size_t i = 0; i < nmin && reported < 3; ++i) {
                    const Ent& a = A[i]; const Ent& b = B[i];
                    if (a.path == "VFPPROD[0].UNITS[0]" && b.path == a.path) continue;     // written differently on purpose (see rendering)
                    // WCONINJE item 10 carries the dimension of Rv (liquid/gas) in the keyword definition; for an OIL injector the number
                    // is Rs (gas/liquid) and the handler undoes the item's conversion by hand.  The Deck level value is therefore not a
                    // physical quantity for that injector type; the well's rsRvInj in the schedule section is what is compared.
                    if (sn == "deck" && a.path == b.path && a.path.find("WCONINJE[") == 0 && a.path.find("].VAPOIL_C[") != std::string::npos) continue;
                    if (a.path != b.path || a.num != b.num || (!a.num && a.txt != b.txt)) {
                        std::string site = siteOf(a.path);
                        rep.violation("model-structure-differs:" + sn + ":" + site.substr(0, 80), sn + ": entry " + a.path + " is '" + (a.num ? g17(a.v) : a.txt) + "' in METRIC but " + b.path + " '" + (b.num ? g17(b.v) : b.txt) + "' in " + SYSKEY[s],
                                      witness(s));
                        structural = true;
                        break;
                    }
                    if (!a.num) continue;
                    // 1e-12 for everything that is read and converted.  Cell volumes, thicknesses, centres and pore volumes are
                    // *computed* from corner coordinates by differences and determinants (cells of per-cell DX/DY can be slivers
                    // of a few m^3 between coordinates of several 100 m): 1e-9 relative to at least 1 m / 1000 m^3 / 100 m^3.
                    // The same holds for what the library computes from that geometry and from table look-ups: connection factors and
                    // equivalent radii (CTFProperties: r0 = rw exp(2 pi Kh/CF - S) ...), aquifer face areas and aquifer constants.
                    const bool geometry = sn == "grid" || (sn == "field-properties" && a.path.compare(0, 4, "PORV") == 0) ||
                                          a.path.find("CTFProperties") != std::string::npos || a.path.find("Aquanc") != std::string::npos ||
                                          a.path.find("AquiferCT") != std::string::npos || a.path.find("Aquifetp") != std::string::npos;
                    const double tol = geometry ? 1e-9 : 1e-12;
                    const double floor_ = !geometry ? 0.0 : (a.path.compare(0, 6, "volume") == 0 ? 1000.0 : (a.path.compare(0, 4, "PORV") == 0 ? 100.0 : 1.0));
                    double e = vh::reldiff(a.v, b.v, floor_);
                    // a user defined argument without Dimension in both decks: a pure number (equal) or a context dependent
                    // quantity that is converted on use - those are observed through the evaluated controls below
                    if (a.udaNoDim && b.udaNoDim && e > 1e-12) { rep.count("uda_without_dimension_not_compared"); continue; }
                    ++compared;
                    if (e <= tol) rep.maxof(std::string("max_rel_diff_within_tolerance_") + (geometry ? "computed_quantities" : sn.c_str()), e);
                    if (!(e <= tol)) {
                        std::string site = siteOf(a.path);
                        ++reported;
                        // the production limits of P1 after a WELTARG on an item that the preceding WCONPROD defaulted: named situation
                        for (const auto& wn : mi.weltargOnDefaultedItem)
                            if ((a.path.find("/" + wn + "/") != std::string::npos || a.path.find("{" + wn + "}") != std::string::npos) &&
                                (a.path.find("WellProductionProperties") != std::string::npos || a.path.find("WellInjectionProperties") != std::string::npos || a.path.find("_rate") != std::string::npos || a.path.find("_limit") != std::string::npos))
                                site += ":after-WELTARG-on-item-defaulted-in-WCONPROD/WCONINJE";
                        if (mi.addTempi && sn == "field-properties" && a.path.compare(0, 5, "TEMPI") == 0) site = "TEMPI-after-ADD";
                        if (site.find(":after-WELTARG") != std::string::npos) site = "well-limit-after-WELTARG-on-item-defaulted-in-WCONPROD/WCONINJE";
                        rep.violation("model-si-differs:" + sn + ":" + site.substr(0, 140), sn + ": " + a.path + " is " + g17(a.v) + " (SI) from the METRIC deck but " + g17(b.v) + " from the " + SYSKEY[s] + " deck (rel. diff " + g17(e) + ")", witness(s));
                    }
                }
                if (!structural && A.size() != B.size()) rep.violation("model-structure-differs:" + sn + ":length", sn + ": " + std::to_string(A.size()) + " entries in METRIC, " + std::to_string(B.size()) + " in " + SYSKEY[s], witness(s));
            }
        }
        rep.count("si_values_compared", compared);
        rep.count("models_compared");
        rep.case_done(vh::fnv(text[1]), p.nvalues > 50);
        if (idx == 0) rep.sample(text[1]);
    });
    return 0;
}

int main(int argc, char** argv) {
    vh::Args args = vh::parse_args(argc, argv);
    vh::Reporter rep(args, "C02");
    const std::string part = args.get("part", "tables");
    Env env;
    int rc = 0;
    if (part == "tables") rc = runTables(args, rep, env);
    else if (part == "kw") { calibrateBtu(env.us[1]); rc = runKw(args, rep, env); }
    else if (part == "model") { calibrateBtu(env.us[1]); rc = runModel(args, rep, env); }
    else { fprintf(stderr, "c02_units: unknown part '%s'\n", part.c_str()); return 2; }
    rep.finish();
    return rc;
}
