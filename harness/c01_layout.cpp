// C01 — Deck content is invariant under lexical re-layout of the input.
//
// Relational monitor: a structured keyword text T (from the reflective grammar generator, or a shipped deck)
// and R(T), a random composition of meaning-preserving layout rewrites, are both parsed with a strict
// ParseContext; the complete Deck dumps (keywords, records, items, types, sizes, values bit for bit,
// default flags, SI data) must be identical, and R(T) must not be refused when T is accepted.
//
// mode=gen (default): idx < |catalog| * sweep  -> single keyword decks cycling through every generatable
//                     keyword; larger idx -> multi keyword decks with explicit size-defining keywords.
// mode=shipped:       idx -> shipped deck (tests/*.DATA etc.), conservative line-level rewrites.
#include "common/gkw.hpp"
#include <filesystem>

using namespace gkw;
namespace fs = std::filesystem;

struct RuleStats { std::map<std::string, long> n; void hit(const char* r) { ++n[r]; } };

static std::string randCase(const std::string& s, Rng& rng, RuleStats& rs) {
    int m = (int)rng.below(4);
    if (m == 0) return s;
    std::string o = s;
    for (auto& c : o) { if (m == 1 || (m == 2 && rng.chance(0.5))) c = (char)std::tolower((unsigned char)c); }
    if (m == 3) o[0] = (char)std::tolower((unsigned char)o[0]);
    if (o != s) rs.hit("keyword-case");
    return o;
}
static std::string blanks(Rng& rng) {
    static const char* b[] = {" ", "  ", "\t", " \t ", "    ", "\t\t"};
    return b[rng.below(6)];
}
// The parser cleans a file with a second routine as soon as the text mentions a keyword holding code (PYINPUT, DYNAMICR), in a
// comment too; a quarter of the cases write such comments so that both routines meet every layout.
static bool g_codeWordComments = false;
static std::string comment(Rng& rng) {
    if (g_codeWordComments && rng.chance(0.3)) return rng.chance(0.5) ? "-- this case has no PYINPUT section" : "-- DYNAMICR is not used";
    static const char* c[] = {"-- plain comment", "--", "-- it's a / comment", "--'unbalanced", "-- 1* 2*3 / /", "-- \"dq\" 'sq' / --", "---- dashes", "-- INCLUDE 'x' /", "-- PORO", "-- 3.5\" tubing", "--\""};
    return c[rng.below(11)];
}
static std::string afterSlashText(Rng& rng) {
    static const char* c[] = {" trailing text", " 42 * here", " end of record 1* 2*3", " PORO", "\tx", " -- c", " text -- and comment"};
    return c[rng.below(7)];
}
static std::string fillerLines(Rng& rng, RuleStats& rs) {
    std::string s;
    int n = (int)rng.below(3);
    for (int i = 0; i < n; ++i) {
        if (rng.chance(0.5)) { s += rng.chance(0.5) ? "\n" : "  \t \n"; rs.hit("blank-line"); }
        else { s += (rng.chance(0.5) ? "" : "   ") + comment(rng) + "\n"; rs.hit("comment-line"); }
    }
    return s;
}

static std::string renderRecordVariant(const Kw& k, Rec r, bool lastRecordOfOpenKw, Rng& rng, RuleStats& rs) {
    (void)lastRecordOfOpenKw;
    std::string s;
    if (!r.freeText) {
        // rule: end the record early (trailing defaulted SINGLE items)
        if (rng.chance(0.5)) {
            size_t keep = k.fixedNoMin ? 0 : 1;
            while (r.toks.size() > keep && r.toks.back().isDefault && r.toks.back().single) { r.toks.pop_back(); rs.hit("trailing-defaults-dropped"); }
        }
        // rule: runs of identical tokens -> n*v, runs of defaults -> n*
        std::vector<Tok> m;
        for (size_t i = 0; i < r.toks.size();) {
            size_t j = i;
            while (j < r.toks.size() && r.toks[j].text == r.toks[i].text && r.toks[j].isDefault == r.toks[i].isDefault && r.toks[j].mergeable) ++j;
            size_t n = j - i;
            if (n > 1 && rng.chance(0.5)) {
                // optionally merge only a part of the run
                size_t take = rng.chance(0.7) ? n : 2 + rng.below(n - 1);
                Tok t = r.toks[i];
                t.text = r.toks[i].isDefault ? std::to_string(take) + "*" : std::to_string(take) + "*" + r.toks[i].text;
                t.bareAlpha = false;
                m.push_back(t);
                rs.hit(r.toks[i].isDefault ? "defaults-merged-n*" : "values-merged-n*v");
                i += take;
            } else {
                if (n == 0) n = 1;
                // a lone default may also be written "*"?  (not in the statement: keep "1*")
                m.push_back(r.toks[i]);
                i += 1;
            }
        }
        r.toks = m;
    }
    s += rng.chance(0.5) ? "   " : (rng.chance(0.5) ? "\t" : "");
    for (size_t i = 0; i < r.toks.size(); ++i) {
        s += r.toks[i].text;
        bool last = i + 1 == r.toks.size();
        if (!r.freeText && !last && !r.toks[i + 1].bareAlpha && rng.chance(0.2)) {
            // rule: line break between items (never before a bare keyword-like word)
            if (rng.chance(0.4)) { s += "  " + comment(rng); rs.hit("comment-eol"); }
            s += "\n";
            if (rng.chance(0.3)) { s += comment(rng) + "\n"; rs.hit("comment-line"); }
            if (rng.chance(0.2)) { s += "\n"; rs.hit("blank-line"); }
            s += rng.chance(0.5) ? "  " : "";
            rs.hit("line-break-between-items");
        } else if (!last) {
            std::string b = blanks(rng);
            if (b != " ") rs.hit("blanks-tabs");
            s += b;
        }
    }
    if (!r.freeText && !r.toks.empty() && rng.chance(0.08)) { s += "\n"; rs.hit("slash-on-own-line"); if (rng.chance(0.5)) s += " "; }
    else s += rng.chance(0.7) ? " " : (r.toks.empty() ? " " : blanks(rng));
    s += "/";
    if (rng.chance(0.25)) { s += afterSlashText(rng); rs.hit("text-after-record-slash"); }
    else if (rng.chance(0.2)) { s += "  " + comment(rng); rs.hit("comment-eol"); }
    s += "\n";
    return s;
}

static std::string renderVariant(const Kw& k, Rng& rng, RuleStats& rs) {
    if (k.verbatim) return k.text;
    std::string s;
    if (rng.chance(0.3)) { s += blanks(rng); rs.hit("blanks-tabs"); }
    s += randCase(k.name, rng, rs);
    if (rng.chance(0.3)) { s += blanks(rng) + comment(rng); rs.hit("comment-eol"); }
    else if (rng.chance(0.2)) { s += "   "; }
    s += "\n";
    for (size_t i = 0; i < k.recs.size(); ++i) {
        s += fillerLines(rng, rs);
        s += renderRecordVariant(k, k.recs[i], false, rng, rs);
        if (i < k.slashAfter.size() && k.slashAfter[i]) {
            s += fillerLines(rng, rs);
            s += rng.chance(0.5) ? "/" : " /";
            if (rng.chance(0.25)) { s += afterSlashText(rng); rs.hit("text-after-table-slash"); }
            s += "\n";
        }
    }
    if (k.finalSlash) {
        s += fillerLines(rng, rs);
        s += rng.chance(0.5) ? "/" : "  /";
        if (rng.chance(0.3)) { s += afterSlashText(rng); rs.hit("text-after-keyword-slash"); }
        s += "\n";
    }
    return s;
}

struct Env {
    Parser parser;
    ParseContext strict = strictContext();
    Catalog cat{parser};
    std::string scratch;
};

// write the variant split over INCLUDE files (at keyword boundaries) and parse the root file
static std::string includeSplit(const std::vector<std::string>& kwTexts, const std::string& dir, Rng& rng, RuleStats& rs, std::string& rootOut) {
    fs::remove_all(dir);
    fs::create_directories(dir + "/sub/deep");
    std::string root;
    bool usePaths = rng.chance(0.3);
    // alias names use every character class the parser documents for them: letters of both cases, digits, '-' and '_'
    static const char* ALIASES[] = {"ALIAS", "INC_DIR", "inc-dir2", "A_b-3", "X9", "my_include_files_2024"};
    const std::string alias = ALIASES[rng.below(6)];
    // a second, shorter alias that is a prefix of the first up to a separator must not be picked up instead
    const std::string decoy = alias.find_first_of("_-") != std::string::npos ? alias.substr(0, alias.find_first_of("_-")) : std::string();
    if (usePaths) {
        root += "PATHS\n '" + alias + "' '" + dir + "/sub' /\n";
        if (!decoy.empty() && rng.chance(0.5)) root += " '" + decoy + "' '" + dir + "/nowhere' /\n";
        root += "/\n";
        rs.hit("include-paths-alias");
        rs.hit(alias.find('_') != std::string::npos ? "include-alias-name-with-underscore" : alias.find('-') != std::string::npos ? "include-alias-name-with-hyphen" : "include-alias-name-alnum");
    }
    int nfile = 0;
    std::function<std::string(size_t, size_t, int)> emit = [&](size_t a, size_t b, int depth) -> std::string {
        // text for keywords [a,b): either inline or through an include file
        std::string out;
        size_t i = a;
        while (i < b) {
            if (rng.chance(0.5) || depth > 2) { out += kwTexts[i]; ++i; continue; }
            size_t j = i + 1 + rng.below(b - i);
            std::string body = depth < 2 && j - i > 1 && rng.chance(0.5) ? emit(i, j, depth + 1) : std::string();
            if (body.empty()) for (size_t q = i; q < j; ++q) body += kwTexts[q];
            std::string fname = "inc" + std::to_string(nfile++) + (rng.chance(0.5) ? ".inc" : ".DATA");
            int where = (int)rng.below(usePaths ? 4 : 3);
            std::string ref, path;
            if (where == 0) { path = dir + "/" + fname; ref = fname; rs.hit("include-relative"); }
            else if (where == 1) { path = dir + "/sub/deep/" + fname; ref = "sub/deep/" + fname; rs.hit("include-relative-subdir"); }
            else if (where == 2) { path = dir + "/sub/" + fname; ref = path; rs.hit("include-absolute"); }
            else { path = dir + "/sub/" + fname; ref = "$" + alias + "/" + fname; rs.hit("include-alias"); }
            if (rng.chance(0.3)) { body += "\nENDINC\n\nTHIS TEXT IS NEVER READ 'x /\n"; rs.hit("endinc"); }
            vh::write_file(path, body);
            out += std::string(rng.chance(0.5) ? "INCLUDE\n" : "include  -- c\n") + "  '" + ref + "' /" + (rng.chance(0.3) ? " text" : "") + "\n";
            if (depth > 0) rs.hit("include-nested");
            i = j;
        }
        return out;
    };
    root += emit(0, kwTexts.size(), 0);
    rootOut = root;
    std::string rp = dir + "/ROOT.DATA";
    vh::write_file(rp, root);
    return rp;
}

static int run_gen(const vh::Args& args, vh::Reporter& rep, Env& env) {
    const long ncat = (long)env.cat.names.size();
    const long sweep = args.geti("sweep", 4);   // passes over the whole catalog with single-keyword decks
    GenOpts g;
    rep.count("catalog_keywords", args.shard == 0 ? ncat : 0);
    rep.run_cases([&](long idx, Rng& rng) {
        DeckT deck;
        g_codeWordComments = rng.chance(0.25);
        if (g_codeWordComments) rep.count("cases_with_code_keyword_names_in_comments");
        bool multi = idx >= ncat * sweep;
        if (!multi) {
            Kw k; std::vector<Kw> prelude;
            const std::string& name = env.cat.names[idx % ncat];
            bool withPrelude = rng.chance(0.5);
            if (!genKeyword(env.parser, name, rng, g, k, withPrelude ? &prelude : nullptr)) { rep.count("not_generatable"); rep.cover("not_generatable", name); return; }
            for (auto& p : prelude) deck.kws.push_back(p);
            deck.kws.push_back(k);
        } else {
            int n = 2 + (int)rng.below(5);
            for (int i = 0; i < n; ++i) {
                Kw k; std::vector<Kw> prelude;
                const std::string& name = env.cat.names[rng.below(ncat)];
                if (!genKeyword(env.parser, name, rng, g, k, &prelude)) continue;
                bool dup = false;
                for (auto& p : prelude) { for (auto& e : deck.kws) if (e.name == p.name) dup = true; }
                if (dup) continue;  // a second, different size keyword would change the meaning of earlier ones: keep one
                for (auto& p : prelude) deck.kws.push_back(p);
                deck.kws.push_back(k);
            }
            if (deck.kws.empty()) { rep.count("not_generatable"); return; }
        }
        std::string base = renderCanon(deck);
        std::string d1;
        try {
            ErrorGuard eg;
            Deck D = env.parser.parseString(base, env.strict, eg);
            d1 = dumpDeck(D);
            if (D.size() != deck.kws.size()) { rep.count("base_keyword_count_differs"); }
        } catch (const std::exception& e) {
            rep.count("base_refused");
            rep.cover("base_refused_class", deck.kws.back().cls);
            return;
        }
        RuleStats rs;
        std::vector<std::string> kwTexts;
        for (auto& k : deck.kws) { kwTexts.push_back(fillerLines(rng, rs) + renderVariant(k, rng, rs)); }
        if (rng.chance(0.3)) { kwTexts.push_back(fillerLines(rng, rs)); }
        std::string variant, how = "string";
        std::string d2, err;
        bool threw = false;
        try {
            ErrorGuard eg;
            if (rng.chance(0.25) && kwTexts.size() >= 1) {
                how = "include-files";
                std::string rootText;
                std::string rp = includeSplit(kwTexts, env.scratch + "/inc", rng, rs, rootText);
                variant = "[root file]\n" + rootText;
                for (auto& e : fs::recursive_directory_iterator(env.scratch + "/inc"))
                    if (e.is_regular_file() && e.path().filename() != "ROOT.DATA") variant += "[" + e.path().string() + "]\n" + vh::read_file(e.path().string());
                Deck D = env.parser.parseFile(rp, env.strict, eg);
                // PATHS / INCLUDE keywords are consumed by the parser and never appear in the Deck
                d2 = dumpDeck(D);
            } else {
                for (auto& t : kwTexts) variant += t;
                if (rng.chance(0.1)) { variant.pop_back(); rs.hit("no-final-newline"); }
                Deck D = env.parser.parseString(variant, env.strict, eg);
                d2 = dumpDeck(D);
            }
        } catch (const std::exception& e) { threw = true; err = e.what(); }
        long nrules = 0;
        for (auto& kv : rs.n) { nrules += kv.second; rep.cover("rule", kv.first, kv.second); }
        for (auto& k : deck.kws) { rep.cover("size_class", k.cls); }
        rep.cover("keyword", deck.kws.back().name);
        rep.cover("parse_route", how);
        rep.count("rule_applications", nrules);
        rep.count("pairs_compared");
        bool hasRecord = false;
        for (auto& k : deck.kws) if (!k.recs.empty()) hasRecord = true;
        rep.case_done(vh::fnv(base + "\x01" + variant), hasRecord && nrules > 0);
        if (idx < 2 || (multi && idx < ncat * sweep + 1)) rep.sample("--- base ---\n" + base + "--- variant (" + how + ") ---\n" + variant);
        std::string kwn = deck.kws.back().name;
        if (threw) {
            rep.violation("relayout-refused:" + deck.kws.back().cls, "re-laid-out text of " + kwn + " is refused while the base text parses: " + err.substr(0, 300),
                          "--- base ---\n" + base + "--- variant (" + how + ") ---\n" + variant + "--- exception ---\n" + err + "\n");
        } else if (d1 != d2) {
            rep.violation("relayout-differs:" + deck.kws.back().cls, "Deck of re-laid-out text differs from Deck of base text (" + kwn + ")",
                          "--- base ---\n" + base + "--- variant (" + how + ") ---\n" + variant + "--- dump base ---\n" + d1 + "--- dump variant ---\n" + d2);
        }
    });
    return 0;
}

// ---------------------------------------------------------------------------------------------
// shipped decks: conservative, line-level rewrites that need no knowledge of the record structure
// ---------------------------------------------------------------------------------------------
static std::vector<std::string> shippedDecks() {
    std::vector<std::string> v;
    const std::string root = std::string(getenv("VERIF_REPO") ? getenv("VERIF_REPO") : "/repo") + "/tests";
    for (auto& e : fs::recursive_directory_iterator(root)) {
        if (!e.is_regular_file()) continue;
        auto ext = e.path().extension().string();
        // the include*Symlink* decks test file-system resolution of the deck's own location; a scratch copy changes their meaning
        if (e.path().string().find("includeSymlinkTestdata") != std::string::npos) continue;
        if (ext == ".DATA" || ext == ".data") v.push_back(e.path().string());
    }
    std::sort(v.begin(), v.end());
    return v;
}

static bool lineHasQuoteOrSlashIssues(const std::string& l) { return l.find('\'') != std::string::npos || l.find('"') != std::string::npos; }

static int run_shipped(const vh::Args& args, vh::Reporter& rep, Env& env) {
    auto decks = shippedDecks();
    rep.count("shipped_decks_found", args.shard == 0 ? (long)decks.size() : 0);
    if (decks.empty()) return 0;
    // lenient context for the shipped decks (several use unsupported keywords on purpose); the *same* context
    // is used for both texts, and the comparison additionally requires the same set of recorded parse problems.
    rep.run_cases([&](long idx, Rng& rng) {
        const std::string& path = decks[idx % decks.size()];
        std::string text = vh::read_file(path);
        if (text.find("PYINPUT") != std::string::npos || text.find("PYACTION") != std::string::npos) { rep.count("skipped_python_deck"); return; }
        g_codeWordComments = rng.chance(0.25);
        if (g_codeWordComments) rep.count("cases_with_code_keyword_names_in_comments");
        ParseContext pc; pc.update(InputErrorAction::IGNORE);
        std::string d1;
        std::vector<std::pair<size_t, std::string>> kwlines;   // line numbers where keywords start
        try {
            ErrorGuard eg;
            Deck D = env.parser.parseFile(path, pc, eg);
            d1 = dumpDeck(D);
            for (const auto& kw : D) if (kw.location().filename == path) kwlines.emplace_back(kw.location().lineno, kw.name());
            eg.clear();
        } catch (const std::exception& e) { rep.count("base_refused"); rep.cover("base_refused_deck", fs::path(path).filename().string()); return; }
        // rewrite
        std::vector<std::string> lines;
        { std::istringstream is(text); std::string l; while (std::getline(is, l)) { if (!l.empty() && l.back() == '\r') l.pop_back(); lines.push_back(l); } }
        std::set<size_t> kwl; for (auto& k : kwlines) kwl.insert(k.first);
        RuleStats rs;
        std::string out;
        bool inTitle = false, inCode = false;
        for (size_t i = 0; i < lines.size(); ++i) {
            std::string l = lines[i];
            size_t lineno = i + 1;
            std::string first; { std::istringstream is(l); is >> first; }
            std::string up = first; for (auto& c : up) c = (char)std::toupper((unsigned char)c);
            bool isKwLine = kwl.count(lineno) > 0;
            if (inTitle) { out += l + "\n"; if (!first.empty()) inTitle = false; continue; }
            if (isKwLine && up == "TITLE") { inTitle = true; out += l + "\n"; continue; }
            if (isKwLine) {
                // keyword line: case of the name, trailing comment, blank/comment lines before it
                if (rng.chance(0.4)) { out += fillerLines(rng, rs); }
                size_t p = l.find(first);
                std::string rest = l.substr(p + first.size());
                bool restIsBlank = rest.find_first_not_of(" \t") == std::string::npos;
                std::string nm = randCase(first, rng, rs);
                std::string nl = l.substr(0, p) + nm + rest;
                if (restIsBlank && rng.chance(0.3)) { nl += "   " + comment(rng); rs.hit("comment-eol"); }
                if (rng.chance(0.2)) { nl = blanks(rng) + nl; rs.hit("blanks-tabs"); }
                out += nl + "\n";
                continue;
            }
            // data line: only rules that are safe without knowing the record structure
            size_t cpos = l.find("--");
            bool hasComment = cpos != std::string::npos;
            bool quotes = lineHasQuoteOrSlashIssues(l);
            if (first.empty()) { // blank line: duplicate or replace by a comment line
                out += l + "\n";
                if (rng.chance(0.3)) { out += comment(rng) + "\n"; rs.hit("comment-line"); }
                continue;
            }
            if (!hasComment && !quotes && rng.chance(0.25)) { l += "   " + comment(rng); rs.hit("comment-eol"); }
            else if (!hasComment && !quotes && rng.chance(0.15)) { l += " \t "; rs.hit("blanks-tabs"); }
            if (rng.chance(0.15)) { l = "  " + l; rs.hit("blanks-tabs"); }
            out += l + "\n";
            if (rng.chance(0.1)) { out += "\n"; rs.hit("blank-line"); }
        }
        long nrules = 0;
        for (auto& kv : rs.n) { nrules += kv.second; rep.cover("rule", kv.first, kv.second); }
        // Never write under /repo: the variant goes into a scratch mirror of the deck's directory in which every
        // sibling entry (and those of two parent levels, for ../ includes) is a symbolic link to the original.
        std::string dir = env.scratch + "/shipped";
        fs::remove_all(dir);
        const fs::path D = fs::path(path).parent_path(), P = D.parent_path(), PP = P.parent_path();
        const fs::path PPm = fs::path(dir) / "pp", Pm = PPm / P.filename(), Dm = Pm / D.filename();
        fs::create_directories(Dm);
        auto mirror = [](const fs::path& src, const fs::path& dst, const fs::path& except) {
            std::error_code ec;
            for (auto& e : fs::directory_iterator(src, ec)) {
                if (e.path().filename() == except.filename()) continue;
                fs::create_symlink(e.path(), dst / e.path().filename(), ec);
            }
        };
        mirror(PP, PPm, P); mirror(P, Pm, D); mirror(D, Dm, fs::path(path));
        const std::string& fixed = out;
        std::string vp = (Dm / fs::path(path).filename()).string();
        vh::write_file(vp, fixed);
        std::string d2, err; bool threw = false;
        try { ErrorGuard eg; Deck D = env.parser.parseFile(vp, pc, eg); d2 = dumpDeck(D); eg.clear(); }
        catch (const std::exception& e) { threw = true; err = e.what(); }
        rep.count("pairs_compared");
        rep.count("rule_applications", nrules);
        rep.cover("deck", fs::path(path).filename().string());
        rep.case_done(vh::fnv(fixed), nrules > 0);
        if (idx < 1) rep.sample("deck " + path + ": " + std::to_string(nrules) + " rewrites applied, e.g. first 600 chars of the variant:\n" + fixed.substr(0, 600));
        if (threw) rep.violation("shipped-relayout-refused", "re-laid-out copy of " + path + " refused: " + err.substr(0, 300), "deck: " + path + "\n--- variant ---\n" + fixed + "\n--- exception ---\n" + err);
        else if (d1 != d2) {
            // locate the first differing keyword line
            std::istringstream a(d1), b(d2); std::string la, lb, where;
            while (std::getline(a, la) && std::getline(b, lb)) if (la != lb) { where = "base: " + la.substr(0, 400) + "\nvariant: " + lb.substr(0, 400); break; }
            rep.violation("shipped-relayout-differs", "Deck of re-laid-out copy of " + path + " differs", "deck: " + path + "\n" + where + "\n--- variant ---\n" + fixed);
        }
    });
    return 0;
}

int main(int argc, char** argv) {
    vh::Args args = vh::parse_args(argc, argv);
    vh::Reporter rep(args, "C01");
    Env env;
    env.scratch = vh::scratch_dir(args);
    if (args.get("mode", "gen") == "shipped") run_shipped(args, rep, env);
    else run_gen(args, rep, env);
    rep.finish();
    return 0;
}
