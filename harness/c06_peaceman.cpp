// C06 — Well connection factors obey the Peaceman relation for every COMPDAT input.
//
// One program, two monitors (selected with part=cells | part=hist):
//
//  part=cells  Random cells (DX/DY/DZ over two decades, PERMX/Y/Z over six, NTG in (0,1], inactive cells
//              inside K1..K2) x direction x the 16 explicit/defaulted combinations of CF, Kh, diameter, r0 x
//              skin in [-2, 8] x METRIC/FIELD/LAB/PVT-M go through the real Parser + EclipseState + Schedule.
//              An independent reference (own unit factors, own Peaceman formulas) gives r0, Kh, CF, rw for
//              every connection; the monitor demands CF (ln(r0/rw)+S) = 2 pi Kh, every defaulted quantity at
//              its Peaceman value, every entered quantity stored unchanged, and - second deck - that entering
//              the values the library itself computed changes nothing.
//  part=hist   Histories of COMPDAT (new cells / re-entry), WPIMULT (well-wide, selected by I,J,K and/or
//              completion range), WELOPEN on connections and COMPLUMP over 2..6 report steps, followed by a
//              small reference model of each well's connection list. At every report step every connection
//              is compared with the model, and the connections no keyword of that step selected are compared
//              bit by bit with the previous report step (values, completion number, insert index, relative order).
#include <opm/input/eclipse/Parser/Parser.hpp>
#include <opm/input/eclipse/Parser/ParseContext.hpp>
#include <opm/input/eclipse/Parser/ErrorGuard.hpp>
#include <opm/input/eclipse/Deck/Deck.hpp>
#include <opm/input/eclipse/EclipseState/EclipseState.hpp>
#include <opm/input/eclipse/Schedule/Schedule.hpp>
#include <opm/input/eclipse/Schedule/Well/Well.hpp>
#include <opm/input/eclipse/Schedule/Well/WellConnections.hpp>
#include <opm/input/eclipse/Schedule/Well/Connection.hpp>
#include <opm/input/eclipse/Python/Python.hpp>
#include "common/vh.hpp"
#include <memory>
#include <algorithm>

using vh::Rng;

// ---------------------------------------------------------------------------------------------
// reference: unit factors (written down here, not taken from the library) and Peaceman's formulas
// ---------------------------------------------------------------------------------------------
struct Units { const char* keyword; double len; double trans; };   // SI value of one deck unit of length / of CF
// 1 darcy = (1 cm/s * 1 cP) / (1 atm/cm)
static const double MILLIDARCY = 1e-3 * (1e-2 * 1e-3) / (101325.0 / 1e-2);
static const double PSI = 0.45359237 * 9.80665 / (0.0254 * 0.0254);
static const double BARREL = 42.0 * 231.0 * 0.0254 * 0.0254 * 0.0254;
static const double CP = 1e-3, DAY = 86400.0, HOUR = 3600.0, ATM = 101325.0, BAR = 1e5, FOOT = 0.3048;
static const Units UNITS[4] = {
    {"METRIC", 1.0, CP * 1.0 / (DAY * BAR)},          // m,  cP rm3 / day / bar
    {"FIELD", FOOT, CP * BARREL / (DAY * PSI)},       // ft, cP rb  / day / psi
    {"LAB", 0.01, CP * 1e-6 / (HOUR * ATM)},          // cm, cP rcc / hr  / atm
    {"PVT-M", 1.0, CP * 1.0 / (DAY * ATM)},           // m,  cP rm3 / day / atm
};
static const double TWO_PI = 6.283185307179586476925;

struct Cell { double dz = 1, kx = 1, ky = 1, kz = 1, ntg = 1; bool active = true; };   // deck units (length, mD)

// what a COMPDAT record says (deck units). has* = a positive value was entered; khZero = "0" entered for Kh.
struct Inputs {
    bool hasCF = false, hasKh = false, khZero = false, hasD = false, hasR0 = false;
    double cf = 0, kh = 0, diam = 0, r0 = 0, skin = 0;
    int dir = 2;   // 0 = X, 1 = Y, 2 = Z
};
struct Ref { double CF = 0, Kh = 0, r0 = 0, rw = 0, skin = 0; bool overdetermined = false; bool guardsOk = false; };

// Peaceman values of one connection, SI.  `a`, `b` are the two directions perpendicular to the well.
static Ref reference(const Units& u, double dx, double dy, const Cell& c, const Inputs& in) {
    Ref r;
    const double K[3] = {c.kx * MILLIDARCY, c.ky * MILLIDARCY, c.kz * MILLIDARCY};
    const double D[3] = {dx * u.len, dy * u.len, c.dz * c.ntg * u.len};      // net-to-gross acts on the vertical extent
    const int a = (in.dir + 1) % 3, b = (in.dir + 2) % 3;
    const double r0cell = 0.28 * std::sqrt(std::sqrt(K[b] / K[a]) * D[a] * D[a] + std::sqrt(K[a] / K[b]) * D[b] * D[b])
                          / (std::pow(K[b] / K[a], 0.25) + std::pow(K[a] / K[b], 0.25));
    const double khcell = std::sqrt(K[a] * K[b]) * D[in.dir];
    r.rw = in.hasD ? 0.5 * in.diam * u.len : 0.5 * FOOT;
    r.skin = in.skin;
    const double cfIn = in.cf * u.trans, khIn = in.kh * MILLIDARCY * u.len, r0In = in.r0 * u.len;
    if (in.hasCF && in.hasKh) {
        r.CF = cfIn; r.Kh = khIn;
        if (in.hasR0) { r.r0 = r0In; r.overdetermined = true; }
        else r.r0 = r.rw * std::exp(TWO_PI * r.Kh / r.CF - r.skin);
    } else if (in.hasCF && in.khZero) {
        // Kh = 0 with a CF: Kh from the cell, r0 made compatible (an entered r0 is not used)
        r.CF = cfIn; r.Kh = khcell;
        r.r0 = r.rw * std::exp(TWO_PI * r.Kh / r.CF - r.skin);
    } else {
        r.r0 = in.hasR0 ? r0In : r0cell;
        const double denom = std::log(r.r0 / r.rw) + r.skin;
        if (in.hasCF) { r.CF = cfIn; r.Kh = r.CF * denom / TWO_PI; }
        else { r.Kh = in.hasKh ? khIn : khcell; r.CF = TWO_PI * r.Kh / denom; }
    }
    const bool finite = std::isfinite(r.CF) && std::isfinite(r.Kh) && std::isfinite(r.r0) && r.CF > 0 && r.Kh > 0 && r.r0 > 0;
    // Guards (DESIGN C06): the statement's relation applies for rw < r0 and a positive denominator; outside, the
    // library clamps with min(rw, r0).  r0/rw <= e^45 keeps the back-computed radius far from overflow.
    if (r.overdetermined) r.guardsOk = finite;
    else r.guardsOk = finite && r.r0 > 1.001 * r.rw && std::log(r.r0 / r.rw) + r.skin > 0.05 && std::log(r.r0 / r.rw) < 45.0;
    return r;
}

// ---------------------------------------------------------------------------------------------
// deck text
// ---------------------------------------------------------------------------------------------
static std::string num(double v) { char b[48]; snprintf(b, sizeof b, "%.17g", v); return b; }

struct GridSpec {
    int nx = 1, ny = 1, nz = 1;
    std::vector<double> dxv, dyv;     // DX depends on i only, DY on j only (vertical pillars)
    std::vector<Cell> cells;          // (k*ny + j)*nx + i
    double tops = 1000;
    bool writeNTG = true, writeACTNUM = true;
    Cell& at(int i, int j, int k) { return cells[((size_t)k * ny + j) * nx + i]; }
    const Cell& at(int i, int j, int k) const { return cells[((size_t)k * ny + j) * nx + i]; }
};

template <class F> static void emitArray(std::ostringstream& s, const char* kw, const GridSpec& g, F&& value) {
    s << kw << "\n";
    int n = 0;
    for (int k = 0; k < g.nz; ++k) for (int j = 0; j < g.ny; ++j) for (int i = 0; i < g.nx; ++i) {
        s << " " << value(i, j, k);
        if (++n % 6 == 0) s << "\n";
    }
    s << " /\n";
}

static std::string deckHead(const Units& u, const GridSpec& g) {
    std::ostringstream s;
    s << "RUNSPEC\nDIMENS\n " << g.nx << " " << g.ny << " " << g.nz << " /\nOIL\nWATER\nGAS\n" << u.keyword
      << "\nTABDIMS\n/\nWELLDIMS\n 12 200 4 12 /\nSTART\n 1 JAN 2020 /\nGRID\n";
    emitArray(s, "DX", g, [&](int i, int, int) { return num(g.dxv[i]); });
    emitArray(s, "DY", g, [&](int, int j, int) { return num(g.dyv[j]); });
    emitArray(s, "DZ", g, [&](int i, int j, int k) { return num(g.at(i, j, k).dz); });
    s << "TOPS\n " << g.nx * g.ny << "*" << num(g.tops) << " /\n";
    emitArray(s, "PERMX", g, [&](int i, int j, int k) { return num(g.at(i, j, k).kx); });
    emitArray(s, "PERMY", g, [&](int i, int j, int k) { return num(g.at(i, j, k).ky); });
    emitArray(s, "PERMZ", g, [&](int i, int j, int k) { return num(g.at(i, j, k).kz); });
    s << "PORO\n " << g.nx * g.ny * g.nz << "*0.2 /\n";
    if (g.writeNTG) emitArray(s, "NTG", g, [&](int i, int j, int k) { return num(g.at(i, j, k).ntg); });
    if (g.writeACTNUM) emitArray(s, "ACTNUM", g, [&](int i, int j, int k) { return std::string(g.at(i, j, k).active ? "1" : "0"); });
    s << "PROPS\nSOLUTION\nSCHEDULE\n";
    return s.str();
}

struct Built { std::unique_ptr<Opm::EclipseState> es; std::unique_ptr<Opm::Schedule> sched; };
static Built build(Opm::Parser& parser, const std::string& text, const std::shared_ptr<Opm::Python>& python) {
    Built b;
    Opm::ParseContext pc; Opm::ErrorGuard eg;
    Opm::Deck deck = parser.parseString(text, pc, eg);
    b.es = std::make_unique<Opm::EclipseState>(deck);
    b.sched = std::make_unique<Opm::Schedule>(deck, *b.es, pc, eg, python);
    return b;
}
static std::string errClass(const std::string& w) {
    std::string l = w.substr(0, w.find('\n'));
    std::string o; for (char c : l) if (!std::isdigit((unsigned char)c)) o += c;
    return o.substr(0, 70);
}

// what the library stores for one connection
struct Obs {
    int i = 0, j = 0, k = 0, dir = 2, complnum = 0; size_t sortv = 0; bool open = false;
    double CF = 0, Kh = 0, r0 = 0, rw = 0, skin = 0, wpimult = 1;
};
static Obs observe(const Opm::Connection& c) {
    Obs o;
    o.i = c.getI(); o.j = c.getJ(); o.k = c.getK();
    o.dir = (int)c.dir() - 1;                       // Direction::X = 1, Y = 2, Z = 3
    o.complnum = c.complnum(); o.sortv = c.sort_value();
    o.open = c.state() == Opm::Connection::State::OPEN;
    o.CF = c.CF(); o.Kh = c.Kh(); o.r0 = c.r0(); o.rw = c.rw(); o.skin = c.skinFactor(); o.wpimult = c.wpimult();
    return o;
}
static std::vector<Obs> observeWell(const Opm::Schedule& sched, const std::string& well, size_t step) {
    std::vector<Obs> v;
    for (const auto& c : sched.getWell(well, step).getConnections()) v.push_back(observe(c));
    return v;
}
static std::string obsText(const Obs& o) {
    std::ostringstream s; s.precision(17);
    s << "(" << o.i + 1 << "," << o.j + 1 << "," << o.k + 1 << ") dir=" << "XYZ"[o.dir] << " complnum=" << o.complnum << " insert=" << o.sortv
      << (o.open ? " OPEN" : " SHUT") << " CF=" << o.CF << " Kh=" << o.Kh << " r0=" << o.r0 << " rw=" << o.rw << " S=" << o.skin << " wpimult=" << o.wpimult;
    return s.str();
}
static double rel(double a, double b) { return vh::reldiff(a, b); }

static const double TOL_RELATION = 1e-7;   // inverse_peaceman() uses pi = 3.14159265 (1.1e-9 relative): DESIGN 6.9
static const double TOL_STORED = 1e-12;    // an entered value passes one unit conversion (a few ulp)

static const char* DIRNAME[3] = {"X", "Y", "Z"};
static const char* defaultSpelling(Rng& rng, std::initializer_list<const char*> alt) {
    // "1*" most of the time, otherwise one of the documented other spellings of "defaulted"
    if (alt.size() == 0 || rng.chance(0.6)) return "1*";
    return *(alt.begin() + rng.below(alt.size()));
}

// =============================================================================================
// part=cells
// =============================================================================================
struct WellCase {
    std::string name; int i = 0, j = 0, k1 = 0, k2 = 0, mask = 0;   // 0-based cell indices, k1..k2 inclusive
    Inputs in;
    std::string cfTxt, khTxt, dTxt, r0Txt, skinTxt, dirTxt, iTxt, jTxt;
    bool dropped = false; int tries = 0;
    std::string maskName() const {
        std::string m;
        if (in.hasCF) m += "CF+"; if (in.hasKh) m += "Kh+"; if (in.hasD) m += "D+"; if (in.hasR0) m += "r0+";
        if (m.empty()) m = "none+";
        m.pop_back();
        if (in.khZero && in.hasCF) m += "(Kh=0)";
        return m;
    }
};

static void drawColumn(Rng& rng, const Units& u, GridSpec& g, int i, int j) {
    // physical sizes are the same in every unit system; the deck carries them in its own unit of length
    g.dxv[i] = rng.loguniform(5, 500) / u.len;
    g.dyv[j] = rng.loguniform(5, 500) / u.len;
    for (int k = 0; k < g.nz; ++k) {
        Cell& c = g.at(i, j, k);
        c.dz = rng.loguniform(0.5, 50) / u.len;
        c.kx = rng.loguniform(1e-2, 1e4); c.ky = rng.loguniform(1e-2, 1e4); c.kz = rng.loguniform(1e-2, 1e4);
        if (rng.chance(0.15)) c.ky = c.kx;                                   // isotropic in the plane now and then
        c.ntg = g.writeNTG ? (rng.chance(0.2) ? 1.0 : rng.uniform(0.02, 1.0)) : 1.0;
        c.active = g.writeACTNUM ? !rng.chance(0.2) : true;
    }
}

static std::string compdatRecord(const WellCase& w, int k1, int k2, const std::string& cf, const std::string& d,
                                 const std::string& kh, const std::string& r0) {
    std::ostringstream s;
    s << " '" << w.name << "' " << w.iTxt << " " << w.jTxt << " " << k1 + 1 << " " << k2 + 1 << " OPEN 1* " << cf << " " << d << " " << kh << " "
      << w.skinTxt << " 1* " << w.dirTxt << " " << r0 << " /\n";
    return s.str();
}

static void partCells(vh::Reporter& rep, const vh::Args& args) {
    Opm::Parser parser;
    auto python = std::make_shared<Opm::Python>();
    const int maxTries = (int)args.geti("max_tries", 400);
    rep.run_cases([&](long idx, Rng& rng) {
        const Units& u = UNITS[rng.below(4)];
        GridSpec g;
        const int n = 1 + (int)rng.below(4);
        g.nx = g.ny = n; g.nz = 1 + (int)rng.below(6);
        g.dxv.assign(n, 100 / u.len); g.dyv.assign(n, 100 / u.len); g.cells.assign((size_t)n * n * g.nz, Cell());
        g.writeNTG = rng.chance(0.85); g.writeACTNUM = rng.chance(0.7);
        g.tops = rng.uniform(500, 3000) / u.len;
        std::vector<int> perm(n); for (int q = 0; q < n; ++q) perm[q] = q;
        rng.shuffle(perm);
        for (int i = 0; i < n; ++i) for (int j = 0; j < n; ++j) drawColumn(rng, u, g, i, j);   // background (DX/DY overwritten per well below)

        // --- wells: one per (i, perm[i]) so that each owns its DX_i and DY_j -------------------------------
        std::vector<WellCase> wells;
        for (int wi = 0; wi < n; ++wi) {
            WellCase w; w.name = "W" + std::to_string(wi + 1); w.i = wi; w.j = perm[wi];
            w.mask = (int)rng.below(16);
            const int dir = (int)rng.below(3);
            const bool khZero = rng.chance(0.2);
            bool ok = false;
            for (w.tries = 0; w.tries < maxTries && !ok; ++w.tries) {
                drawColumn(rng, u, g, w.i, w.j);
                w.k1 = (int)rng.below(g.nz); w.k2 = w.k1 + (int)rng.below(g.nz - w.k1);
                if (w.tries > 40) w.k2 = w.k1;                                  // a hard combination: settle for one layer
                bool anyActive = false;
                for (int k = w.k1; k <= w.k2; ++k) anyActive = anyActive || g.at(w.i, w.j, k).active;
                if (!anyActive) g.at(w.i, w.j, w.k1).active = true;
                Inputs in; in.dir = dir;
                in.hasCF = w.mask & 1; in.hasKh = w.mask & 2; in.hasD = w.mask & 4; in.hasR0 = w.mask & 8;
                in.khZero = !in.hasKh && khZero;
                in.skin = rng.chance(0.1) ? 0.0 : rng.uniform(-2.0, 8.0);
                if (in.hasD) in.diam = 2 * rng.loguniform(0.03, 0.3) / u.len;
                if (in.hasR0) in.r0 = rng.loguniform(0.2, 200) / u.len;
                const double rw = in.hasD ? 0.5 * in.diam * u.len : 0.5 * FOOT;
                // a denominator ln(r0/rw)+S compatible with the guards, for the cases where CF and Kh fix r0
                const double d = std::max(0.05, in.skin + 0.001) + rng.loguniform(0.01, 15);
                if (in.hasCF && in.hasKh) {
                    // both entered: mutually consistent so that the back-computed r0 is finite and > rw
                    in.kh = rng.loguniform(1, 1e6) / u.len;
                    in.cf = TWO_PI * (in.kh * MILLIDARCY * u.len) / d / u.trans;
                } else if (in.hasCF && in.khZero) {
                    double khmin = INFINITY;
                    Inputs probe; probe.dir = dir;
                    for (int k = w.k1; k <= w.k2; ++k) if (g.at(w.i, w.j, k).active)
                        khmin = std::min(khmin, reference(u, g.dxv[w.i], g.dyv[w.j], g.at(w.i, w.j, k), probe).Kh);
                    in.cf = TWO_PI * khmin / d / u.trans;
                } else if (in.hasCF) in.cf = rng.loguniform(1e-3, 1e3);
                else if (in.hasKh) in.kh = rng.loguniform(1, 1e6) / u.len;
                (void)rw;
                ok = true;
                for (int k = w.k1; k <= w.k2 && ok; ++k)
                    if (g.at(w.i, w.j, k).active) ok = reference(u, g.dxv[w.i], g.dyv[w.j], g.at(w.i, w.j, k), in).guardsOk;
                w.in = in;
            }
            rep.maxof("max_generation_tries_per_record", w.tries);
            if (!ok) { rep.count("records_dropped_guards_unreachable"); continue; }
            // spelling of the record
            w.cfTxt = w.in.hasCF ? num(w.in.cf) : defaultSpelling(rng, {"0", "-1.5"});
            w.khTxt = w.in.hasKh ? num(w.in.kh) : (w.in.khZero ? "0" : defaultSpelling(rng, {"-1", "-250"}));
            w.dTxt = w.in.hasD ? num(w.in.diam) : "1*";
            w.r0Txt = w.in.hasR0 ? num(w.in.r0) : (rng.chance(0.5) ? "1*" : "");
            w.skinTxt = w.in.skin == 0.0 && rng.chance(0.5) ? "1*" : num(w.in.skin);
            w.dirTxt = w.in.dir == 2 && rng.chance(0.3) ? "1*" : std::string("'") + DIRNAME[w.in.dir] + "'";
            const int hs = (int)rng.below(3);                                   // I, J entered / defaulted to the well head
            w.iTxt = hs == 0 ? std::to_string(w.i + 1) : hs == 1 ? "1*" : "0";
            w.jTxt = hs == 0 ? std::to_string(w.j + 1) : hs == 1 ? "1*" : "0";
            wells.push_back(w);
        }

        const std::string head = deckHead(u, g);
        std::ostringstream sa;
        sa << head << "WELSPECS\n";
        for (auto& w : wells) sa << " '" << w.name << "' 'G' " << w.i + 1 << " " << w.j + 1 << " 1* OIL /\n";
        sa << "/\nCOMPDAT\n";
        for (auto& w : wells) sa << compdatRecord(w, w.k1, w.k2, w.cfTxt, w.dTxt, w.khTxt, w.r0Txt);
        sa << "/\nTSTEP\n 1 /\n";
        const std::string deckA = sa.str();
        if (idx < 2) rep.sample(deckA, 3, 4000);

        long relationChecks = 0;
        Built A;
        try { A = build(parser, deckA, python); }
        catch (const std::exception& e) {
            rep.violation("input-refused:" + errClass(e.what()), std::string("valid COMPDAT deck refused: ") + e.what(), deckA);
            rep.case_done(vh::fnv(deckA), false);
            return;
        }
        std::map<std::string, std::vector<Obs>> obsA;
        bool caseBad = false;
        for (auto& w : wells) {
            auto obs = observeWell(*A.sched, w.name, 0);
            obsA[w.name] = obs;
            rep.cover("units", u.keyword); rep.cover("direction", DIRNAME[w.in.dir]); rep.cover("mask", w.maskName());
            rep.cover("range_cells", std::to_string(w.k2 - w.k1 + 1));
            rep.cover("cf_spelling", w.in.hasCF ? "value" : w.cfTxt); rep.cover("kh_spelling", w.in.hasKh ? "value" : w.khTxt);
            rep.cover("skin", w.in.skin < 0 ? "negative" : w.in.skin == 0 ? "zero" : "positive");
            rep.cover("ij", w.iTxt == "1*" || w.iTxt == "0" ? "head(" + w.iTxt + ")" : "entered");
            std::ostringstream wit; wit.precision(17);
            wit << deckA << "\n--- well " << w.name << " mask " << w.maskName() << " dir " << DIRNAME[w.in.dir] << " units " << u.keyword << "\n";
            int expectComplnum = 0; size_t pos = 0;
            for (int k = w.k1; k <= w.k2; ++k) {
                const Cell& c = g.at(w.i, w.j, k);
                if (!c.active) { rep.count("inactive_cells_in_range"); continue; }
                ++expectComplnum;
                // connections of one record are created top-down; a single column is kept in that order
                if (pos >= obs.size() || obs[pos].k != k || obs[pos].i != w.i || obs[pos].j != w.j) {
                    rep.violation("connection-set", "connection for active cell missing or out of place in well " + w.name, wit.str());
                    caseBad = true; break;
                }
                const Obs& o = obs[pos++];
                const Ref r = reference(u, g.dxv[w.i], g.dyv[w.j], c, w.in);
                std::ostringstream d; d.precision(17);
                d << wit.str() << "cell k=" << k + 1 << " dz=" << c.dz << " kx=" << c.kx << " ky=" << c.ky << " kz=" << c.kz << " ntg=" << c.ntg
                  << " dx=" << g.dxv[w.i] << " dy=" << g.dyv[w.j] << "\nlibrary:   " << obsText(o) << "\nreference: CF=" << r.CF << " Kh=" << r.Kh
                  << " r0=" << r.r0 << " rw=" << r.rw << " S=" << r.skin << "\n";
                rep.count("connections_checked");
                if (o.complnum != expectComplnum || o.sortv != (size_t)(expectComplnum - 1))
                    rep.violation("complnum-sequence", "completion number / insert index of a new connection is not its sequence number", d.str());
                if (o.dir != w.in.dir || !o.open) rep.violation("stored-input:dir-state", "direction or state not as entered", d.str());
                // entered quantities are stored unchanged
                auto stored = [&](const char* q, double got, double want) {
                    rep.count("stored_input_checks"); rep.maxof("max_rel_err_stored_input", rel(got, want));
                    if (!(rel(got, want) <= TOL_STORED)) rep.violation(std::string("stored-input:") + q, std::string(q) + " entered in COMPDAT is not stored unchanged", d.str());
                };
                stored("skin", o.skin, r.skin);
                if (w.in.hasD) stored("rw", o.rw, r.rw);
                if (w.in.hasCF) stored("CF", o.CF, r.CF);
                if (w.in.hasKh) stored("Kh", o.Kh, r.Kh);
                if (w.in.hasR0 && !(w.in.hasCF && w.in.khZero)) stored("r0", o.r0, r.r0);
                // defaulted quantities have their Peaceman value
                auto dflt = [&](const char* q, double got, double want, const std::string& cls) {
                    rep.count("default_value_checks"); rep.maxof(std::string("max_rel_err_default_") + q, rel(got, want));
                    if (!(rel(got, want) <= TOL_RELATION)) rep.violation(std::string("default-value:") + q + ":" + cls, std::string("defaulted ") + q + " differs from its Peaceman value", d.str());
                };
                const std::string cls = std::string("dir=") + DIRNAME[w.in.dir] + ":" + w.maskName();
                if (!w.in.hasD) dflt("rw", o.rw, r.rw, "any");
                if (!w.in.hasCF) dflt("CF", o.CF, r.CF, cls);
                if (!w.in.hasKh) dflt("Kh", o.Kh, r.Kh, cls);
                if (!r.overdetermined && !(w.in.hasR0 && !(w.in.hasCF && w.in.khZero))) dflt("r0", o.r0, r.r0, cls);
                // the relation itself, on the stored numbers only
                if (!r.overdetermined) {
                    const double lhs = o.CF * (std::log(o.r0 / o.rw) + o.skin), rhs = TWO_PI * o.Kh;
                    const double e = std::fabs(lhs - rhs) / std::fabs(rhs);
                    ++relationChecks; rep.count("relation_checks"); rep.maxof("max_rel_err_relation", e);
                    if (!(e <= TOL_RELATION)) rep.violation("peaceman-relation:" + w.maskName(), "CF (ln(r0/rw)+S) != 2 pi Kh on the stored values", d.str());
                } else rep.count("overdetermined_connections_inputs_only");
            }
            if (!caseBad && pos != obs.size()) {
                rep.violation("connection-set", "well " + w.name + " has connections the record did not ask for (inactive cell?)", wit.str());
                caseBad = true;
            }
        }

        // --- second deck: the values the library computed are entered explicitly ----------------------------
        if (!caseBad && !wells.empty()) {
            std::ostringstream sb;
            sb << head << "WELSPECS\n";
            for (auto& w : wells) sb << " '" << w.name << "' 'G' " << w.i + 1 << " " << w.j + 1 << " 1* OIL /\n";
            sb << "/\nCOMPDAT\n";
            std::map<std::string, std::string> madeExplicit;
            for (auto& w : wells) {
                // a random non-empty subset of the defaulted items (all of them when that subset comes out empty)
                bool eCF = !w.in.hasCF && rng.chance(0.5), eKh = !w.in.hasKh && rng.chance(0.5), eD = !w.in.hasD && rng.chance(0.5), eR0 = !w.in.hasR0 && rng.chance(0.5);
                if (!eCF && !eKh && !eD && !eR0) { eCF = !w.in.hasCF; eKh = !w.in.hasKh; eD = !w.in.hasD; eR0 = !w.in.hasR0; }
                // CF entered, Kh = 0 and an r0 entered: the record is over-determined and the entered r0 is not the one in
                // use (the library recomputes it).  Entering Kh would bring the unused r0 back into play, so the r0 in use
                // is entered along with it.
                if (w.in.hasCF && w.in.khZero && w.in.hasR0 && eKh) eR0 = true;
                std::string me = std::string(eCF ? "CF+" : "") + (eKh ? "Kh+" : "") + (eD ? "D+" : "") + (eR0 ? "r0+" : "");
                if (me.empty()) me = "nothing(split only)+";
                me.pop_back();
                madeExplicit[w.name] = me;
                rep.cover("made_explicit", me);
                for (const Obs& o : obsA[w.name]) {
                    // one record per connection: the computed values differ from layer to layer
                    sb << compdatRecord(w, o.k, o.k, eCF ? num(o.CF / u.trans) : w.cfTxt, eD ? num(2 * o.rw / u.len) : w.dTxt,
                                        eKh ? num(o.Kh / (MILLIDARCY * u.len)) : w.khTxt, eR0 ? num(o.r0 / u.len) : w.r0Txt);
                }
            }
            sb << "/\nTSTEP\n 1 /\n";
            const std::string deckB = sb.str();
            if (idx < 1) rep.sample(deckB, 3, 4000);
            try {
                Built B = build(parser, deckB, python);
                for (auto& w : wells) {
                    const auto& oa = obsA[w.name];
                    auto ob = observeWell(*B.sched, w.name, 0);
                    const std::string key = "explicit-equals-computed:" + w.maskName() + "<-" + madeExplicit[w.name];
                    std::ostringstream wit; wit.precision(17);
                    wit << "--- deck with defaults\n" << deckA << "--- deck with the computed values entered (" << madeExplicit[w.name] << ") for well " << w.name << "\n" << deckB;
                    if (oa.size() != ob.size()) { rep.violation(key + ":count", "number of connections changed", wit.str()); continue; }
                    for (size_t q = 0; q < oa.size(); ++q) {
                        const Obs &a = oa[q], &b = ob[q];
                        const double e = std::max({rel(a.CF, b.CF), rel(a.Kh, b.Kh), rel(a.r0, b.r0), rel(a.rw, b.rw), rel(a.skin, b.skin)});
                        rep.count("explicit_equals_computed_checks"); rep.maxof("max_rel_err_explicit_vs_computed", e);
                        const bool same = a.i == b.i && a.j == b.j && a.k == b.k && a.dir == b.dir && a.complnum == b.complnum && a.sortv == b.sortv && a.open == b.open;
                        if (!same || !(e <= TOL_RELATION)) {
                            const char* f = !same ? "identity" : rel(a.CF, b.CF) > TOL_RELATION ? "CF" : rel(a.Kh, b.Kh) > TOL_RELATION ? "Kh" : rel(a.r0, b.r0) > TOL_RELATION ? "r0" : rel(a.rw, b.rw) > TOL_RELATION ? "rw" : "skin";
                            rep.violation(key + ":" + f, std::string("entering the computed value changed ") + f, wit.str() + "\ndefaulted: " + obsText(a) + "\nexplicit:  " + obsText(b) + "\n");
                            break;
                        }
                    }
                }
            } catch (const std::exception& e) {
                rep.violation("input-refused:" + errClass(e.what()), std::string("deck with the computed values entered was refused: ") + e.what(), deckB);
            }
        }
        rep.case_done(vh::fnv(deckA), relationChecks > 0);
    });
}

// =============================================================================================
// part=hist
// =============================================================================================
struct RConn {
    int i, j, k, dir; bool open; int complnum; size_t sortv; double mult;
    Ref ref;                      // Peaceman values of the last COMPDAT for this cell (CF before WPIMULT)
    std::string lastOp;           // the keyword class that last selected this connection
};
struct RWell {
    std::string name; int hi = 0, hj = 0; std::vector<std::pair<int, int>> cols; std::string order;   // TRACK | DEPTH | INPUT
    std::vector<RConn> conns;     // insert order
    bool wideDone = false;        // a well-wide WPIMULT was entered in the current report step
    std::set<std::array<int, 3>> touched;   // cells selected by a keyword in the current report step
    bool orderStable() const { return cols.size() == 1 || order == "INPUT"; }
};

// value of a selection item: 0 = not given
static bool selEq(int item, int v) { return item == 0 || item == v; }

static void partHist(vh::Reporter& rep, const vh::Args&) {
    Opm::Parser parser;
    auto python = std::make_shared<Opm::Python>();
    rep.run_cases([&](long idx, Rng& rng) {
        const Units& u = UNITS[rng.below(4)];
        GridSpec g;
        g.nx = 2 + (int)rng.below(2); g.ny = 2 + (int)rng.below(2); g.nz = 3 + (int)rng.below(6);
        g.dxv.resize(g.nx); g.dyv.resize(g.ny); g.cells.assign((size_t)g.nx * g.ny * g.nz, Cell());
        g.writeNTG = rng.chance(0.7); g.writeACTNUM = rng.chance(0.6);
        g.tops = rng.uniform(500, 3000) / u.len;
        for (auto& v : g.dxv) v = rng.uniform(50, 200) / u.len;
        for (auto& v : g.dyv) v = rng.uniform(50, 200) / u.len;
        for (auto& c : g.cells) {
            c.dz = rng.uniform(2, 20) / u.len; c.kx = rng.loguniform(10, 1000); c.ky = rng.loguniform(10, 1000); c.kz = rng.loguniform(1, 100);
            c.ntg = g.writeNTG ? rng.uniform(0.5, 1.0) : 1.0; c.active = g.writeACTNUM ? !rng.chance(0.12) : true;
        }
        const int nsteps = 2 + (int)rng.below(5);
        const int nwells = 2 + (int)rng.below(2);
        std::vector<RWell> wells(nwells);
        std::ostringstream s;          // text of the SCHEDULE section
        s << "WELSPECS\n";
        for (int w = 0; w < nwells; ++w) {
            RWell& W = wells[w]; W.name = "W" + std::to_string(w + 1);
            const int ncols = rng.chance(0.5) ? 1 : 2 + (int)rng.below(2);
            while ((int)W.cols.size() < ncols) {
                std::pair<int, int> c{(int)rng.below(g.nx), (int)rng.below(g.ny)};
                if (std::find(W.cols.begin(), W.cols.end(), c) == W.cols.end()) W.cols.push_back(c);
            }
            // every column of a well has an active cell (decided before any keyword is generated)
            for (auto& c : W.cols) {
                bool any = false; for (int k = 0; k < g.nz; ++k) any = any || g.at(c.first, c.second, k).active;
                if (!any) g.at(c.first, c.second, (int)rng.below(g.nz)).active = true;
            }
            W.hi = W.cols[0].first; W.hj = W.cols[0].second;
            W.order = rng.chance(0.4) ? "TRACK" : rng.chance(0.5) ? "DEPTH" : "INPUT";
            s << " '" << W.name << "' 'G' " << W.hi + 1 << " " << W.hj + 1 << " 1* OIL /\n";
        }
        s << "/\n";
        bool anyOrd = false;
        for (auto& W : wells) if (W.order != "TRACK" || rng.chance(0.3)) {
            if (!anyOrd) s << "COMPORD\n";
            anyOrd = true;
            s << " '" << W.name << "' " << W.order << " /\n";
        }
        if (anyOrd) s << "/\n";

        long effectiveOps = 0, reentries = 0;
        // ---- operations: deck text + the same step on the reference model -----------------------------------
        auto opCompdat = [&](RWell& W, bool initial) {
            const auto col = W.cols[rng.below(W.cols.size())];
            int k1 = 0, k2 = 0;
            for (int attempt = 0;; ++attempt) {
                k1 = (int)rng.below(g.nz); k2 = k1 + (int)rng.below(std::min(g.nz - k1, 4));
                bool any = false; for (int k = k1; k <= k2; ++k) any = any || g.at(col.first, col.second, k).active;
                if (any || (!initial && attempt > 3)) break;     // the first COMPDAT of a well must create a connection
            }
            Inputs in;
            for (int attempt = 0;; ++attempt) {
                in = Inputs();
                in.dir = attempt > 5 || rng.chance(0.7) ? 2 : (int)rng.below(2);
                in.skin = attempt > 5 || rng.chance(0.4) ? 0.0 : rng.uniform(0, 5);
                in.hasCF = rng.chance(0.6); if (in.hasCF) in.cf = rng.loguniform(0.5, 50);
                in.hasD = attempt <= 5 && rng.chance(0.3); if (in.hasD) in.diam = rng.uniform(0.15, 0.4) / u.len;
                in.hasKh = !in.hasCF && attempt <= 5 && rng.chance(0.2); if (in.hasKh) in.kh = rng.loguniform(100, 1e5) / u.len;
                in.hasR0 = attempt <= 5 && rng.chance(0.15); if (in.hasR0) in.r0 = rng.uniform(5, 50) / u.len;
                bool ok = true;
                for (int k = k1; k <= k2; ++k) if (g.at(col.first, col.second, k).active)
                    ok = ok && reference(u, g.dxv[col.first], g.dyv[col.second], g.at(col.first, col.second, k), in).guardsOk;
                if (ok) break;
                if (attempt > 20) { rep.count("compdat_outside_guards"); return; }     // not expected with these cells
            }
            const bool open = !rng.chance(0.25);
            const bool headCol = col.first == W.hi && col.second == W.hj;
            const int hs = headCol ? (int)rng.below(3) : 0;
            s << "COMPDAT\n '" << W.name << "' " << (hs == 0 ? std::to_string(col.first + 1) : hs == 1 ? "1*" : "0") << " "
              << (hs == 0 ? std::to_string(col.second + 1) : hs == 1 ? "1*" : "0") << " " << k1 + 1 << " " << k2 + 1 << " " << (open ? "OPEN" : "SHUT")
              << " 1* " << (in.hasCF ? num(in.cf) : "1*") << " " << (in.hasD ? num(in.diam) : "1*") << " " << (in.hasKh ? num(in.kh) : "1*") << " " << num(in.skin)
              << " 1* '" << DIRNAME[in.dir] << "' " << (in.hasR0 ? num(in.r0) : "") << " /\n/\n";
            rep.cover("operation", initial ? "COMPDAT(first of the well)" : "COMPDAT");
            for (int k = k1; k <= k2; ++k) {
                const Cell& c = g.at(col.first, col.second, k);
                if (!c.active) { rep.count("inactive_cells_in_range"); continue; }
                const Ref r = reference(u, g.dxv[col.first], g.dyv[col.second], c, in);
                W.touched.insert({col.first, col.second, k});
                auto it = std::find_if(W.conns.begin(), W.conns.end(), [&](const RConn& x) { return x.i == col.first && x.j == col.second && x.k == k; });
                if (it == W.conns.end()) {
                    // a new connection: next completion number, next insert index
                    W.conns.push_back(RConn{col.first, col.second, k, in.dir, open, (int)W.conns.size() + 1, W.conns.size(), 1.0, r, "COMPDAT-new"});
                    rep.count("connections_created");
                } else {
                    // re-entry: everything from the record, but the completion number and the insert index stay and
                    // earlier WPIMULT factors are forgotten
                    it->dir = in.dir; it->open = open; it->mult = 1.0; it->ref = r; it->lastOp = "COMPDAT-reentry";
                    ++reentries; rep.count("connections_reentered");
                }
            }
        };
        struct Sel { int I = 0, J = 0, K = 0, C1 = 0, C2 = 0; };      // 0 = item not given
        auto drawSel = [&](const RWell& W) {
            Sel q;
            for (;;) {
                q = Sel();
                int ai = (int)rng.below(g.nx) + 1, aj = (int)rng.below(g.ny) + 1, ak = (int)rng.below(g.nz) + 1, ac = 1 + (int)rng.below(6);
                if (!W.conns.empty() && rng.chance(0.85)) { const RConn& a = W.conns[rng.below(W.conns.size())]; ai = a.i + 1; aj = a.j + 1; ak = a.k + 1; ac = a.complnum; }
                if (rng.chance(0.3)) q.I = ai;
                if (rng.chance(0.3)) q.J = aj;
                if (rng.chance(0.6)) q.K = ak;
                if (rng.chance(0.3)) q.C1 = std::max(1, ac - (int)rng.below(2));
                if (rng.chance(0.3)) q.C2 = ac + (int)rng.below(2);
                if (q.I > 0 || q.J > 0 || q.K > 0 || q.C1 > 0 || q.C2 > 0) return q;   // an all-defaulted record addresses the well, not connections
            }
        };
        auto selText = [&](const Sel& q) {
            std::string t; const int items[5] = {q.I, q.J, q.K, q.C1, q.C2};
            int last = 4; while (last >= 0 && items[last] == 0) --last;
            for (int n = 0; n < 5; ++n) {
                if (n > last && rng.chance(0.6)) break;                       // trailing defaults left out
                t += " " + (items[n] > 0 ? std::to_string(items[n]) : std::string(rng.chance(0.5) ? "1*" : "0"));
            }
            return t;
        };
        auto selName = [&](const Sel& q) {
            std::string n = std::string(q.I ? "I" : "") + (q.J ? "J" : "") + (q.K ? "K" : "");
            if (q.C1 || q.C2) n += std::string("+compl[") + (q.C1 ? "lo" : "") + ":" + (q.C2 ? "hi" : "") + "]";
            return n;
        };
        auto matches = [&](const RConn& c, const Sel& q) {
            return selEq(q.I, c.i + 1) && selEq(q.J, c.j + 1) && selEq(q.K, c.k + 1) && (q.C1 == 0 || c.complnum >= q.C1) && (q.C2 == 0 || c.complnum <= q.C2);
        };
        // the wells a record addresses: one well, or all of them through the pattern 'W*'
        auto targets = [&](int w, bool pattern) { std::vector<RWell*> t; for (int q = 0; q < nwells; ++q) if (pattern || q == w) t.push_back(&wells[q]); return t; };

        std::vector<std::vector<RWell>> snaps;       // the model at the end of every report step
        for (auto& W : wells) opCompdat(W, true);
        for (int st = 0; st < nsteps; ++st) {
            for (auto& W : wells) W.wideDone = false;
            const int nops = st == 0 ? (int)rng.below(3) : 1 + (int)rng.below(4);
            for (int o = 0; o < nops; ++o) {
                const int w = (int)rng.below(nwells);
                RWell& W = wells[w];
                const double x = rng.unit();
                const bool pattern = rng.chance(0.12);
                if (x < 0.28) {
                    // after a well-wide WPIMULT of the same report step a COMPDAT would make the outcome depend on when that
                    // factor is applied, which the statement leaves open
                    if (W.wideDone) continue;
                    opCompdat(W, false);
                } else if (x < 0.53) {
                    const Sel q = drawSel(W);
                    const double f = std::round(rng.loguniform(0.1, 5) * 1000) / 1000;
                    s << "WPIMULT\n '" << (pattern ? "W*" : W.name) << "' " << num(f) << selText(q) << " /\n/\n";
                    rep.cover("operation", "WPIMULT(connections)"); rep.cover("wpimult_selector", selName(q));
                    for (RWell* T : targets(w, pattern)) for (auto& c : T->conns) if (matches(c, q)) {
                        c.mult *= f; c.lastOp = "WPIMULT-selected"; T->touched.insert({c.i, c.j, c.k}); ++effectiveOps; rep.count("connections_scaled_selected");
                    }
                } else if (x < 0.61) {
                    bool free = true; for (RWell* T : targets(w, pattern)) free = free && !T->wideDone;
                    if (!free) continue;       // one well-wide factor per well and report step
                    const double f = std::round(rng.loguniform(0.1, 5) * 1000) / 1000;
                    s << "WPIMULT\n '" << (pattern ? "W*" : W.name) << "' " << num(f) << (rng.chance(0.3) ? " 1* 1* 1*" : "") << " /\n/\n";
                    rep.cover("operation", "WPIMULT(well)");
                    for (RWell* T : targets(w, pattern)) {
                        T->wideDone = true;
                        for (auto& c : T->conns) { c.mult *= f; c.lastOp = "WPIMULT-well"; T->touched.insert({c.i, c.j, c.k}); ++effectiveOps; rep.count("connections_scaled_wellwide"); }
                    }
                } else if (x < 0.71) {
                    // CSKIN: a new skin factor for the selected connections.  Kh, r0, rw stay, the connection factor follows the
                    // relation: CF = 2 pi Kh / (ln(r0/rw) + S_new) (times the WPIMULT factors it has collected)
                    Sel q = drawSel(W); q.C1 = q.C2 = 0;
                    const double newSkin = std::round(rng.uniform(0.0, 6.0) * 100) / 100;
                    bool usable = true;
                    for (RWell* T : targets(w, pattern)) for (auto& c : T->conns) if (matches(c, q) && (c.ref.overdetermined || !(std::log(c.ref.r0 / c.ref.rw) + newSkin > 0.05))) usable = false;
                    if (!usable) continue;
                    auto it3 = [&](int v) { return v > 0 ? std::to_string(v) : std::string("1*"); };
                    s << "CSKIN\n '" << (pattern ? "W*" : W.name) << "' " << it3(q.I) << " " << it3(q.J) << " " << it3(q.K) << " " << it3(q.K) << " " << num(newSkin) << " /\n/\n";
                    rep.cover("operation", "CSKIN");
                    for (RWell* T : targets(w, pattern)) for (auto& c : T->conns) if (matches(c, q)) {
                        c.ref.skin = newSkin;
                        c.ref.CF = TWO_PI * c.ref.Kh / (std::log(c.ref.r0 / c.ref.rw) + newSkin);
                        c.lastOp = "CSKIN"; T->touched.insert({c.i, c.j, c.k}); ++effectiveOps; rep.count("connections_reskinned");
                    }
                } else if (x < 0.83) {
                    const Sel q = drawSel(W);
                    const bool open = rng.chance(0.5);
                    s << "WELOPEN\n '" << (pattern ? "W*" : W.name) << "' " << (open ? "OPEN" : "SHUT") << selText(q) << " /\n/\n";
                    rep.cover("operation", "WELOPEN(connections)"); rep.cover("welopen_selector", selName(q));
                    for (RWell* T : targets(w, pattern)) for (auto& c : T->conns) if (matches(c, q)) {
                        c.open = open; c.lastOp = "WELOPEN"; T->touched.insert({c.i, c.j, c.k}); ++effectiveOps; rep.count("connections_opened_or_shut");
                    }
                } else {
                    int I = 0, J = 0, k1 = 0, k2 = 0;
                    if (!W.conns.empty() && rng.chance(0.9)) {
                        const RConn& a = W.conns[rng.below(W.conns.size())];
                        if (rng.chance(0.3)) I = a.i + 1;
                        if (rng.chance(0.3)) J = a.j + 1;
                        if (rng.chance(0.7)) k1 = std::max(1, a.k + 1 - (int)rng.below(2));
                        if (rng.chance(0.7)) k2 = a.k + 1 + (int)rng.below(2);
                    }
                    const int N = 1 + (int)rng.below(5);
                    auto item = [&](int v) { return v > 0 ? std::to_string(v) : std::string(rng.chance(0.5) ? "1*" : "0"); };
                    s << "COMPLUMP\n '" << (pattern ? "W*" : W.name) << "' " << item(I) << " " << item(J) << " " << item(k1) << " " << item(k2) << " " << N << " /\n/\n";
                    rep.cover("operation", "COMPLUMP");
                    for (RWell* T : targets(w, pattern)) for (auto& c : T->conns)
                        if (selEq(I, c.i + 1) && selEq(J, c.j + 1) && (k1 == 0 || c.k + 1 >= k1) && (k2 == 0 || c.k + 1 <= k2)) {
                            c.complnum = N; c.lastOp = "COMPLUMP"; T->touched.insert({c.i, c.j, c.k}); ++effectiveOps; rep.count("connections_lumped");
                        }
                }
            }
            s << "TSTEP\n 10 /\n";
            snaps.push_back(wells);
            for (auto& W : wells) W.touched.clear();
        }
        const std::string deck = deckHead(u, g) + s.str();
        if (idx < 2) rep.sample(deck, 3, 5000);
        rep.cover("report_steps", std::to_string(nsteps)); rep.cover("units", u.keyword);
        for (auto& W : wells) rep.cover("well_shape", W.order + (W.cols.size() == 1 ? "/one-column" : "/multi-column"));

        Built B;
        try { B = build(parser, deck, python); }
        catch (const std::exception& e) {
            rep.violation("input-refused:" + errClass(e.what()), std::string("valid schedule refused: ") + e.what(), deck);
            rep.case_done(vh::fnv(deck), false);
            return;
        }
        bool bad = false;
        std::map<std::string, std::vector<Obs>> prev;
        for (int st = 0; st < nsteps && !bad; ++st) {
            for (const RWell& W : snaps[st]) {
                const auto obs = observeWell(*B.sched, W.name, st);
                std::ostringstream wit; wit.precision(17);
                wit << deck << "\n--- well " << W.name << " (" << W.order << ") at report step " << st << "\nlibrary:\n";
                for (auto& o : obs) wit << "  " << obsText(o) << "\n";
                wit << "model (insert order):\n";
                for (auto& c : W.conns) wit << "  (" << c.i + 1 << "," << c.j + 1 << "," << c.k + 1 << ") complnum=" << c.complnum << " insert=" << c.sortv << (c.open ? " OPEN" : " SHUT")
                                            << " CF=" << c.ref.CF * c.mult << " wpimult=" << c.mult << " last selected by " << c.lastOp << "\n";
                auto fail = [&](const std::string& key, const std::string& what) {
                    rep.violation(key, what + " (well " + W.name + ", report step " + std::to_string(st) + ")", wit.str()); bad = true;
                };
                if (obs.size() != W.conns.size()) { fail("history:connection-count", "number of connections differs from the model"); continue; }
                if (st > 0) {
                    // (2) connections no keyword of this step selected: bit for bit as in the previous report step
                    const auto& pv = prev[W.name];
                    for (const Obs& p : pv) {
                        if (W.touched.count({p.i, p.j, p.k})) continue;
                        auto it = std::find_if(obs.begin(), obs.end(), [&](const Obs& o) { return o.i == p.i && o.j == p.j && o.k == p.k; });
                        if (it == obs.end()) { fail("history:untargeted-changed:removed", "a connection no keyword selected disappeared"); break; }
                        rep.count("untargeted_bit_exact_checks");
                        const char* f = it->CF != p.CF ? "CF" : it->Kh != p.Kh ? "Kh" : it->r0 != p.r0 ? "r0" : it->rw != p.rw ? "rw" : it->skin != p.skin ? "skin"
                                        : it->wpimult != p.wpimult ? "wpimult" : it->complnum != p.complnum ? "complnum" : it->sortv != p.sortv ? "insert-index"
                                        : it->open != p.open ? "state" : it->dir != p.dir ? "direction" : nullptr;
                        if (f) { fail(std::string("history:untargeted-changed:") + f, std::string(f) + " of a connection that no keyword of the step selected changed; it was " + obsText(p)); break; }
                    }
                    if (bad) continue;
                    // (3) relative order of the connections present in both steps, for the wells whose order is not a function
                    //     of the whole set (one column under TRACK/DEPTH, any shape under INPUT)
                    if (W.orderStable()) {
                        std::vector<std::array<int, 3>> a, b;
                        auto has = [](const std::vector<Obs>& v, const Obs& o) { return std::any_of(v.begin(), v.end(), [&](const Obs& x) { return x.i == o.i && x.j == o.j && x.k == o.k; }); };
                        for (auto& o : pv) if (has(obs, o)) a.push_back({o.i, o.j, o.k});
                        for (auto& o : obs) if (has(pv, o)) b.push_back({o.i, o.j, o.k});
                        rep.count("relative_order_checks");
                        if (a != b) { fail("history:order:" + W.order, "relative order of the existing connections changed"); continue; }
                    }
                }
                if (bad) continue;
                // (1) every connection against the model, matched by cell (the list is kept in COMPORD order, not insert order)
                for (const RConn& c : W.conns) {
                    auto it = std::find_if(obs.begin(), obs.end(), [&](const Obs& o) { return o.i == c.i && o.j == c.j && o.k == c.k; });
                    if (it == obs.end()) { fail("history:connection-missing", "a connection of the model is not in the well"); break; }
                    rep.count("connection_state_checks");
                    const std::string cls = ":after-" + c.lastOp;
                    if (it->complnum != c.complnum) { fail("history:complnum" + cls, "completion number differs from the model"); break; }
                    if (it->sortv != c.sortv) { fail("history:insert-index" + cls, "insert index (sort value) differs from the model"); break; }
                    if (it->open != c.open) { fail("history:state" + cls, "connection state differs from the model"); break; }
                    if (it->dir != c.dir) { fail("history:direction" + cls, "direction differs from the model"); break; }
                    rep.maxof("max_rel_err_wpimult", rel(it->wpimult, c.mult));
                    if (!(rel(it->wpimult, c.mult) <= 1e-12)) { fail("history:wpimult-product" + cls, "accumulated WPIMULT factor differs from the model"); break; }
                    rep.maxof("max_rel_err_history_CF", rel(it->CF, c.ref.CF * c.mult));
                    if (!(rel(it->CF, c.ref.CF * c.mult) <= TOL_RELATION)) { fail("history:CF" + cls, "CF is not (COMPDAT value) x (WPIMULT factors)"); break; }
                    if (!(rel(it->Kh, c.ref.Kh) <= TOL_RELATION) || !(rel(it->r0, c.ref.r0) <= TOL_RELATION) || !(rel(it->rw, c.ref.rw) <= TOL_RELATION)
                        || !(rel(it->skin, c.ref.skin) <= TOL_STORED)) {
                        fail("history:Kh-r0-rw-skin" + cls, "Kh, r0, rw or skin differ from the last COMPDAT of the cell"); break;
                    }
                    // the relation survives the history once the WPIMULT factors are taken out
                    const double lhs = it->CF / it->wpimult * (std::log(it->r0 / it->rw) + it->skin), rhs = TWO_PI * it->Kh;
                    rep.count("relation_checks"); rep.maxof("max_rel_err_relation", std::fabs(lhs - rhs) / rhs);
                    if (!(std::fabs(lhs - rhs) <= TOL_RELATION * rhs)) { fail("history:peaceman-relation" + cls, "CF/wpimult (ln(r0/rw)+S) != 2 pi Kh"); break; }
                }
                if (bad) continue;
                prev[W.name] = obs;
            }
        }
        rep.case_done(vh::fnv(deck), effectiveOps + reentries > 0);
    });
}

int main(int argc, char** argv) {
    vh::Args args = vh::parse_args(argc, argv);
    vh::Reporter rep(args, "C06");
    const std::string part = args.get("part", "cells");
    if (part == "cells") partCells(rep, args);
    else if (part == "hist") partHist(rep, args);
    else { fprintf(stderr, "unknown part=%s\n", part.c_str()); return 2; }
    rep.finish();
    return 0;
}
