// C20 (deck side) — parsing and state construction never crash: a result or an exception.
//
// Workload: structure-aware mutation of (a) the shipped decks (flattened through the deck writer so that
// INCLUDE content is part of the mutated text, and raw root files), (b) multi-keyword decks from the reflective
// keyword grammar.  Each mutated byte string goes through Parser::parseString (or parseFile with the bytes as
// INCLUDE content), and for accepted decks EclipseState, Schedule and SummaryConfig are built.
// Oracle: the process.  Returning or throwing something derived from std::exception is a pass; a sanitizer
// report, a signal, abort/terminate kills the worker (the driver keys it from the report and restarts after the
// journaled case); a non-std exception is reported here; a hang is caught by the driver's per-case watchdog.
#include <map>
#include <set>
#include "common/gkw.hpp"
#include "common/gdeck.hpp"
#include <opm/input/eclipse/EclipseState/EclipseState.hpp>
#include <opm/input/eclipse/EclipseState/SummaryConfig/SummaryConfig.hpp>
#include <opm/input/eclipse/Schedule/Schedule.hpp>
#include <opm/input/eclipse/Python/Python.hpp>
#include <chrono>
#include <filesystem>

using namespace gkw;
namespace fs = std::filesystem;

static std::vector<std::string> splitLines(const std::string& s) {
    std::vector<std::string> v; std::string l; std::istringstream is(s);
    while (std::getline(is, l)) v.push_back(l);
    return v;
}
static std::vector<std::string> tokens(const std::string& l) { std::vector<std::string> t; std::istringstream is(l); std::string x; while (is >> x) t.push_back(x); return t; }
static std::string join(const std::vector<std::string>& t) { std::string r; for (auto& y : t) { r += y; r += " "; } return r; }

static const char* HOSTILE[] = {"/", "*", "1*", "-1", "0", "1e308", "-1e308", "1e-320", "99999999999", "'", "''", "'A B'", "2*3*4", "1*1*", "*5", "0*", "1.0.0", "1e",
                                "--", "'/'", "NaN", "inf", "-inf", "2147483647", "2147483648", "-2147483649", "WOPR", "?", "'*'", "'?'", "1000000*1", "4294967296*", "-5*2",
                                "1.0D400", "0.0", "1.0E-400", "FIELD", "'FIELD'", "\\", "$", "'$A/x'", "1 JAN 1800", "31 FEB 2020", "1 JAN 99999", "10000000", "1e10",
                                "DATES", "TSTEP", "END", "INCLUDE", "ENDACTIO", "ACTIONX", "UDQ", "/\n/", "\t", "\x01", "\xff\xfe", "1*'X'", "3*1*", "YES", "NO", "OPEN", "SHUT"};

struct Seed { std::string name, text; std::vector<std::string> lines; };

static std::string mutate(const std::vector<Seed>& corpus, const std::string& base, Rng& rng, std::vector<std::string>& ops) {
    auto lines = splitLines(base);
    int nm = 1 + (int)rng.below(5);
    for (int m = 0; m < nm && !lines.empty(); ++m) {
        size_t i = rng.below(lines.size());
        switch (rng.below(14)) {
        case 0: lines.erase(lines.begin() + i); ops.push_back("line-drop"); break;
        case 1: lines.insert(lines.begin() + i, lines[i]); ops.push_back("line-dup"); break;
        case 2: { const auto& o = corpus[rng.below(corpus.size())].lines; if (!o.empty()) { size_t a = rng.below(o.size()); size_t b = std::min(o.size(), a + 1 + rng.below(20)); lines.insert(lines.begin() + i, o.begin() + a, o.begin() + b); } ops.push_back("splice"); break; }
        case 3: { auto t = tokens(lines[i]); if (!t.empty()) { t.erase(t.begin() + rng.below(t.size())); lines[i] = join(t); } ops.push_back("token-delete"); break; }
        case 4: case 5: { auto t = tokens(lines[i]); if (!t.empty()) { t[rng.below(t.size())] = HOSTILE[rng.below(sizeof HOSTILE / sizeof *HOSTILE)]; lines[i] = join(t); } ops.push_back("token-replace"); break; }
        case 6: { auto t = tokens(lines[i]); t.insert(t.begin() + rng.below(t.size() + 1), HOSTILE[rng.below(sizeof HOSTILE / sizeof *HOSTILE)]); lines[i] = join(t); ops.push_back("token-insert"); break; }
        case 7: { if (!lines[i].empty()) { size_t p = rng.below(lines[i].size()); lines[i][p] = (char)rng.below(256); } ops.push_back("byte-flip"); break; }
        case 8: { if (!lines[i].empty()) lines[i] = lines[i].substr(0, rng.below(lines[i].size())); ops.push_back("line-truncate"); break; }
        case 9: { size_t j = rng.below(lines.size()); std::swap(lines[i], lines[j]); ops.push_back("line-swap"); break; }
        case 10: { lines.resize(i); ops.push_back("deck-truncate"); break; }
        case 11: { // numeric tweak: scale / negate / zero a number token
            auto t = tokens(lines[i]);
            for (int tries = 0; tries < 4 && !t.empty(); ++tries) {
                size_t k = rng.below(t.size()); char* e = nullptr; double v = strtod(t[k].c_str(), &e);
                if (e && *e == 0 && e != t[k].c_str()) {
                    const double f[] = {-1.0, 0.0, 1e6, 1e-6, 1e12, 1000.0, 0.5};
                    std::ostringstream o; o.precision(12);
                    if (rng.chance(0.3)) o << (long)(v * f[rng.below(7)]); else o << v * f[rng.below(7)];
                    t[k] = o.str(); lines[i] = join(t); break;
                }
            }
            ops.push_back("number-tweak"); break; }
        case 12: { // duplicate a whole keyword block (from a keyword-looking line to the next one)
            size_t a = i; while (a > 0 && !(std::isalpha((unsigned char)lines[a][0]))) --a;
            size_t b = a + 1; while (b < lines.size() && !(lines[b].size() && std::isalpha((unsigned char)lines[b][0]))) ++b;
            std::vector<std::string> blk(lines.begin() + a, lines.begin() + std::min(b, a + 200));
            size_t at = rng.below(lines.size());
            lines.insert(lines.begin() + at, blk.begin(), blk.end());
            ops.push_back("keyword-block-dup"); break; }
        case 13: { // drop a whole keyword block
            size_t a = i; while (a > 0 && !(lines[a].size() && std::isalpha((unsigned char)lines[a][0]))) --a;
            size_t b = a + 1; while (b < lines.size() && !(lines[b].size() && std::isalpha((unsigned char)lines[b][0]))) ++b;
            lines.erase(lines.begin() + a, lines.begin() + b);
            ops.push_back("keyword-block-drop"); break; }
        }
    }
    std::string r;
    for (auto& l : lines) { r += l; r += "\n"; }
    if (rng.chance(0.05)) { while (!r.empty() && r.back() == '\n') r.pop_back(); }
    return r;
}

// Focused mode: ONE keyword block, chosen uniformly over the distinct keyword names of the text (so that a keyword occurring once
// gets as much attention as COMPDAT), and one or two small edits of a data line in it - the kind of input that passes the parser and
// reaches the range checks of the constructors: integer +-1 (off-by-one of an index / count), numeric tweak, item defaulted, item
// dropped, item duplicated.
static std::string mutateFocused(const std::string& base, Rng& rng, std::vector<std::string>& ops) {
    auto lines = splitLines(base);
    auto isKw = [&](const std::string& l) { return !l.empty() && std::isupper((unsigned char)l[0]) && l.find(' ') == std::string::npos && l.find('/') == std::string::npos && l.size() <= 8; };
    std::map<std::string, std::vector<size_t>> where;
    for (size_t i = 0; i < lines.size(); ++i) if (isKw(lines[i])) where[lines[i]].push_back(i);
    if (where.empty()) return base;
    auto it = where.begin(); std::advance(it, rng.below(where.size()));
    const size_t a = it->second[rng.below(it->second.size())];
    size_t b = a + 1; while (b < lines.size() && !isKw(lines[b])) ++b;
    ops.push_back("focused");
    if (b - a < 2) return base;
    if (rng.chance(0.15)) {
        // the keyword a second time, further down, with one of its integers changed: dimensioning keywords entered twice disagree
        // (which of the two sizes a later keyword and which one the run is not the same everywhere)
        std::vector<std::string> copy(lines.begin() + a, lines.begin() + b);
        for (int tries = 0; tries < 4; ++tries) {
            size_t i = 1 + rng.below(copy.size() - 1);
            auto t = tokens(copy[i]);
            std::vector<size_t> ints;
            for (size_t k = 0; k < t.size(); ++k) if (!t[k].empty() && t[k].find_first_not_of("0123456789") == std::string::npos && t[k].size() < 9) ints.push_back(k);
            if (ints.empty()) continue;
            size_t k = ints[rng.below(ints.size())]; long v = atol(t[k].c_str());
            static const long F[] = {2, 10, 1000};
            t[k] = std::to_string(rng.chance(0.3) ? std::max(0L, v - 1) : rng.chance(0.5) ? v + 1 : v * F[rng.below(3)] + 1);
            copy[i] = join(t);
            break;
        }
        std::vector<size_t> later;
        for (auto& kv : where) for (size_t q : kv.second) if (q >= b) later.push_back(q);
        const size_t at = later.empty() ? lines.size() : later[rng.below(later.size())];
        lines.insert(lines.begin() + at, copy.begin(), copy.end());
        ops.push_back("keyword-again-with-other-numbers");
        std::string r;
        for (auto& l : lines) { r += l; r += "\n"; }
        return r;
    }
    int nm = 1 + (int)rng.below(2);
    for (int m = 0; m < nm; ++m) {
        size_t i = a + 1 + rng.below(b - a - 1);
        auto t = tokens(lines[i]);
        if (t.empty()) continue;
        // numeric tokens of the line
        std::vector<size_t> ints, nums;
        for (size_t k = 0; k < t.size(); ++k) {
            char* e = nullptr; strtod(t[k].c_str(), &e);
            if (e && *e == 0 && e != t[k].c_str()) { nums.push_back(k); if (t[k].find_first_not_of("-0123456789") == std::string::npos && t[k].size() < 10) ints.push_back(k); }
        }
        switch (rng.below(9)) {
        case 8: { // more values than the record announces: a repeat count in front of the last value
            size_t k = t.size(); while (k > 0 && (t[k - 1] == "/" || t[k - 1].empty())) --k;
            if (k > 0) { static const char* N[] = {"2", "8", "40", "100", "1000"}; std::string last = t[k - 1]; if (last.find('*') != std::string::npos) last = last.substr(last.find('*') + 1); if (last.empty()) last = "1"; t.insert(t.begin() + k, std::string(N[rng.below(5)]) + "*" + last); }
            ops.push_back("record-lengthen"); break; }
        case 0: case 1: case 2: if (!ints.empty()) { size_t k = ints[rng.below(ints.size())]; long v = atol(t[k].c_str()); t[k] = std::to_string(v + (rng.chance(0.5) ? 1 : -1)); ops.push_back("int-step"); break; }
            /* fall through */
        case 3: if (!nums.empty()) { size_t k = nums[rng.below(nums.size())]; const char* R[] = {"0", "-1", "1e20", "1e-20", "-0.5", "2147483647", "1000000"}; t[k] = R[rng.below(7)]; ops.push_back("number-replace"); break; }
            /* fall through */
        case 4: t[rng.below(t.size())] = "1*"; ops.push_back("item-defaulted"); break;
        case 5: t.erase(t.begin() + rng.below(t.size())); ops.push_back("token-delete"); break;
        case 6: { size_t k = rng.below(t.size()); t.insert(t.begin() + k, t[k]); ops.push_back("token-dup"); break; }
        case 7: { size_t k = rng.below(t.size()); size_t k2 = rng.below(t.size()); std::swap(t[k], t[k2]); ops.push_back("token-swap"); break; }
        }
        lines[i] = join(t);
    }
    std::string r;
    for (auto& l : lines) { r += l; r += "\n"; }
    return r;
}

struct Depth { int parsed = 0, es = 0, sched = 0, sumcfg = 0; };

// returns the deepest stage reached: 0 refused by parser, 1 deck, 2 EclipseState, 3 Schedule, 4 SummaryConfig
static int pipeline(Parser& parser, const std::string& txt, bool lenient, const std::string& asIncludeOf, const std::shared_ptr<Python>& python, std::string& what) {
    int depth = 0;
    try {
        ParseContext pc;
        if (lenient) pc.update(InputErrorAction::IGNORE);
        // The default context asks for std::exit(1) on a missing INCLUDE file (InputErrorAction::EXIT1): a configured
        // policy, not a crash.  The harness asks for an exception instead so that the process outcome stays observable.
        pc.update(ParseContext::PARSE_MISSING_INCLUDE, lenient ? InputErrorAction::IGNORE : InputErrorAction::THROW_EXCEPTION);
        ErrorGuard eg;
        Deck deck = asIncludeOf.empty() ? parser.parseString(txt, pc, eg) : parser.parseFile(asIncludeOf, pc, eg);
        depth = 1; eg.clear();
        EclipseState es(deck);
        depth = 2;
        Schedule sched(deck, es, pc, eg, python);
        depth = 3; eg.clear();
        SummaryConfig sc(deck, sched, es.fieldProps(), es.aquifer(), pc, eg);
        depth = 4; eg.clear();
    } catch (const std::exception& e) {
        what = e.what();
    }
    return depth;
}

int main(int argc, char** argv) {
    vh::Args args = vh::parse_args(argc, argv);
    vh::Reporter rep(args, "C20");
    Parser parser;
    auto python = std::make_shared<Python>();
    const std::string scratch = vh::scratch_dir(args);
    const std::string repo = getenv("VERIF_REPO") ? getenv("VERIF_REPO") : "/repo";

    // ---- corpus: shipped decks, flattened by the deck writer; cached per worker directory across restarts ----
    std::vector<Seed> corpus;
    const std::string cdir = scratch + "/corpus";
    if (!fs::exists(cdir + "/DONE")) {
        fs::create_directories(cdir);
        std::vector<std::string> files;
        for (auto& e : fs::recursive_directory_iterator(repo + "/tests")) {
            if (!e.is_regular_file()) continue;
            auto ext = e.path().extension().string();
            if (ext == ".DATA" || ext == ".data") files.push_back(e.path().string());
        }
        std::sort(files.begin(), files.end());
        int n = 0;
        for (auto& f : files) {
            std::string raw = vh::read_file(f);
            if (raw.size() > 400000 || raw.find("PYINPUT") != std::string::npos || raw.find("PYACTION") != std::string::npos) continue;
            std::string flat;
            long cells = 0;
            try {
                ParseContext pc; pc.update(InputErrorAction::IGNORE); ErrorGuard eg;
                Deck d = parser.parseFile(f, pc, eg); eg.clear();
                std::ostringstream s; s << d; flat = s.str();
                if (d.hasKeyword("DIMENS")) { const auto& r = d["DIMENS"].back().getRecord(0); cells = (long)r.getItem(0).get<int>(0) * r.getItem(1).get<int>(0) * r.getItem(2).get<int>(0); }
            } catch (const std::exception&) { continue; }
            // the corpus must be a deterministic function of the tree (replayability): select by static size only
            if (flat.size() > 150000) continue;
            if (cells > 30000) continue;
            auto fname = [&](int k) { char b[16]; snprintf(b, sizeof b, "%04d.txt", k); return cdir + "/" + b; };
            vh::write_file(fname(n++), "-- seed " + fs::path(f).filename().string() + "\n" + flat);
            if (raw.size() < 60000) vh::write_file(fname(n++), "-- seed raw " + fs::path(f).filename().string() + "\n" + raw);
        }
        vh::write_file(cdir + "/DONE", "");
    }
    {
        std::vector<std::string> files;
        for (auto& e : fs::directory_iterator(cdir)) if (e.path().extension() == ".txt") files.push_back(e.path().string());
        std::sort(files.begin(), files.end());
        for (auto& f : files) { Seed s; s.text = vh::read_file(f); s.lines = splitLines(s.text); s.name = s.lines.empty() ? f : s.lines[0]; corpus.push_back(s); }
    }
    if (corpus.empty()) { fprintf(stderr, "no seed corpus\n"); return 2; }
    rep.count("corpus_seeds", args.shard == 0 ? (long)corpus.size() : 0);
    Catalog cat(parser);
    const long ncat = (long)cat.names.size();

    // ---- mode=sweep: boundary sweep.  One case = one well-formed deck (a generated model, or a small flattened shipped deck) and EVERY
    // single-integer edit of it: each integer token of a data line replaced by value+1 and by value-1, one variant at a time, run
    // through the whole pipeline.  This is the systematic form of the off-by-one question "is an index / count one beyond what the
    // other items announce refused?" that random mutation only samples.  Variants are capped per case (evenly thinned).
    if (args.get("mode", "fuzz") == "sweep") {
        const long cap = args.geti("max_variants", 400);
        rep.run_cases([&](long idx, Rng& rng) {
            std::string base, origin;
            if (rng.chance(0.7)) { gdeck::Opts o; o.exoticRunspec = rng.chance(0.5); o.richSummary = true; gdeck::Generator gen(rng, o); base = gen.generate().text(); origin = "gdeck-model"; }
            else {
                std::vector<const Seed*> small;
                for (auto& sd : corpus) if (sd.name.find("seed raw") == std::string::npos && sd.text.size() < 40000) small.push_back(&sd);
                if (small.empty()) return;
                const Seed& sd = *small[rng.below(small.size())]; base = sd.text; origin = sd.name;
            }
            auto lines = splitLines(base);
            struct Site { size_t line, tok; };
            std::vector<Site> sites;
            std::vector<std::vector<std::string>> toks(lines.size());
            for (size_t i = 0; i < lines.size(); ++i) {
                if (lines[i].rfind("--", 0) == 0) continue;
                toks[i] = tokens(lines[i]);
                for (size_t k = 0; k < toks[i].size(); ++k) {
                    const auto& t = toks[i][k];
                    if (!t.empty() && t.size() < 10 && t.find_first_not_of("0123456789") == std::string::npos) sites.push_back({i, k});
                }
            }
            // plus, per data line that ends a record, one variant with 40 more copies of its last value ("more values than announced")
            std::vector<size_t> recLines;
            for (size_t i = 0; i < lines.size(); ++i) if (toks[i].size() >= 2 && toks[i].back() == "/") recLines.push_back(i);
            const long total = 2 * (long)sites.size() + (long)recLines.size();
            const long step = std::max(1L, (total + cap - 1) / cap);
            long ran = 0, deep = 0;
            std::set<std::string> kwTouched;
            std::string curKw;
            for (long v = (long)rng.below((uint64_t)step); v < total; v += step) {
                Site st; long val = 0; std::vector<std::string> t;
                std::string fromTok;
                if (v < 2 * (long)sites.size()) {
                    st = sites[v / 2];
                    val = atol(toks[st.line][st.tok].c_str()) + ((v % 2) ? -1 : 1);
                    if (val < 0) continue;
                    t = toks[st.line]; fromTok = t[st.tok]; t[st.tok] = std::to_string(val);
                } else {
                    st.line = recLines[v - 2 * (long)sites.size()]; st.tok = toks[st.line].size() - 2;
                    t = toks[st.line];
                    std::string last = t[st.tok]; if (last.find('*') != std::string::npos) last = last.substr(last.find('*') + 1); if (last.empty()) last = "1";
                    fromTok = "(record)"; val = 40;
                    t.insert(t.begin() + st.tok + 1, "40*" + last);
                }
                std::string txt;
                for (size_t i = 0; i < lines.size(); ++i) { txt += (i == st.line ? join(t) : lines[i]); txt += "\n"; }
                size_t a = st.line; while (a > 0 && !(lines[a].size() && std::isupper((unsigned char)lines[a][0]) && lines[a].find(' ') == std::string::npos)) --a;
                kwTouched.insert(lines[a].substr(0, 8));
                rep.journal_note("origin: " + origin + "\nsweep: line " + std::to_string(st.line + 1) + " token " + std::to_string(st.tok + 1) + " (" + fromTok + " -> " + std::to_string(val) + ") under keyword " + lines[a] + "\n--- mutated text ---\n" + txt);
                std::string what; int depth = 0;
                try { depth = pipeline(parser, txt, false, "", python, what); }
                catch (...) { rep.violation("non-std-exception", "something not derived from std::exception was thrown", "origin: " + origin + "\n--- mutated text ---\n" + txt); }
                ++ran; if (depth >= 3) ++deep;
            }
            rep.count("sweep_variants_run", ran);
            rep.count("sweep_variants_reaching_schedule", deep);
            rep.count("sweep_integer_sites", (long)sites.size());
            for (auto& k : kwTouched) rep.cover("sweep_keyword", k);
            rep.cover("seed_kind", origin == "gdeck-model" ? "generated-model" : "shipped-flattened");
            rep.case_done(vh::fnv(base), ran > 0);
            if (idx < 1) rep.sample("sweep of " + origin + ": " + std::to_string(sites.size()) + " integer tokens, " + std::to_string(ran) + " variants run, " + std::to_string(deep) + " reached the Schedule");
        });
        rep.finish();
        return 0;
    }

    rep.run_cases([&](long idx, Rng& rng) {
        std::string base, origin;
        if (rng.chance(0.2)) {
            // complete generated model (70 schedule keyword templates, MSW, UDQ, ACTIONX, network ...): reaches the handlers
            gdeck::Opts o;
            o.exoticRunspec = rng.chance(0.5);
            o.richSummary = true;
            gdeck::Generator gen(rng, o);
            gdeck::Model m = gen.generate();
            base = m.text(); origin = "gdeck-model";
        } else if (rng.chance(0.15)) {
            // multi keyword deck from the grammar
            GenOpts g; g.pHostile = 0.5;
            DeckT deck;
            int n = 2 + (int)rng.below(6);
            for (int i = 0; i < n; ++i) {
                Kw k; std::vector<Kw> prelude;
                if (!genKeyword(parser, cat.names[rng.below(ncat)], rng, g, k, &prelude)) continue;
                for (auto& p : prelude) deck.kws.push_back(p);
                deck.kws.push_back(k);
            }
            base = renderCanon(deck); origin = "grammar";
        } else {
            const Seed& s = corpus[rng.below(corpus.size())];
            base = s.text; origin = s.name;
        }
        std::vector<std::string> ops;
        std::string txt = rng.chance(0.4) ? mutateFocused(base, rng, ops) : mutate(corpus, base, rng, ops);
        bool lenient = rng.chance(0.5);
        bool viaInclude = rng.chance(0.15);
        std::string root;
        if (viaInclude) {
            vh::write_file(scratch + "/INC.inc", txt);
            root = scratch + "/ROOT.DATA";
            vh::write_file(root, "INCLUDE\n 'INC.inc' /\n");
        }
        rep.journal_note("origin: " + origin + "\nlenient_context: " + (lenient ? "1" : "0") + "\nvia_include: " + (viaInclude ? "1" : "0") + "\n--- mutated text ---\n" + txt);
        std::string what;
        int depth = 0;
        try {
            depth = pipeline(parser, txt, lenient, root, python, what);
        } catch (...) {
            rep.violation("non-std-exception", "something not derived from std::exception was thrown", "origin: " + origin + "\n--- mutated text ---\n" + txt);
        }
        static const char* DN[] = {"refused-by-parser", "deck-only", "eclipsestate", "schedule", "summaryconfig"};
        rep.cover("depth_reached", DN[depth]);
        for (auto& o : ops) rep.cover("mutation", o);
        rep.cover("seed_kind", origin == "gdeck-model" ? "generated-model" : origin == "grammar" ? "grammar" : (origin.find("seed raw") != std::string::npos ? "shipped-raw" : "shipped-flattened"));
        rep.case_done(vh::fnv(txt), depth >= 1 || !what.empty());
        if (idx < 1) rep.sample("origin " + origin + ", mutations " + join(ops) + ", reached " + DN[depth] + (what.empty() ? "" : ", exception: " + what.substr(0, 200)));
    });
    rep.finish();
    return 0;
}
