// C16 — automatic differentiation returns exact values and derivatives in every variant.
//
// Monitor: random straight-line programs over the whole operator/function set are executed with
// (a) an independent dual-number evaluator written here (reference model), and
// (b) every Evaluation variant able to hold the program's variables: the unrolled specialisations
//     N = 1..12, the generic static implementation N = 13..16 and the dynamically sized one.
// The variables are placed in random derivative slots so that every slot index of every variant is
// exercised; slots that hold no variable must stay exactly zero.
#include <opm/material/densead/Evaluation.hpp>
#include <opm/material/densead/DynamicEvaluation.hpp>
#include <functional>
#include <opm/material/densead/Math.hpp>
#include "common/vh.hpp"
#include <array>

using vh::Rng;

// ---------------------------------------------------------------------------------------------
// reference: dual numbers
// ---------------------------------------------------------------------------------------------
struct Dual { double v = 0; std::vector<double> d; };
static Dual konst(double v, int n) { Dual r; r.v = v; r.d.assign(n, 0.0); return r; }
static Dual un(const Dual& a, double fv, double dfv) { Dual r; r.v = fv; r.d = a.d; for (auto& x : r.d) x *= dfv; return r; }
static Dual add(const Dual& a, const Dual& b) { Dual r = a; r.v += b.v; for (size_t i = 0; i < r.d.size(); i++) r.d[i] += b.d[i]; return r; }
static Dual sub(const Dual& a, const Dual& b) { Dual r = a; r.v -= b.v; for (size_t i = 0; i < r.d.size(); i++) r.d[i] -= b.d[i]; return r; }
static Dual mul(const Dual& a, const Dual& b) { Dual r = a; r.v = a.v * b.v; for (size_t i = 0; i < r.d.size(); i++) r.d[i] = a.d[i] * b.v + a.v * b.d[i]; return r; }
static Dual dvd(const Dual& a, const Dual& b) { Dual r = a; r.v = a.v / b.v; for (size_t i = 0; i < r.d.size(); i++) r.d[i] = (a.d[i] * b.v - a.v * b.d[i]) / (b.v * b.v); return r; }

enum Op {
    VAR, CONST_E,
    ADD_EE, SUB_EE, MUL_EE, DIV_EE, ADD_ES, SUB_ES, MUL_ES, DIV_ES, ADD_SE, SUB_SE, MUL_SE, DIV_SE,
    CADD_EE, CSUB_EE, CMUL_EE, CDIV_EE, CADD_ES, CSUB_ES, CMUL_ES, CDIV_ES,
    CADD_SELF, CSUB_SELF, CMUL_SELF, CDIV_SELF, CMUL_REF, CADD_REF,
    NEG, POW_ES, POW_SE, POW_EE, SQRT, EXP, LOG, LOG10, SIN, COS, TAN, ASIN, ACOS, ATAN, ATAN2_EE, ATAN2_ES,
    SINH, COSH, ASINH, ACOSH, ABS, MIN_EE, MIN_ES, MIN_SE, MAX_EE, MAX_ES, MAX_SE, NOPS
};
static const char* OPNAME[] = {
    "var", "const", "E+E", "E-E", "E*E", "E/E", "E+s", "E-s", "E*s", "E/s", "s+E", "s-E", "s*E", "s/E",
    "E+=E", "E-=E", "E*=E", "E/=E", "E+=s", "E-=s", "E*=s", "E/=s",
    "x+=x", "x-=x", "x*=x", "x/=x", "x*=ref(x)", "x+=ref(x)",
    "neg", "pow(E,s)", "pow(s,E)", "pow(E,E)", "sqrt", "exp", "log", "log10", "sin", "cos", "tan", "asin", "acos", "atan",
    "atan2(E,E)", "atan2(E,s)", "sinh", "cosh", "asinh", "acosh", "abs", "min(E,E)", "min(E,s)", "min(s,E)", "max(E,E)", "max(E,s)", "max(s,E)"};

struct Node { int op; int a, b; double c; int var; };

// reference evaluation of one node; returns false if the operands are outside the safe domain
static bool refNode(const Node& n, const std::vector<Dual>& val, const std::vector<Dual>& vars, int nv, Dual& out) {
    const Dual* A = n.a >= 0 ? &val[n.a] : nullptr;
    const Dual* B = n.b >= 0 ? &val[n.b] : nullptr;
    const double c = n.c;
    auto away = [](double x, double y) { return std::fabs(x - y) > 1e-3; };
    switch (n.op) {
    case VAR: out = vars[n.var]; return true;
    case CONST_E: out = konst(c, nv); return true;
    case ADD_EE: case CADD_EE: out = add(*A, *B); return true;
    case SUB_EE: case CSUB_EE: out = sub(*A, *B); return true;
    case MUL_EE: case CMUL_EE: out = mul(*A, *B); return true;
    case DIV_EE: case CDIV_EE: if (std::fabs(B->v) < 0.05) return false; out = dvd(*A, *B); return true;
    // compound assignment whose right hand side IS the left hand side (in-place square etc.)
    case CADD_SELF: case CADD_REF: out = add(*A, *A); return true;
    case CSUB_SELF: out = sub(*A, *A); return true;
    case CMUL_SELF: case CMUL_REF: out = mul(*A, *A); return true;
    case CDIV_SELF: if (std::fabs(A->v) < 0.05) return false; out = dvd(*A, *A); return true;
    case ADD_ES: case CADD_ES: out = add(*A, konst(c, nv)); return true;
    case SUB_ES: case CSUB_ES: out = sub(*A, konst(c, nv)); return true;
    case MUL_ES: case CMUL_ES: out = mul(*A, konst(c, nv)); return true;
    case DIV_ES: case CDIV_ES: out = dvd(*A, konst(c, nv)); return true;   // c is never near zero
    case ADD_SE: out = add(konst(c, nv), *A); return true;
    case SUB_SE: out = sub(konst(c, nv), *A); return true;
    case MUL_SE: out = mul(konst(c, nv), *A); return true;
    case DIV_SE: if (std::fabs(A->v) < 0.05) return false; out = dvd(konst(c, nv), *A); return true;
    case NEG: out = un(*A, -A->v, -1.0); return true;
    case POW_ES:
        // a base of exactly zero with an exponent above one: x^c and every partial derivative of it are 0 there
        if (A->v == 0.0 && c > 1.0) { out = un(*A, 0.0, 0.0); return true; }
        if (A->v < 0.05) return false; out = un(*A, std::pow(A->v, c), c * std::pow(A->v, c - 1.0)); return true;
    case POW_SE: { double b = std::fabs(c) + 0.1; if (std::fabs(A->v) > 8) return false; double p = std::pow(b, A->v); out = un(*A, p, std::log(b) * p); return true; }
    case POW_EE: {
        if (A->v == 0.0 && B->v > 1.0 && B->v <= 6) { out = un(*A, 0.0, 0.0); return true; }    // f^g with f = 0, g > 1: value and gradient vanish
        if (A->v < 0.05 || std::fabs(B->v) > 6) return false;
        double p = std::pow(A->v, B->v);
        out = *A; out.v = p;
        for (size_t i = 0; i < out.d.size(); i++) out.d[i] = p * (B->d[i] * std::log(A->v) + B->v * A->d[i] / A->v);
        return true; }
    case SQRT: if (A->v < 0.02) return false; out = un(*A, std::sqrt(A->v), 0.5 / std::sqrt(A->v)); return true;
    case EXP: if (std::fabs(A->v) > 7) return false; out = un(*A, std::exp(A->v), std::exp(A->v)); return true;
    case LOG: if (A->v < 0.02) return false; out = un(*A, std::log(A->v), 1.0 / A->v); return true;
    case LOG10: if (A->v < 0.02) return false; out = un(*A, std::log10(A->v), 1.0 / (A->v * std::log(10.0))); return true;
    case SIN: out = un(*A, std::sin(A->v), std::cos(A->v)); return true;
    case COS: out = un(*A, std::cos(A->v), -std::sin(A->v)); return true;
    case TAN: { if (std::fabs(std::cos(A->v)) < 0.1) return false; double t = std::tan(A->v); out = un(*A, t, 1.0 + t * t); return true; }
    case ASIN: if (std::fabs(A->v) > 0.97) return false; out = un(*A, std::asin(A->v), 1.0 / std::sqrt(1 - A->v * A->v)); return true;
    case ACOS: if (std::fabs(A->v) > 0.97) return false; out = un(*A, std::acos(A->v), -1.0 / std::sqrt(1 - A->v * A->v)); return true;
    case ATAN: out = un(*A, std::atan(A->v), 1.0 / (1 + A->v * A->v)); return true;
    case ATAN2_EE: {
        // the library's formula divides by y^2: keep y away from 0
        if (std::fabs(B->v) < 0.05) return false;
        double r2 = A->v * A->v + B->v * B->v;
        out = *A; out.v = std::atan2(A->v, B->v);
        for (size_t i = 0; i < out.d.size(); i++) out.d[i] = (A->d[i] * B->v - A->v * B->d[i]) / r2;
        return true; }
    case ATAN2_ES: { double r2 = A->v * A->v + c * c; out = un(*A, std::atan2(A->v, c), c / r2); return true; }
    case SINH: if (std::fabs(A->v) > 7) return false; out = un(*A, std::sinh(A->v), std::cosh(A->v)); return true;
    case COSH: if (std::fabs(A->v) > 7) return false; out = un(*A, std::cosh(A->v), std::sinh(A->v)); return true;
    case ASINH: out = un(*A, std::asinh(A->v), 1.0 / std::sqrt(A->v * A->v + 1)); return true;
    case ACOSH: if (A->v < 1.05) return false; out = un(*A, std::acosh(A->v), 1.0 / std::sqrt(A->v * A->v - 1)); return true;
    case ABS: if (std::fabs(A->v) < 1e-3) return false; out = un(*A, std::fabs(A->v), A->v < 0 ? -1.0 : 1.0); return true;
    case MIN_EE: if (!away(A->v, B->v)) return false; out = A->v < B->v ? *A : *B; return true;
    case MAX_EE: if (!away(A->v, B->v)) return false; out = A->v > B->v ? *A : *B; return true;
    case MIN_ES: case MIN_SE: if (!away(A->v, c)) return false; out = A->v < c ? *A : konst(c, nv); return true;
    case MAX_ES: case MAX_SE: if (!away(A->v, c)) return false; out = A->v > c ? *A : konst(c, nv); return true;
    }
    return false;
}

// ---------------------------------------------------------------------------------------------
// the library under test
// ---------------------------------------------------------------------------------------------
template <class E, class MkConst>
static E evalE(const std::vector<Node>& prog, const std::vector<E>& vars, MkConst&& mkConst) {
    using namespace Opm;
    using namespace Opm::DenseAd;
    std::vector<E> val;
    val.reserve(prog.size());
    for (const auto& n : prog) {
        const double c = n.c;
        const double bpos = std::fabs(c) + 0.1;
        switch (n.op) {
        case VAR: val.push_back(vars[n.var]); break;
        case CONST_E: val.push_back(mkConst(c)); break;
        case ADD_EE: val.push_back(val[n.a] + val[n.b]); break;
        case SUB_EE: val.push_back(val[n.a] - val[n.b]); break;
        case MUL_EE: val.push_back(val[n.a] * val[n.b]); break;
        case DIV_EE: val.push_back(val[n.a] / val[n.b]); break;
        case ADD_ES: val.push_back(val[n.a] + c); break;
        case SUB_ES: val.push_back(val[n.a] - c); break;
        case MUL_ES: val.push_back(val[n.a] * c); break;
        case DIV_ES: val.push_back(val[n.a] / c); break;
        case ADD_SE: val.push_back(c + val[n.a]); break;
        case SUB_SE: val.push_back(c - val[n.a]); break;
        case MUL_SE: val.push_back(c * val[n.a]); break;
        case DIV_SE: val.push_back(c / val[n.a]); break;
        case CADD_EE: { E t = val[n.a]; t += val[n.b]; val.push_back(t); break; }
        case CSUB_EE: { E t = val[n.a]; t -= val[n.b]; val.push_back(t); break; }
        case CMUL_EE: { E t = val[n.a]; t *= val[n.b]; val.push_back(t); break; }
        case CDIV_EE: { E t = val[n.a]; t /= val[n.b]; val.push_back(t); break; }
        case CADD_SELF: { E t = val[n.a]; t += t; val.push_back(t); break; }
        case CSUB_SELF: { E t = val[n.a]; t -= t; val.push_back(t); break; }
        case CMUL_SELF: { E t = val[n.a]; t *= t; val.push_back(t); break; }
        case CDIV_SELF: { E t = val[n.a]; t /= t; val.push_back(t); break; }
        case CMUL_REF: { E t = val[n.a]; const E& r = t; t *= r; val.push_back(t); break; }
        case CADD_REF: { E t = val[n.a]; const E& r = t; t += r; val.push_back(t); break; }
        case CADD_ES: { E t = val[n.a]; t += c; val.push_back(t); break; }
        case CSUB_ES: { E t = val[n.a]; t -= c; val.push_back(t); break; }
        case CMUL_ES: { E t = val[n.a]; t *= c; val.push_back(t); break; }
        case CDIV_ES: { E t = val[n.a]; t /= c; val.push_back(t); break; }
        case NEG: val.push_back(-val[n.a]); break;
        case POW_ES: val.push_back(pow(val[n.a], c)); break;
        case POW_SE: val.push_back(pow(bpos, val[n.a])); break;
        case POW_EE: val.push_back(pow(val[n.a], val[n.b])); break;
        case SQRT: val.push_back(sqrt(val[n.a])); break;
        case EXP: val.push_back(exp(val[n.a])); break;
        case LOG: val.push_back(log(val[n.a])); break;
        case LOG10: val.push_back(log10(val[n.a])); break;
        case SIN: val.push_back(sin(val[n.a])); break;
        case COS: val.push_back(cos(val[n.a])); break;
        case TAN: val.push_back(tan(val[n.a])); break;
        case ASIN: val.push_back(asin(val[n.a])); break;
        case ACOS: val.push_back(acos(val[n.a])); break;
        case ATAN: val.push_back(atan(val[n.a])); break;
        case ATAN2_EE: val.push_back(atan2(val[n.a], val[n.b])); break;
        case ATAN2_ES: val.push_back(atan2(val[n.a], c)); break;
        case SINH: val.push_back(sinh(val[n.a])); break;
        case COSH: val.push_back(cosh(val[n.a])); break;
        case ASINH: val.push_back(asinh(val[n.a])); break;
        case ACOSH: val.push_back(acosh(val[n.a])); break;
        case ABS: val.push_back(abs(val[n.a])); break;
        case MIN_EE: val.push_back(min(val[n.a], val[n.b])); break;
        case MIN_ES: val.push_back(min(val[n.a], c)); break;
        case MIN_SE: val.push_back(min(c, val[n.a])); break;
        case MAX_EE: val.push_back(max(val[n.a], val[n.b])); break;
        case MAX_ES: val.push_back(max(val[n.a], c)); break;
        case MAX_SE: val.push_back(max(c, val[n.a])); break;
        }
    }
    return val.back();
}

struct Case {
    int nv;
    std::vector<double> x;
    std::vector<Node> prog;
    Dual ref;
    std::string text() const {
        std::ostringstream o; o.precision(17);
        o << "vars:";
        for (double v : x) o << " " << v;
        o << "\n";
        for (size_t i = 0; i < prog.size(); ++i) {
            const auto& n = prog[i];
            o << "  t" << i << " = " << OPNAME[n.op] << " a=t" << n.a << " b=t" << n.b << " c=" << n.c << " var=" << n.var << "\n";
        }
        o << "reference value " << ref.v << " derivatives";
        for (double d : ref.d) o << " " << d;
        o << "\n";
        return o.str();
    }
};

static bool bounded(const Dual& d) {
    if (!std::isfinite(d.v) || std::fabs(d.v) > 1e3) return false;
    for (double x : d.d) if (!std::isfinite(x) || std::fabs(x) > 1e3) return false;
    return true;
}

static Case genCase(Rng& rng, int maxNodes) {
    Case cs;
    cs.nv = 1 + (int)rng.below(4);
    if (rng.chance(0.15)) cs.nv = 1 + (int)rng.below(16);
    std::vector<Dual> vars, val;
    for (int i = 0; i < cs.nv; i++) {
        double x = rng.uniform(-3, 3);
        if (rng.chance(0.5)) x = rng.uniform(0.2, 2.5);
        // special points: an input of exactly 0 (zero-base branches of pow, products with zero) or exactly 1
        if (rng.chance(0.06)) x = rng.chance(0.7) ? 0.0 : 1.0;
        cs.x.push_back(x);
        Dual d = konst(x, cs.nv); d.d[i] = 1.0; vars.push_back(d);
    }
    for (int i = 0; i < cs.nv; i++) { Node n{VAR, -1, -1, 0.0, i}; cs.prog.push_back(n); val.push_back(vars[i]); }
    int want = 3 + (int)rng.below(maxNodes - 2);
    int tries = 0;
    while ((int)cs.prog.size() < cs.nv + want && tries < 400) {
        ++tries;
        Node n; n.op = 1 + (int)rng.below(NOPS - 1); n.var = 0;
        int sz = (int)val.size();
        // bias operands to recent nodes so that depth grows
        auto pickOperand = [&]() { return rng.chance(0.6) ? sz - 1 - (int)rng.below(std::min(sz, 3)) : (int)rng.below(sz); };
        n.a = pickOperand(); n.b = pickOperand();
        n.c = rng.chance(0.5) ? rng.uniform(0.3, 2.5) : -rng.uniform(0.3, 2.5);
        if (n.op == POW_ES && rng.chance(0.3)) n.c = (double)rng.range(-3, 3);
        if (n.op == CONST_E) { n.a = n.b = -1; }
        Dual out;
        if (!refNode(n, val, vars, cs.nv, out)) continue;
        if (!bounded(out)) continue;
        cs.prog.push_back(n);
        val.push_back(out);
    }
    cs.ref = val.back();
    return cs;
}

static double TOL = 1e-10;
static bool closeEnough(double a, double b) {
    if (std::isnan(a) || std::isnan(b)) return false;
    if (!std::isfinite(a) || !std::isfinite(b)) return a == b;   // inf <= TOL * inf would pass
    return std::fabs(a - b) <= TOL * std::max(1.0, std::max(std::fabs(a), std::fabs(b)));
}

struct Outcome { bool ok = true; std::string detail; std::vector<double> got; };

template <class E, class MkVar, class MkConst>
static Outcome runVariant(const Case& cs, int N, const std::vector<int>& slot, MkVar&& mkVar, MkConst&& mkConst, int reuseSize = 0, std::function<E(int)> mkOther = nullptr) {
    Outcome oc;
    std::vector<E> ve;
    for (int i = 0; i < cs.nv; i++) ve.push_back(mkVar(cs.x[i], slot[i]));
    E r = evalE<E>(cs.prog, ve, mkConst);
    if (reuseSize > 0) {
        // The result is copy-assigned into an object that held an evaluation of another size before (an accumulator that is
        // re-used): the dynamically sized variants switch between the small buffer and the heap here, in both directions.
        // Every intermediate object is READ (not only copied on): a copy made from a broken object may well be sound again.
        auto same = [](const E& a, const E& b) {
            if (a.size() != b.size() || a.value() != b.value()) return false;
            for (int k = 0; k < (int)a.size(); ++k) if (a.derivative(k) != b.derivative(k)) return false;
            return true;
        };
        const E want = r;
        E acc = mkOther(reuseSize);          // previous content: reuseSize derivatives
        acc = r;                             // copy assignment from an lvalue
        if (!same(acc, want)) { oc.ok = false; oc.detail += "after 'acc = r' (acc held " + std::to_string(reuseSize) + " derivatives before) acc differs from r; "; }
        E back = mkOther(reuseSize);
        const E wantBack = back;
        E keep = acc;                        // copy construction
        if (!same(keep, want)) { oc.ok = false; oc.detail += "copy constructed from the re-used object differs; "; }
        acc = back;                          // to the other size and ...
        if (!same(acc, wantBack)) { oc.ok = false; oc.detail += "after assigning the other size back the object differs; "; }
        acc = keep;                          // ... back again
        if (!same(acc, want)) { oc.ok = false; oc.detail += "after the second change of size the object differs; "; }
        acc = std::move(keep);               // move assignment
        if (!same(acc, want)) { oc.ok = false; oc.detail += "after move assignment the object differs; "; }
        acc *= 1.0;                          // and it still computes
        r = acc;
    }
    std::ostringstream o; o.precision(17);
    if (!closeEnough(r.value(), cs.ref.v)) { oc.ok = false; o << "value " << r.value() << " vs reference " << cs.ref.v << "; "; }
    std::vector<double> expect(N, 0.0);
    for (int i = 0; i < cs.nv; i++) expect[slot[i]] = cs.ref.d[i];
    if ((int)r.size() != N) { oc.ok = false; o << "size() " << r.size() << " != " << N << "; "; }
    for (int k = 0; k < N && k < (int)r.size(); k++) {
        double g = r.derivative(k);
        bool isVarSlot = false;
        for (int i = 0; i < cs.nv; i++) if (slot[i] == k) isVarSlot = true;
        bool ok = isVarSlot ? closeEnough(g, expect[k]) : (g == 0.0);
        if (!ok) { oc.ok = false; o << "d[" << k << "] " << g << " vs reference " << expect[k] << "; "; }
    }
    oc.got.push_back(r.value());
    for (int i = 0; i < cs.nv; i++) oc.got.push_back(r.derivative(slot[i]));
    oc.detail += o.str();
    return oc;
}

template <int N>
static Outcome runStatic(const Case& cs, const std::vector<int>& slot) {
    using E = Opm::DenseAd::Evaluation<double, N>;
    return runVariant<E>(cs, N, slot,
                         [](double v, int pos) { return E::createVariable(v, pos); },
                         [](double c) { return E::createConstant(c); });
}

static Outcome runDynamic(const Case& cs, int N, const std::vector<int>& slot) {
    using E = Opm::DenseAd::Evaluation<double, Opm::DenseAd::DynamicSize, 0u>;
    return runVariant<E>(cs, N, slot,
                         [N](double v, int pos) { return E::createVariable(N, v, pos); },
                         [N](double c) { return E::createConstant(N, c); });
}
static Outcome runDynamicSmallBuf(const Case& cs, int N, const std::vector<int>& slot, int reuseSize = 0) {
    // dynamic evaluation with a static small-buffer of 6 entries: both storage regimes are exercised
    using E = Opm::DenseAd::Evaluation<double, Opm::DenseAd::DynamicSize, 6u>;
    return runVariant<E>(cs, N, slot,
                         [N](double v, int pos) { return E::createVariable(N, v, pos); },
                         [N](double c) { return E::createConstant(N, c); },
                         reuseSize, [](int n) { return E::createVariable(n, 123.456, n - 1) * 7.0; });
}
static Outcome runDynamicReused(const Case& cs, int N, const std::vector<int>& slot, int reuseSize) {
    using E = Opm::DenseAd::Evaluation<double, Opm::DenseAd::DynamicSize, 0u>;
    return runVariant<E>(cs, N, slot,
                         [N](double v, int pos) { return E::createVariable(N, v, pos); },
                         [N](double c) { return E::createConstant(N, c); },
                         reuseSize, [](int n) { return E::createVariable(n, 123.456, n - 1) * 7.0; });
}

template <int N>
static void staticVariants(const Case& cs, Rng& rng, std::vector<std::pair<std::string, Outcome>>& outs) {
    if constexpr (N <= 16) {
        if (cs.nv <= N) {
            std::vector<int> perm(N);
            for (int i = 0; i < N; i++) perm[i] = i;
            rng.shuffle(perm);
            std::vector<int> slot(perm.begin(), perm.begin() + cs.nv);
            outs.emplace_back("static" + std::to_string(N), runStatic<N>(cs, slot));
        }
        staticVariants<N + 1>(cs, rng, outs);
    }
}

int main(int argc, char** argv) {
    vh::Args args = vh::parse_args(argc, argv);
    vh::Reporter rep(args, "C16");
    TOL = args.getd("tol", 1e-10);
    const int maxNodes = (int)args.geti("max_nodes", 15);
    rep.run_cases([&](long idx, Rng& rng) {
        Case cs = genCase(rng, maxNodes);
        std::vector<std::pair<std::string, Outcome>> outs;
        staticVariants<1>(cs, rng, outs);
        for (int rpt = 0; rpt < 2; ++rpt) {
            int N = cs.nv + (int)rng.below(17 - cs.nv);
            std::vector<int> perm(N);
            for (int i = 0; i < N; i++) perm[i] = i;
            rng.shuffle(perm);
            std::vector<int> slot(perm.begin(), perm.begin() + cs.nv);
            if (rpt == 0) outs.emplace_back("dynamic" + std::to_string(N), runDynamic(cs, N, slot));
            else outs.emplace_back("dynamic_sbo6_" + std::to_string(N), runDynamicSmallBuf(cs, N, slot));
            // the same through an object that is re-used across sizes (1..16 derivatives before, N now)
            const int other = 1 + (int)rng.below(16);
            if (rpt == 0) outs.emplace_back("dynamic_reused_" + std::to_string(other) + "_to_" + std::to_string(N), runDynamicReused(cs, N, slot, other));
            else outs.emplace_back("dynamic_sbo6_reused_" + std::to_string(other) + "_to_" + std::to_string(N), runDynamicSmallBuf(cs, N, slot, other));
        }
        bool anyDeriv = false;
        for (double d : cs.ref.d) if (d != 0.0) anyDeriv = true;
        int nops = (int)cs.prog.size() - cs.nv;
        uint64_t h = vh::fnv(cs.text());
        rep.case_done(h, anyDeriv && nops >= 3);
        for (size_t i = cs.nv; i < cs.prog.size(); ++i) rep.cover("operator", OPNAME[cs.prog[i].op]);
        rep.count("variant_evaluations", (long)outs.size());
        rep.count("derivative_comparisons", (long)outs.size() * cs.nv);
        for (auto& o : outs) {
            rep.cover("variant", o.first);
            if (!o.second.ok)
                rep.violation("ad-mismatch:" + o.first.substr(0, o.first.find_first_of("0123456789")) ,
                              o.first + " disagrees with the dual-number reference: " + o.second.detail, cs.text() + "variant: " + o.first + "\n" + o.second.detail);
        }
        // cross-variant agreement (tighter than the reference tolerance: same algorithm, same inputs)
        for (size_t i = 1; i < outs.size(); ++i) {
            for (size_t k = 0; k < outs[0].second.got.size(); ++k) {
                double a = outs[0].second.got[k], b = outs[i].second.got[k];
                if (!closeEnough(a, b)) {
                    std::ostringstream o; o.precision(17);
                    o << outs[0].first << " and " << outs[i].first << " disagree in component " << k << ": " << a << " vs " << b;
                    rep.violation("ad-variants-disagree", o.str(), cs.text() + o.str());
                    break;
                }
            }
        }
        if (idx < 2) rep.sample(cs.text());
    });
    rep.finish();
    return 0;
}
