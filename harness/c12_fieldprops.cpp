// C12 — cell property arrays equal sequential application of the keyword operations.
//
// Monitor: a structured list of operations (direct assignment incl. inside BOX/ENDBOX with `n*`
// defaults, EQUALS, ADD, MULTIPLY, COPY, MINVALUE, MAXVALUE, OPERATE, EQUALREG, ADDREG, MULTIREG,
// COPYREG, OPERATER) over double and integer arrays of the GRID / EDIT / PROPS / REGIONS /
// SOLUTION sections is generated, rendered to deck text and run through the real parser,
// EclipseGrid and FieldPropsManager (constructed exactly as EclipseState does).  Two oracles:
//  (a) a reference interpreter written here works on the same structured list in *deck units* on
//      all cells of the grid (it knows nothing about ACTNUM) and is converted to SI with an
//      independent unit table only at the end; every active cell the reference defines must agree;
//  (b) the same deck without ACTNUM (all cells active): a cell active in both runs must hold the
//      bit-identical value ("never depends on which other cells are inactive").
// Inputs the library refuses (exceptions) are counted, never reported.
// The complete EclipseState is used for odd case numbers, its first construction steps for even ones.
//
// Besides the active-cell arrays the all-cells accessors (get_global_*, porv(true)) are compared in active cells.
// A few rarely generated, quarantined operations probe rules the unchanged tree is known to break; each has a key of its own:
//   offset-unit-arithmetic:<ADD|MULTIPLY>:TEMPI         scalar arithmetic on an array whose unit has an offset
//   region-operation-on-integer-array-ignored:EQUALREG  EQUALREG on an integer array does nothing
//   top-plane-default-inactive-top-cell                 lower planes do not take the top plane value when the top cell is inactive
//   global-view-*                                       the all-cells copy of PERM*/MULTZ* misses top plane defaults, COPYREG, ...
// Arguments: tol=1e-12  big=<percent of cases with extents up to 6>  dump_refused=1 (decks of unexpected refusals to stderr)
#include <opm/input/eclipse/Parser/Parser.hpp>
#include <opm/input/eclipse/Deck/Deck.hpp>
#include <opm/input/eclipse/EclipseState/EclipseState.hpp>
#include <opm/input/eclipse/EclipseState/Runspec.hpp>
#include <opm/input/eclipse/EclipseState/Tables/TableManager.hpp>
#include <opm/input/eclipse/EclipseState/Grid/EclipseGrid.hpp>
#include <opm/input/eclipse/EclipseState/Grid/FieldData.hpp>
#include <opm/input/eclipse/EclipseState/Grid/FieldPropsManager.hpp>
#include "common/vh.hpp"
#include <algorithm>
#include <memory>

using vh::Rng;

// ---------------------------------------------------------------------------------------------
// independent unit table (exact definitions; not taken from the library)
// ---------------------------------------------------------------------------------------------
enum Dim { D_ONE, D_PERM, D_PRES, D_TEMP, D_RS, D_RV, D_RVOL, D_LEN, NDIM };
struct Units { const char* kw; double f[NDIM]; double tempOff; };
static const double mD = 1.0e-3 * (1.0e-3 * 1.0e-4 / 101325.0);   // milli * (cP * cm^2 / (s * atm)) = 9.869232667160128e-16 m^2
static const double ft = 0.3048, stb = 42 * 231 * 0.0254 * 0.0254 * 0.0254, psi = 0.45359237 * 9.80665 / (0.0254 * 0.0254);
static const Units UNITS[4] = {
    {"METRIC", {1, mD, 1.0e5, 1, 1, 1, 1, 1}, 273.15},
    {"FIELD", {1, mD, psi, 5.0 / 9.0, 1000 * ft * ft * ft / stb, stb / (1000 * ft * ft * ft), stb, ft}, 459.67 * 5.0 / 9.0},
    {"LAB", {1, mD, 101325.0, 1, 1, 1, 1.0e-6, 0.01}, 273.15},
    {"PVT-M", {1, mD, 101325.0, 1, 1, 1, 1, 1}, 273.15},
};
static double toSI(const Units& u, Dim d, double v) { return d == D_TEMP ? v * u.f[d] + u.tempOff : v * u.f[d]; }

// ---------------------------------------------------------------------------------------------
// keyword universe
// ---------------------------------------------------------------------------------------------
enum Special { SP_NONE, SP_PORV, SP_TEMPI, SP_SWL, SP_SWCR, SP_SWU };
struct KwInfo {
    const char* name; bool isInt; char sec; Dim dim;
    bool hasInit; double init;          // value every cell has when the array comes into being without data
    bool hasJsonDef; double jsonDef;    // value of a defaulted (`n*`) entry of the data keyword
    bool mult, top, glob; Special sp;
};
static const KwInfo KW[] = {
    // GRID, floating
    {"PORO", false, 'G', D_ONE, false, 0, true, 0, false, true, false, SP_NONE},
    {"PERMX", false, 'G', D_PERM, false, 0, false, 0, false, true, true, SP_NONE},
    {"PERMY", false, 'G', D_PERM, false, 0, true, 0, false, true, true, SP_NONE},
    {"PERMZ", false, 'G', D_PERM, false, 0, true, 0, false, true, true, SP_NONE},
    {"NTG", false, 'G', D_ONE, true, 1, false, 0, false, false, false, SP_NONE},
    {"DISPERC", false, 'G', D_LEN, false, 0, false, 0, false, false, false, SP_NONE},
    {"MULTX", false, 'G', D_ONE, true, 1, true, 1, true, false, false, SP_NONE},
    {"MULTY-", false, 'G', D_ONE, true, 1, true, 1, true, false, false, SP_NONE},
    {"MULTZ", false, 'G', D_ONE, true, 1, true, 1, true, false, true, SP_NONE},
    {"MULTZ-", false, 'G', D_ONE, true, 1, true, 1, true, false, true, SP_NONE},
    {"MULTPV", false, 'G', D_ONE, true, 1, false, 0, true, false, false, SP_NONE},
    // GRID, integer
    {"FLUXNUM", true, 'G', D_ONE, false, 0, false, 0, false, false, false, SP_NONE},
    {"MULTNUM", true, 'G', D_ONE, true, 1, false, 0, false, false, false, SP_NONE},
    {"OPERNUM", true, 'G', D_ONE, false, 0, false, 0, false, false, false, SP_NONE},
    // EDIT
    {"PORV", false, 'E', D_RVOL, false, 0, false, 0, false, false, false, SP_PORV},
    // PROPS
    {"SWATINIT", false, 'P', D_ONE, false, 0, false, 0, false, false, false, SP_NONE},
    {"SWL", false, 'P', D_ONE, false, 0, false, 0, false, false, false, SP_SWL},
    {"SWCR", false, 'P', D_ONE, false, 0, false, 0, false, false, false, SP_SWCR},
    {"SWU", false, 'P', D_ONE, false, 0, false, 0, false, false, false, SP_SWU},
    // REGIONS
    {"SATNUM", true, 'R', D_ONE, true, 1, false, 0, false, false, false, SP_NONE},
    {"PVTNUM", true, 'R', D_ONE, true, 1, false, 0, false, false, false, SP_NONE},
    {"EQLNUM", true, 'R', D_ONE, true, 1, false, 0, false, false, false, SP_NONE},
    {"FIPNUM", true, 'R', D_ONE, true, 1, false, 0, false, false, false, SP_NONE},
    {"FIPABC", true, 'R', D_ONE, true, 1, false, 0, false, false, false, SP_NONE},
    {"MISCNUM", true, 'R', D_ONE, false, 0, false, 0, false, false, false, SP_NONE},
    // SOLUTION
    {"PRESSURE", false, 'S', D_PRES, false, 0, false, 0, false, false, false, SP_NONE},
    {"SWAT", false, 'S', D_ONE, false, 0, false, 0, false, false, false, SP_NONE},
    {"SGAS", false, 'S', D_ONE, false, 0, false, 0, false, false, false, SP_NONE},
    {"RS", false, 'S', D_RS, false, 0, false, 0, false, false, false, SP_NONE},
    {"RV", false, 'S', D_RV, false, 0, false, 0, false, false, false, SP_NONE},
    {"TEMPI", false, 'S', D_TEMP, false, 0, false, 0, false, false, false, SP_TEMPI},
};
static const int NKW = sizeof(KW) / sizeof(KW[0]);
static const KwInfo& kwinfo(const std::string& n) {
    for (int i = 0; i < NKW; ++i) if (n == KW[i].name) return KW[i];
    fprintf(stderr, "unknown array %s\n", n.c_str()); abort();
}
static const char SECTIONS[] = {'G', 'E', 'P', 'R', 'S'};          // deck order
static const char PROCESSING[] = {'G', 'E', 'R', 'P', 'S'};        // REGIONS is read before PROPS (end-point defaults need SATNUM)
static const char* secName(char s) { return s == 'G' ? "GRID" : s == 'E' ? "EDIT" : s == 'P' ? "PROPS" : s == 'R' ? "REGIONS" : "SOLUTION"; }

// ---------------------------------------------------------------------------------------------
// structured operations
// ---------------------------------------------------------------------------------------------
struct Box { int lo[3], hi[3]; };
struct BoxSpec { bool def[6]; int v[6]; };      // i1 i2 j1 j2 k1 k2 (0-based); def = item defaulted in the deck
enum Kind { K_BOX, K_ENDBOX, K_DIRECT, K_SCALAR, K_COPY, K_OPERATE, K_REGSCALAR, K_COPYREG, K_OPERATER };
struct Rec {
    std::string a, b;            // target [, source]      (COPY/COPYREG: a = source, b = target)
    double val = 0;              // scalar
    BoxSpec box{};               // scalar / COPY / OPERATE
    int region = 0, regset = -1; // region id; -1 set defaulted, 0 M, 1 F, 2 O
    std::string func; double alpha = 0, beta = 0; int nparam = 2;   // OPERATE(R): nparam = how many of alpha,beta are written
};
struct Op {
    Kind kind; char sec; std::string kw;   // kw = deck keyword name (BOX, ENDBOX, array name for K_DIRECT, EQUALS, ...)
    Box box{};                             // K_BOX
    std::vector<double> data; std::vector<char> dflt;   // K_DIRECT, box ordered
    std::vector<Rec> recs;
};
static const char* REGSET_ITEM[] = {"M", "F", "O"};
static const char* REGSET_NAME[] = {"MULTNUM", "FLUXNUM", "OPERNUM"};

struct SatTable { double sw[4], krw[4], krow[4]; };
struct Case {
    int n[3]; int N; int unit; bool gridopts; double dx, dy, dz, rtemp; bool hasRtemp;
    std::vector<char> act;                 // data of the ACTNUM keyword
    std::vector<Box> actHoles;             // additional EQUALS ACTNUM 0 boxes right after ACTNUM
    std::vector<char> eff;                 // input active cells: act minus actHoles
    SatTable sat[3];
    std::vector<Op> ops;
};

static std::string num(double v) { char b[40]; snprintf(b, sizeof b, "%.12g", v); return b; }
static double nice(double v, int digits = 4) { char b[40]; snprintf(b, sizeof b, "%.*g", digits, v); return strtod(b, nullptr); }

static std::string renderBoxSpec(const BoxSpec& b, bool mayTruncate) {
    // consecutive defaults as n*, trailing defaults may be left out
    int last = 5;
    if (mayTruncate) while (last >= 0 && b.def[last]) --last;
    std::string s;
    for (int i = 0; i <= last;) {
        if (b.def[i]) { int j = i; while (j <= last && b.def[j]) ++j; s += " " + std::to_string(j - i) + "*"; i = j; }
        else { s += " " + std::to_string(b.v[i] + 1); ++i; }
    }
    return s;
}

static std::string renderOp(const Op& op) {
    std::ostringstream o;
    switch (op.kind) {
    case K_BOX:
        o << "BOX\n " << op.box.lo[0] + 1 << " " << op.box.hi[0] + 1 << " " << op.box.lo[1] + 1 << " " << op.box.hi[1] + 1 << " "
          << op.box.lo[2] + 1 << " " << op.box.hi[2] + 1 << " /\n";
        break;
    case K_ENDBOX: o << "ENDBOX\n"; break;
    case K_DIRECT: {
        o << op.kw << "\n";
        size_t i = 0, col = 0;
        while (i < op.data.size()) {
            size_t j = i;
            if (op.dflt[i]) { while (j < op.data.size() && op.dflt[j]) ++j; o << " " << (j - i) << "*"; }
            else {
                while (j < op.data.size() && !op.dflt[j] && op.data[j] == op.data[i]) ++j;
                if (j - i > 1) o << " " << (j - i) << "*" << num(op.data[i]); else o << " " << num(op.data[i]);
            }
            i = j;
            if (++col % 12 == 0) o << "\n";
        }
        o << " /\n";
        break; }
    case K_SCALAR:
        o << op.kw << "\n";
        for (auto& r : op.recs) o << " " << r.a << " " << num(r.val) << renderBoxSpec(r.box, true) << " /\n";
        o << "/\n";
        break;
    case K_COPY:
        o << op.kw << "\n";
        for (auto& r : op.recs) o << " " << r.a << " " << r.b << renderBoxSpec(r.box, true) << " /\n";
        o << "/\n";
        break;
    case K_OPERATE:
        o << op.kw << "\n";
        for (auto& r : op.recs) {
            o << " " << r.a << renderBoxSpec(r.box, false) << " " << r.func << " " << r.b;
            if (r.nparam >= 1) o << " " << num(r.alpha);
            if (r.nparam >= 2) o << " " << num(r.beta);
            o << " /\n";
        }
        o << "/\n";
        break;
    case K_REGSCALAR:
        o << op.kw << "\n";
        for (auto& r : op.recs) { o << " " << r.a << " " << num(r.val) << " " << r.region; if (r.regset >= 0) o << " " << REGSET_ITEM[r.regset]; o << " /\n"; }
        o << "/\n";
        break;
    case K_COPYREG:
        o << op.kw << "\n";
        for (auto& r : op.recs) { o << " " << r.a << " " << r.b << " " << r.region; if (r.regset >= 0) o << " " << REGSET_ITEM[r.regset]; o << " /\n"; }
        o << "/\n";
        break;
    case K_OPERATER:
        o << op.kw << "\n";
        for (auto& r : op.recs) {
            o << " " << r.a << " " << r.region << " " << r.func << " " << r.b;
            if (r.regset >= 0) o << " " << num(r.alpha) << " " << num(r.beta) << " " << REGSET_NAME[r.regset];
            else { if (r.nparam >= 1) o << " " << num(r.alpha); if (r.nparam >= 2) o << " " << num(r.beta); }
            o << " /\n";
        }
        o << "/\n";
        break;
    }
    return o.str();
}

static std::string renderDeck(const Case& cs, bool withActnum) {
    std::ostringstream s;
    s << "RUNSPEC\nDIMENS\n " << cs.n[0] << " " << cs.n[1] << " " << cs.n[2] << " /\nOIL\nWATER\n" << UNITS[cs.unit].kw
      << "\nTABDIMS\n 3 1 /\nENDSCALE\n/\n";
    if (cs.gridopts) s << "GRIDOPTS\n NO 4 /\n";
    s << "GRID\nDX\n " << cs.N << "*" << num(cs.dx) << " /\nDY\n " << cs.N << "*" << num(cs.dy) << " /\nDZ\n " << cs.N << "*" << num(cs.dz)
      << " /\nTOPS\n " << cs.n[0] * cs.n[1] << "*" << num(cs.dz * 500) << " /\n";
    if (withActnum) {
        s << "ACTNUM\n";
        for (int c = 0; c < cs.N; ++c) s << " " << int(cs.act[c]) << ((c + 1) % 30 == 0 ? "\n" : "");
        s << " /\n";
        if (!cs.actHoles.empty()) {
            s << "EQUALS\n";
            for (auto& b : cs.actHoles)
                s << " ACTNUM 0 " << b.lo[0] + 1 << " " << b.hi[0] + 1 << " " << b.lo[1] + 1 << " " << b.hi[1] + 1 << " " << b.lo[2] + 1 << " " << b.hi[2] + 1 << " /\n";
            s << "/\n";
        }
    }
    for (char sec : SECTIONS) {
        if (sec != 'G') s << secName(sec) << "\n";
        if (sec == 'P') {
            s << "SWOF\n";
            for (auto& t : cs.sat) { for (int r = 0; r < 4; ++r) s << " " << num(t.sw[r]) << " " << num(t.krw[r]) << " " << num(t.krow[r]) << " 0\n"; s << " /\n"; }
            if (cs.hasRtemp) s << "RTEMP\n " << num(cs.rtemp) << " /\n";
        }
        for (auto& op : cs.ops) if (op.sec == sec) s << renderOp(op);
    }
    s << "SCHEDULE\n";
    return s.str();
}

// ---------------------------------------------------------------------------------------------
// reference interpreter (deck units, all cells, no notion of ACTNUM)
// ---------------------------------------------------------------------------------------------
enum St : uint8_t { UNINIT = 0, DEFLT = 1, DECKV = 2 };
struct Arr {
    bool exists = false;
    std::vector<double> v, mag;      // value (deck units); largest magnitude met while computing it (error scale)
    std::vector<uint8_t> st;
    std::vector<int> lastop;         // index of the operation that wrote the cell last (-1: keyword default)
    std::vector<int> topsrc;         // cell whose value was taken by the "lower planes default to the top plane" rule, else -1
    bool afterCopyreg = false;       // values (partly) stem from a COPYREG into an array the library also stores for all cells
    bool afterRegionOp = false;      // ... or from EQUALREG/ADDREG/MULTIREG/OPERATER on such an array
    bool hadTopDefault = false;      // some cell took a top plane value at some time
};

struct Ref {
    const Case& cs; int N;
    std::map<std::string, Arr> A;
    std::map<std::string, Arr> pend;    // EDIT section: multipliers entered in EDIT, multiplied into the GRID value at the end of EDIT
    Box ibox;
    std::vector<char> alive;            // false: pore volume is zero => the cell is made inactive after EDIT
    std::string refusal;                // first operation the documented rules do not define (evaluated for ALL cells)
    int curop = -1;
    bool finite = true;                 // all values finite and of moderate size
    std::vector<std::pair<int, int>> topPairs;   // (cell, top plane cell it took its value from)
    explicit Ref(const Case& c) : cs(c), N(c.N), alive(c.N, 1) { fullBox(ibox); }

    void fullBox(Box& b) const { for (int d = 0; d < 3; ++d) { b.lo[d] = 0; b.hi[d] = cs.n[d] - 1; } }
    std::vector<int> cells(const Box& b) const {
        std::vector<int> c;
        for (int k = b.lo[2]; k <= b.hi[2]; ++k) for (int j = b.lo[1]; j <= b.hi[1]; ++j) for (int i = b.lo[0]; i <= b.hi[0]; ++i)
            c.push_back(i + cs.n[0] * (j + cs.n[1] * k));
        return c;
    }
    // record box: all six items defaulted -> keep the box in force (input BOX, or the previous record's box);
    // otherwise defaulted items mean the grid extent
    void updateBox(Box& b, const BoxSpec& s) const {
        bool all = true; for (bool d : s.def) all = all && d;
        if (all) return;
        for (int d = 0; d < 3; ++d) {
            b.lo[d] = s.def[2 * d] ? 0 : s.v[2 * d];
            b.hi[d] = s.def[2 * d + 1] ? cs.n[d] - 1 : s.v[2 * d + 1];
        }
    }
    void refuse(const std::string& why) { if (refusal.empty()) refusal = why; }

    Arr blank() const { Arr a; a.exists = true; a.v.assign(N, 0); a.mag.assign(N, 0); a.st.assign(N, UNINIT); a.lastop.assign(N, -1); a.topsrc.assign(N, -1); return a; }
    bool has(const std::string& n) const { auto i = A.find(n); return i != A.end() && i->second.exists; }
    bool fullyDefined(const Arr& a) const { for (auto s : a.st) if (s == UNINIT) return false; return true; }
    const SatTable& satTable(int c) {
        Arr& sn = get("SATNUM");
        int t = (int)sn.v[c]; if (t < 1 || t > 3) { refuse("SATNUM out of table range"); t = 1; }
        return cs.sat[t - 1];
    }
    // the array as the keyword rules create it when it is first needed
    Arr& get(const std::string& n) {
        Arr& a = A[n];
        if (a.exists) return a;
        const KwInfo& k = kwinfo(n);
        a = blank();
        if (k.hasInit) for (int c = 0; c < N; ++c) { a.v[c] = k.init; a.mag[c] = std::fabs(k.init); a.st[c] = DEFLT; }
        switch (k.sp) {
        case SP_TEMPI: {
            // reservoir temperature RTEMP; the keyword's own default is 15.555 degrees Celsius in every unit system
            const Units& u = UNITS[cs.unit];
            const double t = cs.hasRtemp ? cs.rtemp : (15.555 + 273.15 - u.tempOff) / u.f[D_TEMP];
            for (int c = 0; c < N; ++c) { a.v[c] = t; a.mag[c] = std::fabs(t) + 300; a.st[c] = DEFLT; }
            break; }
        case SP_SWL: case SP_SWCR: case SP_SWU:
            if (!fullyDefined(get("SATNUM"))) refuse("end-point default needs SATNUM everywhere");
            for (int c = 0; c < N; ++c) {
                const SatTable& t = satTable(c);
                a.v[c] = k.sp == SP_SWL ? t.sw[0] : k.sp == SP_SWCR ? t.sw[1] : t.sw[3]; a.mag[c] = 1; a.st[c] = DEFLT;
            }
            break;
        case SP_PORV: {
            // pore volume = geometric volume * PORO * NTG * MULTPV wherever PORO is known
            if (!has("PORO")) { refuse("PORV without PORO"); break; }
            const Arr& poro = get("PORO");
            Arr one = blank(); for (auto& x : one.v) x = 1;
            const Arr& ntg = has("NTG") ? A["NTG"] : one; const Arr& mpv = has("MULTPV") ? A["MULTPV"] : one;
            const Units& u = UNITS[cs.unit];
            const double vol = cs.dx * cs.dy * cs.dz * u.f[D_LEN] * u.f[D_LEN] * u.f[D_LEN] / u.f[D_RVOL];
            for (int c = 0; c < N; ++c) if (poro.st[c] != UNINIT) { a.v[c] = vol * poro.v[c] * ntg.v[c] * mpv.v[c]; a.mag[c] = std::fabs(a.v[c]); a.st[c] = DEFLT; }
            break; }
        default: break;
        }
        return a;
    }
    // multiplier keyword met in the EDIT section: works on a multiplier of its own that starts at 1
    Arr& target(const std::string& n, char sec) {
        const KwInfo& k = kwinfo(n);
        if (sec == 'E' && k.mult) {
            Arr& p = pend[n];
            if (!p.exists) { p = blank(); for (int c = 0; c < N; ++c) { p.v[c] = 1; p.mag[c] = 1; p.st[c] = DEFLT; } }
            return p;
        }
        return get(n);
    }
    void write(Arr& a, int c, double v, uint8_t st, double scale = 0) {
        a.mag[c] = std::max({a.mag[c], std::fabs(v), std::fabs(a.v[c]), scale});
        a.v[c] = v; a.st[c] = st; a.lastop[c] = curop; a.topsrc[c] = -1;
        if (!std::isfinite(v) || std::fabs(v) > 1e9) finite = false;
    }

    void direct(const Op& op) {
        const KwInfo& k = kwinfo(op.kw);
        Arr& a = target(op.kw, op.sec);
        auto cl = cells(ibox);
        if (cl.size() != op.data.size()) { refuse("data count"); return; }
        for (size_t q = 0; q < cl.size(); ++q) {
            int c = cl[q];
            if (!op.dflt[q]) write(a, c, k.isInt ? (double)(long)op.data[q] : op.data[q], DECKV);
            else if (k.hasJsonDef && a.st[c] == UNINIT) { write(a, c, k.jsonDef, DEFLT); a.lastop[c] = curop; }
        }
        if (op.sec == 'G' && k.top && !fullyDefined(a)) {
            // planes below the top plane that have no value take the value entered for the top plane cell of their column
            std::vector<int> at(cs.n[0] * cs.n[1], -1);
            for (size_t q = 0; q < cl.size(); ++q) if (cl[q] < cs.n[0] * cs.n[1]) at[cl[q]] = (int)q;
            for (int c = 0; c < N; ++c) {
                int col = c % (cs.n[0] * cs.n[1]);
                if (a.st[c] == UNINIT && at[col] >= 0) {
                    if (op.dflt[at[col]]) { refuse("top plane entry defaulted"); continue; }
                    write(a, c, op.data[at[col]], DEFLT); a.topsrc[c] = col; a.hadTopDefault = true; topPairs.emplace_back(c, col);
                }
            }
        }
    }
    static double scalarApply(const std::string& kw, double x, double v, bool isInt) {
        if (isInt) {
            long xi = (long)x, vi = (long)v;
            if (kw == "EQUALS") return (double)vi;
            if (kw == "ADD") return (double)(xi + vi);
            if (kw == "MULTIPLY") return (double)(xi * vi);
            if (kw == "MINVALUE") return (double)std::max(xi, vi);
            return (double)std::min(xi, vi);
        }
        if (kw == "EQUALS" || kw == "EQUALREG") return v;
        if (kw == "ADD" || kw == "ADDREG") return x + v;
        if (kw == "MULTIPLY" || kw == "MULTIREG") return x * v;
        if (kw == "MINVALUE") return std::max(x, v);
        return std::min(x, v);   // MAXVALUE
    }
    void scalar(const Op& op) {
        Box b = ibox;
        const bool assign = op.kw == "EQUALS";
        for (auto& r : op.recs) {
            updateBox(b, r.box);
            const KwInfo& k = kwinfo(r.a);
            const bool editMult = op.sec == 'E' && k.mult;
            if (!assign && !k.mult && !(op.sec == 'E' && k.sp == SP_PORV) && !has(r.a)) { refuse("target must exist: " + r.a); return; }
            Arr& a = target(r.a, op.sec); (void)editMult;
            for (int c : cells(b)) {
                if (assign) write(a, c, scalarApply(op.kw, 0, r.val, k.isInt), DECKV);
                else if (a.st[c] == UNINIT) refuse(op.kw + " on undefined cell of " + r.a);
                else write(a, c, scalarApply(op.kw, a.v[c], r.val, k.isInt), a.st[c], std::fabs(r.val));
            }
        }
    }
    void copyCells(const std::string& src, const std::string& dst, const std::vector<int>& cl, bool byRegion = false) {
        if (!has(src)) { refuse("COPY source missing: " + src); return; }
        const KwInfo& ks = kwinfo(src); const KwInfo& kd = kwinfo(dst);
        if (ks.isInt != kd.isInt) { refuse("COPY between integer and floating arrays"); return; }
        Arr s = get(src);               // by value: the target may be created below
        if (!fullyDefined(s)) { refuse("COPY source not fully defined: " + src); return; }
        if (kd.glob != ks.glob && kd.glob) { refuse("COPY across storage classes"); return; }
        Arr& d = get(dst);
        if (s.afterCopyreg || (byRegion && kd.glob && !cl.empty())) d.afterCopyreg = true;
        if (s.afterRegionOp) d.afterRegionOp = true;
        if (s.hadTopDefault) d.hadTopDefault = true;
        for (int c : cl) {
            if (s.st[c] != DECKV) { refuse("COPY from a defaulted cell of " + src); continue; }
            write(d, c, s.v[c], DECKV);
        }
    }
    static double fn(const std::string& f, double R, double X, double a, double b) {
        if (f == "MULTA") return a * X + b;
        if (f == "POLY") return R + a * std::pow(X, b);
        if (f == "MULTIPLY") return R * X;
        if (f == "SLOG") return std::pow(10, a + b * X);
        if (f == "LOG10") return std::log10(X);
        if (f == "LOGE") return std::log(X);
        if (f == "INV") return 1.0 / X;
        if (f == "MULTX") return a * X;
        if (f == "ADDX") return a + X;
        if (f == "COPY") return X;
        if (f == "MAXLIM") return std::min(a, X);
        if (f == "MINLIM") return std::max(a, X);
        if (f == "MULTP") return a * std::pow(X, b);
        if (f == "ABS") return std::fabs(X);
        abort();
    }
    void operateCells(const Rec& r, const std::vector<int>& cl) {
        const KwInfo& kt = kwinfo(r.a); const KwInfo& ks = kwinfo(r.b);
        if (kt.isInt || ks.isInt) { refuse("OPERATE on integer array"); return; }
        Arr& t = get(r.a);
        Arr s = get(r.b);
        if (kt.glob && !ks.glob) { refuse("OPERATE across storage classes"); return; }
        const bool needTarget = r.func == "MULTIPLY" || r.func == "POLY";
        if (s.afterCopyreg && !cl.empty()) t.afterCopyreg = true;
        if (s.afterRegionOp && !cl.empty()) t.afterRegionOp = true;
        if (s.hadTopDefault && !cl.empty()) t.hadTopDefault = true;
        for (int c : cl) {
            if (s.st[c] == UNINIT || (needTarget && t.st[c] == UNINIT)) { refuse("OPERATE reads undefined cell"); continue; }
            write(t, c, fn(r.func, t.v[c], s.v[c], r.alpha, r.beta), s.st[c], std::max({std::fabs(s.v[c]), std::fabs(r.alpha), std::fabs(r.beta)}));
        }
    }
    std::vector<int> regionCells(int regset, int id, bool operater) {
        std::string name = regset >= 0 ? REGSET_NAME[regset] : (operater ? "OPERNUM" : "MULTNUM");
        if (regset < 0 && !operater && !cs.gridopts) refuse("region set defaulted without GRIDOPTS");
        Arr& reg = get(name);
        std::vector<int> cl;
        if (!fullyDefined(reg)) { refuse("region set not fully defined: " + name); return cl; }
        for (int c = 0; c < N; ++c) if ((int)reg.v[c] == id) cl.push_back(c);
        return cl;
    }
    void apply(const Op& op, int index) {
        curop = index;
        switch (op.kind) {
        case K_BOX: ibox = op.box; break;
        case K_ENDBOX: fullBox(ibox); break;
        case K_DIRECT: direct(op); break;
        case K_SCALAR: scalar(op); break;
        case K_COPY: { Box b = ibox; for (auto& r : op.recs) { updateBox(b, r.box); copyCells(r.a, r.b, cells(b)); } break; }
        case K_OPERATE: { Box b = ibox; for (auto& r : op.recs) { updateBox(b, r.box); operateCells(r, cells(b)); } break; }
        case K_REGSCALAR:
            for (auto& r : op.recs) {
                const KwInfo& k = kwinfo(r.a);
                Arr& a = get(r.a);               // region operations bring the target into being
                auto cl = regionCells(r.regset, r.region, false);
                if (k.glob && !cl.empty()) a.afterRegionOp = true;
                for (int c : cl) {
                    if (op.kw == "EQUALREG") write(a, c, scalarApply(k.isInt ? "EQUALS" : op.kw, 0, r.val, k.isInt), DECKV);
                    else if (a.st[c] == UNINIT) refuse(op.kw + " on undefined cell of " + r.a);
                    else write(a, c, scalarApply(k.isInt ? (op.kw == "ADDREG" ? "ADD" : "MULTIPLY") : op.kw, a.v[c], r.val, k.isInt), a.st[c], std::fabs(r.val));
                }
            }
            break;
        case K_COPYREG: for (auto& r : op.recs) { auto cl = regionCells(r.regset, r.region, false); copyCells(r.a, r.b, cl, true); } break;
        case K_OPERATER:
            for (auto& r : op.recs) {
                Arr& t = get(r.a); auto cl = regionCells(r.regset, r.region, true);
                if (kwinfo(r.a).glob && !cl.empty()) t.afterRegionOp = true;
                if (!cl.empty()) operateCells(r, cl);
            }
            break;
        }
    }
    void endSection(char sec) {
        fullBox(ibox);
        if (sec != 'E') return;
        // multipliers entered in EDIT act on top of the GRID section values
        for (auto& p : pend) {
            Arr& base = get(p.first);
            for (int c = 0; c < N; ++c) { base.mag[c] = std::max(base.mag[c], std::fabs(base.v[c] * p.second.v[c])); base.v[c] *= p.second.v[c]; if (p.second.lastop[c] >= 0) base.lastop[c] = p.second.lastop[c]; }
            if (p.first == "MULTPV" && has("PORV")) { Arr& pv = get("PORV"); for (int c = 0; c < N; ++c) { pv.v[c] *= p.second.v[c]; pv.mag[c] = std::max(pv.mag[c], std::fabs(pv.v[c])); } }
        }
        pend.clear();
        // cells without pore volume are made inactive
        if (has("PORO")) {
            Arr& pv = get("PORV");
            for (int c = 0; c < N; ++c) {
                if (pv.st[c] == UNINIT) { refuse("pore volume undefined"); continue; }
                if (pv.v[c] == 0) alive[c] = 0;
            }
        }
    }
    void run(size_t upto = (size_t)-1) {
        for (char sec : PROCESSING) {
            fullBox(ibox);
            for (size_t i = 0; i < cs.ops.size() && i < upto; ++i) if (cs.ops[i].sec == sec) apply(cs.ops[i], (int)i);
            endSection(sec);
        }
    }
};

// ---------------------------------------------------------------------------------------------
// generator
// ---------------------------------------------------------------------------------------------
struct Gen {
    Rng& rng; Case& cs;
    Gen(Rng& r, Case& c) : rng(r), cs(c) {}

    Box randBox() {
        Box b;
        for (int d = 0; d < 3; ++d) {
            if (rng.chance(0.3)) { b.lo[d] = 0; b.hi[d] = cs.n[d] - 1; }
            else { b.lo[d] = (int)rng.below(cs.n[d]); b.hi[d] = b.lo[d] + (int)rng.below(cs.n[d] - b.lo[d]); }
        }
        return b;
    }
    BoxSpec randSpec() {
        BoxSpec s{};
        double p = rng.unit();
        Box b = randBox();
        for (int d = 0; d < 3; ++d) { s.v[2 * d] = b.lo[d]; s.v[2 * d + 1] = b.hi[d]; }
        if (p < 0.35) { for (auto& d : s.def) d = true; }                        // inherit
        else if (p < 0.8) { for (auto& d : s.def) d = false; }                   // fully given
        else {                                                                   // partially given
            bool any = false, all = true;
            for (auto& d : s.def) { d = rng.chance(0.45); any = any || d; all = all && d; }
            if (all) s.def[rng.below(6)] = false;
            if (!any) s.def[rng.below(6)] = true;
        }
        return s;
    }
    std::vector<const KwInfo*> arrays(char sec, int type /*0 double 1 int 2 any*/) {
        std::vector<const KwInfo*> v;
        for (int i = 0; i < NKW; ++i) {
            const KwInfo& k = KW[i];
            bool in = k.sec == sec || (sec == 'E' && k.mult);
            if (sec == 'R' && std::string(k.name) == "OPERNUM") in = true;
            if (in && (type == 2 || (type == 1) == k.isInt)) v.push_back(&k);
        }
        return v;
    }
    double value(const KwInfo& k) {
        std::string n = k.name;
        if (k.isInt) return (double)rng.range(1, n == "SATNUM" || n == "MULTNUM" || n == "FLUXNUM" || n == "OPERNUM" ? 3 : 6);
        if (n == "PORO") return nice(rng.uniform(0.02, 0.4), 3);
        if (k.dim == D_PERM) return nice(rng.loguniform(0.5, 3000), 4);
        if (n == "NTG") return nice(rng.uniform(0.1, 1.0), 3);
        if (k.mult) return nice(rng.uniform(0.2, 3.0), 3);
        if (k.dim == D_LEN) return nice(rng.uniform(0.5, 30), 3);
        if (k.sp == SP_PORV) return nice(rng.loguniform(1, 5000), 4);
        if (k.dim == D_PRES) return nice(rng.uniform(20, 5000), 5);
        if (k.dim == D_TEMP) return nice(rng.uniform(20, 250), 4);
        if (k.dim == D_RS || k.dim == D_RV) return nice(rng.loguniform(0.001, 200), 4);
        return nice(rng.uniform(0.02, 0.95), 3);   // saturations, end points
    }
    double scalarFor(const KwInfo& k, const std::string& opkw) {
        if (k.isInt) { if (opkw == "MULTIPLY" || opkw == "MULTIREG") return (double)rng.range(1, 3); if (opkw == "ADD" || opkw == "ADDREG") return (double)rng.range(-2, 3); return value(k); }
        if (opkw == "MULTIPLY" || opkw == "MULTIREG") return nice(rng.uniform(0.25, 3.0), 3);
        if (opkw == "ADD" || opkw == "ADDREG") { double v = value(k) * rng.uniform(0.05, 0.6); return nice(rng.chance(0.25) ? -v * 0.3 : v, 3); }
        return value(k);
    }

    Op direct(char sec, const KwInfo& k, const Box& ibox, const Ref& st, bool allowDefaults) {
        Op op; op.kind = K_DIRECT; op.sec = sec; op.kw = k.name;
        size_t cnt = (size_t)(ibox.hi[0] - ibox.lo[0] + 1) * (ibox.hi[1] - ibox.lo[1] + 1) * (ibox.hi[2] - ibox.lo[2] + 1);
        double pdef = allowDefaults ? rng.uniform(0.05, 0.5) : 0.0;
        bool runs = rng.chance(0.5);
        double cur = value(k);
        for (size_t q = 0; q < cnt; ++q) {
            if (!runs || rng.chance(0.4)) cur = value(k);
            op.data.push_back(cur);
            op.dflt.push_back(rng.chance(pdef));
        }
        (void)st;
        return op;
    }
};

static const char* OPER_LINEAR[] = {"MULTA", "MULTX", "ADDX", "COPY", "MAXLIM", "MINLIM", "ABS"};
static const char* OPER_NONLIN[] = {"POLY", "SLOG", "LOG10", "LOGE", "INV", "MULTP"};

// One random operation for section `sec` given the state reached so far; the caller checks it against the reference.
static bool propose(Gen& g, char sec, const Ref& st, Op& op, bool& boxOpen) {
    Rng& rng = g.rng; const Case& cs = g.cs;
    auto dbl = g.arrays(sec, 0), any = g.arrays(sec, 2);
    auto existing = [&](const std::vector<const KwInfo*>& v, bool needFull) {
        std::vector<const KwInfo*> r;
        for (auto* k : v) { auto i = st.A.find(k->name); if (i != st.A.end() && i->second.exists && (!needFull || st.fullyDefined(i->second))) r.push_back(k); }
        return r;
    };
    op = Op(); op.sec = sec;
    double p = rng.unit();
    const bool minmaxOk = sec == 'G' || sec == 'E' || sec == 'P';
    if (p < 0.10) {
        if (boxOpen && rng.chance(0.5)) { op.kind = K_ENDBOX; op.kw = "ENDBOX"; boxOpen = false; }
        else { op.kind = K_BOX; op.kw = "BOX"; op.box = g.randBox(); boxOpen = true; }
        return true;
    }
    if (p < 0.28) {
        if (any.empty()) return false;
        const KwInfo& k = *rng.pick(any);
        if (k.sp == SP_PORV && !st.has("PORO")) return false;
        auto it = st.A.find(k.name);
        bool full = it != st.A.end() && it->second.exists && st.fullyDefined(it->second);
        bool allowDef = rng.chance(full || k.hasInit || k.hasJsonDef || k.sp != SP_NONE ? 0.45 : 0.12);
        op = g.direct(sec, k, st.ibox, st, allowDef);
        if (sec == 'G' && k.top && !full) {
            // entries of the top plane are always given when lower planes may take their value from them
            auto cl = st.cells(st.ibox);
            for (size_t q = 0; q < cl.size(); ++q) if (cl[q] < cs.n[0] * cs.n[1]) op.dflt[q] = 0;
        }
        return true;
    }
    if (p < 0.56) {
        static const char* names[] = {"EQUALS", "ADD", "MULTIPLY", "MINVALUE", "MAXVALUE"};
        op.kind = K_SCALAR; op.kw = names[rng.below(minmaxOk ? 5 : 3)];
        int nrec = 1 + (int)rng.below(3);
        for (int r = 0; r < nrec; ++r) {
            Rec rec; rec.box = g.randSpec();
            const KwInfo* k = nullptr;
            if (op.kw == "EQUALS" || rng.chance(0.1)) k = rng.pick(any);
            else {
                auto ex = existing(any, false);
                for (auto* m : any) if (m->mult && std::find(ex.begin(), ex.end(), m) == ex.end()) ex.push_back(m);
                if (sec == 'E' && st.has("PORO")) ex.push_back(&kwinfo("PORV"));
                if (ex.empty()) return false;
                k = rng.pick(ex);
            }
            if (k->sp == SP_PORV && !st.has("PORO")) return false;
            if (k->dim == D_TEMP && op.kw != "EQUALS") return false;       // see the probe operation appended by the case generator
            rec.a = k->name; rec.val = g.scalarFor(*k, op.kw);
            op.recs.push_back(rec);
        }
        return true;
    }
    if (p < 0.66) {
        op.kind = K_COPY; op.kw = "COPY";
        int nrec = 1 + (int)rng.below(2);
        for (int r = 0; r < nrec; ++r) {
            auto src = existing(any, true);
            if (src.empty()) return false;
            const KwInfo* s = rng.pick(src);
            std::vector<const KwInfo*> dst;
            for (auto* d : any) if (d != s && d->isInt == s->isInt && d->dim == s->dim && d->glob == s->glob && !(sec == 'E' && (d->mult || s->mult)) && d->sp != SP_PORV) dst.push_back(d);
            if (dst.empty() || s->sp == SP_PORV) return false;
            Rec rec; rec.a = s->name; rec.b = rng.pick(dst)->name; rec.box = g.randSpec();
            op.recs.push_back(rec);
        }
        return true;
    }
    if (p < 0.76) {
        op.kind = K_OPERATE; op.kw = "OPERATE";
        int nrec = 1 + (int)rng.below(2);
        for (int r = 0; r < nrec; ++r) {
            auto src = existing(dbl, false);
            for (auto* m : dbl) if ((m->hasInit || m->sp == SP_TEMPI) && std::find(src.begin(), src.end(), m) == src.end()) src.push_back(m);
            if (src.empty()) return false;
            const KwInfo* s = rng.pick(src);
            if (sec == 'E' && s->mult) return false;
            Rec rec; rec.b = s->name; rec.box = g.randSpec();
            std::vector<const KwInfo*> tg;
            double q = rng.unit();
            if (q < 0.55) {         // affine functions: target and source of the same physical dimension
                rec.func = OPER_LINEAR[rng.below(7)];
                if (s->dim == D_TEMP && rec.func != "COPY" && rec.func != "MAXLIM" && rec.func != "MINLIM") return false;
                for (auto* d : dbl) if (d->dim == s->dim && d->glob == s->glob && !(sec == 'E' && d->mult)) tg.push_back(d);
            } else if (q < 0.7) {   // R * X with a dimensionless X
                rec.func = "MULTIPLY";
                if (s->dim != D_ONE) return false;
                for (auto* d : existing(dbl, false)) if (d->dim != D_TEMP && (!d->glob || s->glob) && !(sec == 'E' && d->mult)) tg.push_back(d);
            } else {                // non-linear functions: only between dimensionless arrays
                rec.func = OPER_NONLIN[rng.below(6)];
                if (s->dim != D_ONE) return false;
                for (auto* d : dbl) if (d->dim == D_ONE && d->glob == s->glob && !(sec == 'E' && d->mult)) tg.push_back(d);
            }
            if (tg.empty()) return false;
            const KwInfo* t = rng.pick(tg);
            if (t->sp == SP_PORV && !st.has("PORO")) return false;
            rec.a = t->name;
            rec.alpha = nice(rng.uniform(0.2, 2.5), 3); rec.beta = nice(rng.uniform(0.2, 2.0), 3);
            if (rec.func == "ADDX" || rec.func == "MAXLIM" || rec.func == "MINLIM") rec.alpha = g.value(*t);
            if (rec.func == "MULTA") rec.beta = nice(g.value(*t) * 0.2, 3);
            if (rec.func == "SLOG") { rec.alpha = nice(rng.uniform(-1, 1), 3); rec.beta = nice(rng.uniform(-2, 2), 3); }
            if ((rec.func == "POLY" || rec.func == "MULTP") && rng.chance(0.4)) rec.beta = (double)rng.range(1, 3);
            rec.nparam = 2;
            if (rng.chance(0.3)) { rec.nparam = (int)rng.below(2); if (rec.nparam < 2) rec.beta = 0; if (rec.nparam < 1) rec.alpha = 0; }
            op.recs.push_back(rec);
        }
        return true;
    }
    // region variants
    auto regset = [&](bool operater) { if (!operater && !cs.gridopts) return (int)rng.below(3); return rng.chance(0.3) ? -1 : (int)rng.below(3); };
    if (p < 0.88) {
        static const char* names[] = {"EQUALREG", "ADDREG", "MULTIREG"};
        op.kind = K_REGSCALAR; op.kw = names[rng.below(3)];
        int nrec = 1 + (int)rng.below(3);
        for (int r = 0; r < nrec; ++r) {
            std::vector<const KwInfo*> tg;
            if (op.kw == "EQUALREG") tg = dbl; else { tg = existing(dbl, false); if (sec != 'E') for (auto* m : dbl) if (m->mult) tg.push_back(m); }
            std::vector<const KwInfo*> ok;
            for (auto* k : tg) if (!(sec == 'E' && k->mult) && !(k->sp == SP_PORV && !st.has("PORO")) && !(k->dim == D_TEMP && op.kw != "EQUALREG")) ok.push_back(k);
            if (ok.empty()) return false;
            const KwInfo* k = rng.pick(ok);
            Rec rec; rec.a = k->name; rec.val = g.scalarFor(*k, op.kw); rec.region = (int)rng.range(1, 4); rec.regset = regset(false);
            op.recs.push_back(rec);
        }
        return true;
    }
    if (p < 0.94) {
        op.kind = K_COPYREG; op.kw = "COPYREG";
        auto src = existing(any, true);
        if (src.empty()) return false;
        const KwInfo* s = rng.pick(src);
        std::vector<const KwInfo*> dst;
        for (auto* d : any) if (d != s && d->isInt == s->isInt && d->dim == s->dim && d->glob == s->glob && !(sec == 'E' && (d->mult || s->mult)) && d->sp != SP_PORV) dst.push_back(d);
        if (dst.empty() || s->sp == SP_PORV) return false;
        Rec rec; rec.a = s->name; rec.b = rng.pick(dst)->name; rec.region = (int)rng.range(1, 4); rec.regset = regset(false);
        op.recs.push_back(rec);
        return true;
    }
    {
        op.kind = K_OPERATER; op.kw = "OPERATER";
        auto src = existing(dbl, false);
        for (auto* m : dbl) if ((m->hasInit || m->sp == SP_TEMPI) && std::find(src.begin(), src.end(), m) == src.end()) src.push_back(m);
        if (src.empty()) return false;
        const KwInfo* s = rng.pick(src);
        if (sec == 'E' && s->mult) return false;
        Rec rec; rec.b = s->name; rec.region = (int)rng.range(1, 4); rec.regset = regset(true);
        rec.func = OPER_LINEAR[rng.below(7)];
        if (s->dim == D_TEMP && rec.func != "COPY" && rec.func != "MAXLIM" && rec.func != "MINLIM") return false;
        std::vector<const KwInfo*> tg;
        for (auto* d : dbl) if (d->dim == s->dim && d->glob == s->glob && !(sec == 'E' && d->mult) && !(d->sp == SP_PORV && !st.has("PORO"))) tg.push_back(d);
        if (tg.empty()) return false;
        const KwInfo* t = rng.pick(tg);
        rec.a = t->name;
        rec.alpha = nice(rng.uniform(0.2, 2.5), 3); rec.beta = nice(rng.uniform(0.2, 2.0), 3);
        if (rec.func == "ADDX" || rec.func == "MAXLIM" || rec.func == "MINLIM") rec.alpha = g.value(*t);
        if (rec.func == "MULTA") rec.beta = nice(g.value(*t) * 0.2, 3);
        rec.nparam = 2;
        op.recs.push_back(rec);
        return true;
    }
}

// state of the reference after the first `cs.ops.size()` operations; refusal evaluated on all cells
static std::unique_ptr<Ref> replay(const Case& cs) { auto r = std::make_unique<Ref>(cs); r->run(); return r; }

static bool intsInRange(const Ref& r) {
    for (auto& kv : r.A) {
        const KwInfo& k = kwinfo(kv.first);
        if (!k.isInt || !kv.second.exists) continue;
        for (int c = 0; c < r.N; ++c) if (kv.second.st[c] != UNINIT) {
            double v = kv.second.v[c];
            if (v < 0 || v > 99) return false;
            if (kv.first == "SATNUM" && (v < 1 || v > 3)) return false;
        }
    }
    return true;
}

struct Flags { bool expectRefusal = false; bool probeTemp = false; bool probeIntReg = false; bool topPlane = false; };

static Case genCase(Rng& rng, double pBig, Flags& fl) {
    Case cs;
    int maxdim = rng.chance(pBig) ? 6 : 4;
    for (int d = 0; d < 3; ++d) cs.n[d] = 1 + (int)rng.below(maxdim);
    cs.N = cs.n[0] * cs.n[1] * cs.n[2];
    cs.unit = (int)rng.below(10); cs.unit = cs.unit < 4 ? 0 : cs.unit < 8 ? 1 : cs.unit == 8 ? 2 : 3;
    cs.gridopts = rng.chance(0.75);
    cs.dx = nice(rng.uniform(5, 200), 3); cs.dy = nice(rng.uniform(5, 200), 3); cs.dz = nice(rng.uniform(0.5, 20), 3);
    cs.hasRtemp = rng.chance(0.5); cs.rtemp = nice(rng.uniform(30, 200), 4);
    // ACTNUM
    cs.act.assign(cs.N, 1);
    int mode = (int)rng.below(10);
    if (mode >= 1 && mode <= 6) { double p = rng.uniform(0.08, 0.55); for (auto& a : cs.act) a = rng.chance(p) ? 0 : 1; }
    else if (mode == 7) { int k = (int)rng.below(cs.n[2]); for (int c = 0; c < cs.N; ++c) if (c / (cs.n[0] * cs.n[1]) == k) cs.act[c] = 0; for (auto& a : cs.act) if (rng.chance(0.1)) a = 0; }
    else if (mode == 8) { for (int c = 0; c < cs.N; ++c) if (c % cs.n[0] == 0 && rng.chance(0.7)) cs.act[c] = 0; }
    else if (mode == 9) { for (int c = 0; c < cs.N; ++c) if ((c % 2) == 0) cs.act[c] = 0; }
    { bool anyA = false; for (auto a : cs.act) anyA = anyA || a; if (!anyA) cs.act[rng.below(cs.N)] = 1; }
    cs.eff = cs.act;
    if (rng.chance(0.15)) {
        // further cells switched off with EQUALS ACTNUM 0 right after the ACTNUM data
        Rng& r = rng;
        int nh = 1 + (int)r.below(2);
        for (int h = 0; h < nh; ++h) {
            Box b;
            for (int d = 0; d < 3; ++d) { b.lo[d] = (int)r.below(cs.n[d]); b.hi[d] = b.lo[d] + (int)r.below(std::min(2, cs.n[d] - b.lo[d])); }
            std::vector<char> e2 = cs.eff;
            for (int k = b.lo[2]; k <= b.hi[2]; ++k) for (int j = b.lo[1]; j <= b.hi[1]; ++j) for (int i = b.lo[0]; i <= b.hi[0]; ++i) e2[i + cs.n[0] * (j + cs.n[1] * k)] = 0;
            bool anyA = false; for (auto a : e2) anyA = anyA || a;
            if (anyA) { cs.eff = e2; cs.actHoles.push_back(b); }
        }
    }
    // saturation tables: connate < critical < ... < maximum water saturation
    for (auto& t : cs.sat) {
        t.sw[0] = nice(rng.uniform(0.05, 0.2), 2); t.sw[1] = nice(t.sw[0] + rng.uniform(0.03, 0.15), 2);
        t.sw[2] = nice(t.sw[1] + rng.uniform(0.1, 0.3), 2); t.sw[3] = rng.chance(0.5) ? 1.0 : nice(t.sw[2] + rng.uniform(0.1, 0.25), 2);
        t.krw[0] = 0; t.krw[1] = 0; t.krw[2] = nice(rng.uniform(0.1, 0.4), 2); t.krw[3] = nice(rng.uniform(0.5, 1.0), 2);
        t.krow[0] = nice(rng.uniform(0.6, 1.0), 2); t.krow[1] = nice(t.krow[0] * 0.8, 2); t.krow[2] = nice(t.krow[0] * 0.3, 2); t.krow[3] = 0;
    }
    Gen g(rng, cs);
    fl.expectRefusal = rng.chance(0.02);
    fl.topPlane = cs.n[2] > 1 && rng.chance(0.05);

    int total = 1 + (int)rng.below(25);
    static const double W[5] = {0.38, 0.12, 0.14, 0.14, 0.22};
    int quota[5] = {0, 0, 0, 0, 0};
    for (int i = 0; i < total; ++i) { double u = rng.unit(), acc = 0; for (int s = 0; s < 5; ++s) { acc += W[s]; if (u < acc || s == 4) { quota[s]++; break; } } }

    bool stop = false;     // an operation the reference refuses has been kept on purpose: nothing follows it
    for (int si = 0; si < 5 && !stop; ++si) {
        const char sec = PROCESSING[si];
        int qi = 0; for (int s = 0; s < 5; ++s) if (SECTIONS[s] == sec) qi = s;
        bool boxOpen = false;
        int made = 0;
        // opening assignments so that the section has something to work on
        if (quota[qi] > 0 || sec == 'G') {
            auto st = replay(cs);
            Box full; st->fullBox(full);
            auto any = g.arrays(sec, 2);
            if (sec == 'G') {
                if (rng.chance(0.9)) {
                    const KwInfo& k = kwinfo("PORO");
                    if (fl.topPlane) {
                        Op b; b.kind = K_BOX; b.sec = sec; b.kw = "BOX"; b.box = full; b.box.hi[2] = (int)rng.below(cs.n[2] - 1);
                        cs.ops.push_back(b);
                        Op d = g.direct(sec, k, b.box, *st, false); cs.ops.push_back(d);
                        if (rng.chance(0.6)) { Op d2 = g.direct(sec, kwinfo("PERMX"), b.box, *st, false); cs.ops.push_back(d2); }
                        Op e; e.kind = K_ENDBOX; e.sec = sec; e.kw = "ENDBOX"; cs.ops.push_back(e);
                    } else {
                        Op d = g.direct(sec, k, full, *st, false);
                        if (rng.chance(0.12)) for (auto& v : d.data) if (rng.chance(0.15)) v = 0;     // cells without pore volume
                        cs.ops.push_back(d);
                    }
                }
            }
            int nopen = sec == 'E' ? 0 : (int)rng.below(4);
            for (int q = 0; q < nopen && !any.empty(); ++q) {
                const KwInfo& k = *rng.pick(any);
                if (std::string(k.name) == "PORO" || k.sp == SP_PORV) continue;
                cs.ops.push_back(g.direct(sec, k, full, *st, false));
            }
        }
        int tries = 0;
        while (made < quota[qi] && tries < 60 * (quota[qi] + 1)) {
            ++tries;
            auto st = replay(cs);
            // the input box in force at this point of the section
            {
                Ref r2(cs); r2.fullBox(r2.ibox);
                for (auto& o : cs.ops) if (o.sec == sec) { if (o.kind == K_BOX) r2.ibox = o.box; else if (o.kind == K_ENDBOX) r2.fullBox(r2.ibox); }
                st->ibox = r2.ibox;
            }
            Op op;
            if (!propose(g, sec, *st, op, boxOpen)) continue;
            cs.ops.push_back(op);
            auto after = replay(cs);
            bool ok = after->refusal.empty() && after->finite && intsInRange(*after);
            if (ok && sec == 'E') {
                // Explicit pore volumes and EDIT pore volume multipliers are combined only with every multiplier entered after the
                // last operation on PORV: then "the multiplier scales the pore volumes entered so far" and "multipliers act when the
                // section ends" (the library's rule) agree, and the GRID section multiplier must count exactly once.
                bool mpvEdit = false, porvAfterMpv = false;
                for (auto& o : cs.ops) if (o.sec == 'E') {
                    bool porvHere = false, mpvHere = false;
                    if (o.kind == K_DIRECT) { porvHere = o.kw == "PORV"; mpvHere = o.kw == "MULTPV"; }
                    for (auto& r : o.recs) { porvHere = porvHere || r.a == "PORV" || r.b == "PORV"; mpvHere = mpvHere || r.a == "MULTPV"; }
                    if (porvHere && mpvEdit) porvAfterMpv = true;
                    mpvEdit = mpvEdit || mpvHere;
                }
                if (porvAfterMpv) ok = false;
            }
            if (!ok && fl.expectRefusal && made + 1 == quota[qi] && !after->refusal.empty() && after->finite) { stop = true; break; }
            if (!ok) { cs.ops.pop_back(); continue; }
            ++made;
        }
        if (stop) break;
        // closing repairs / probes of the section
        if (sec == 'G') {
            auto st = replay(cs);
            if (st->has("PORO") && !st->fullyDefined(st->A["PORO"])) {
                Op e; e.kind = K_ENDBOX; e.sec = sec; e.kw = "ENDBOX"; cs.ops.push_back(e);
                Op op; op.kind = K_SCALAR; op.sec = sec; op.kw = "EQUALS"; Rec r; r.a = "PORO"; r.val = 0.2; for (auto& d : r.box.def) d = true; op.recs.push_back(r);
                cs.ops.push_back(op);
            }
        }
        if (sec == 'R' && rng.chance(0.02)) {
            // region assignment to an integer array (quarantined: nothing reads the target afterwards)
            static const char* tg[] = {"PVTNUM", "EQLNUM", "FIPNUM", "MISCNUM"};
            Op op; op.kind = K_REGSCALAR; op.sec = sec; op.kw = "EQUALREG"; Rec r; r.a = tg[rng.below(4)]; r.val = (double)rng.range(2, 7); r.region = (int)rng.range(1, 2); r.regset = 0;
            op.recs.push_back(r); cs.ops.push_back(op);
            auto after = replay(cs);
            if (!after->refusal.empty()) cs.ops.pop_back(); else fl.probeIntReg = true;
        }
        if (sec == 'S' && rng.chance(0.02)) {
            // scalar arithmetic on the temperature array (quarantined: last operation of the deck)
            Op e; e.kind = K_ENDBOX; e.sec = sec; e.kw = "ENDBOX"; cs.ops.push_back(e);
            Op d = g.direct(sec, kwinfo("TEMPI"), Box{{0, 0, 0}, {cs.n[0] - 1, cs.n[1] - 1, cs.n[2] - 1}}, *replay(cs), false); cs.ops.push_back(d);
            Op op; op.kind = K_SCALAR; op.sec = sec; op.kw = rng.chance(0.5) ? "ADD" : "MULTIPLY"; Rec r; r.a = "TEMPI"; r.val = op.kw == "ADD" ? nice(rng.uniform(1, 30), 3) : nice(rng.uniform(1.05, 1.5), 3);
            r.box = g.randSpec(); op.recs.push_back(r); cs.ops.push_back(op);
            fl.probeTemp = true;
        }
    }
    return cs;
}

// ---------------------------------------------------------------------------------------------
// the library under test
// ---------------------------------------------------------------------------------------------
struct LibArr { bool present = false; std::vector<double> v, glob; std::vector<char> has; bool globOk = false; };
struct LibOut {
    bool ok = false; std::string stage, err;
    std::vector<int> actnum;
    std::map<std::string, LibArr> arr;
};

static LibOut runLibrary(const Opm::Parser& parser, const std::string& text, const Case& cs, bool viaEclipseState) {
    LibOut out;
    out.stage = "parse";
    try {
        const auto deck = parser.parseString(text);
        out.stage = "state";
        // either the complete EclipseState, or its first construction steps only
        std::unique_ptr<Opm::EclipseState> es;
        std::unique_ptr<Opm::TableManager> tables;
        std::unique_ptr<Opm::Runspec> runspec;
        std::unique_ptr<Opm::EclipseGrid> ownGrid;
        std::unique_ptr<Opm::FieldPropsManager> ownFp;
        if (viaEclipseState) es = std::make_unique<Opm::EclipseState>(deck);
        else {
            tables = std::make_unique<Opm::TableManager>(deck);
            runspec = std::make_unique<Opm::Runspec>(deck);
            ownGrid = std::make_unique<Opm::EclipseGrid>(deck, nullptr);
            ownFp = std::make_unique<Opm::FieldPropsManager>(deck, runspec->phases(), *ownGrid, *tables, runspec->numComps());
        }
        const Opm::FieldPropsManager& fp = es ? es->fieldProps() : *ownFp;
        const Opm::EclipseGrid& grid = es ? es->getInputGrid() : *ownGrid;
        out.stage = "query";
        out.actnum = grid.getACTNUM();
        if ((int)out.actnum.size() != cs.N) { out.err = "ACTNUM size"; return out; }
        std::vector<int> g2a(cs.N, -1);
        { int a = 0; for (int c = 0; c < cs.N; ++c) if (out.actnum[c]) g2a[c] = a++; if ((size_t)a != fp.active_size()) { out.err = "active_size() disagrees with the grid"; return out; } }
        auto spread = [&](LibArr& la, const std::vector<double>& data, const std::vector<char>& has) {
            la.v.assign(cs.N, NAN); la.has.assign(cs.N, 0);
            for (int c = 0; c < cs.N; ++c) if (g2a[c] >= 0) { la.v[c] = data[g2a[c]]; la.has[c] = has[g2a[c]]; }
        };
        for (int pass = 0; pass < 2; ++pass) for (int i = 0; i < NKW; ++i) {
            const KwInfo& k = KW[i];
            if ((k.sp == SP_PORV) != (pass == 1)) continue;      // pore volume last: asking for it fixes it
            LibArr la;
            if (k.sp == SP_PORV) {
                if (!fp.has_double("PORO")) continue;
                std::vector<double> pv = fp.porv(false);
                if (pv.size() != fp.active_size()) { out.err = "porv size"; return out; }
                la.present = true; spread(la, pv, std::vector<char>(pv.size(), 1));
                std::vector<double> pg = fp.porv(true);
                la.glob = pg; la.globOk = true;
            } else if (k.isInt) {
                const auto* p = fp.try_get<int>(k.name);
                if (!p) { out.arr[k.name] = la; continue; }
                if (p->size() != fp.active_size()) { out.err = std::string("size of ") + k.name; return out; }
                la.present = true;
                std::vector<double> d(p->begin(), p->end());
                spread(la, d, std::vector<char>(d.size(), 1));
                auto gi = fp.get_global_int(k.name); la.glob.assign(gi.begin(), gi.end()); la.globOk = true;
            } else {
                const auto& fd = fp.get_double_field_data(k.name, true);
                if (fd.data.size() != fp.active_size() || fd.value_status.size() != fd.data.size()) { out.err = std::string("size of ") + k.name; return out; }
                la.present = true;
                std::vector<char> has(fd.data.size());
                for (size_t q = 0; q < has.size(); ++q) has[q] = Opm::value::has_value(fd.value_status[q]);
                spread(la, fd.data, has);
                if (fd.valid()) {
                    // the public accessors must show the same numbers
                    const auto& gd = fp.get_double(k.name);
                    if (gd != fd.data) { out.err = std::string("get_double differs from field data: ") + k.name; return out; }
                    la.glob = fp.get_global_double(k.name); la.globOk = true;
                }
            }
            out.arr[k.name] = la;
        }
        out.ok = true;
    } catch (const std::exception& e) {
        out.err = e.what();
    }
    return out;
}

// ---------------------------------------------------------------------------------------------
int main(int argc, char** argv) {
    vh::Args args = vh::parse_args(argc, argv);
    vh::Reporter rep(args, "C12");
    const double TOL = args.getd("tol", 1e-12);
    const double pBig = args.geti("big", 25) / 100.0;      // share of cases with extents up to 6 (else up to 4)
    Opm::Parser parser;

    rep.run_cases([&](long idx, Rng& rng) {
        Flags fl;
        Case cs = genCase(rng, pBig, fl);
        const Units& U = UNITS[cs.unit];
        auto ref = replay(cs);
        const std::string deckA = renderDeck(cs, true), deckB = renderDeck(cs, false);
        if (idx < 2) rep.sample(deckA, 2, 2500);

        // evidence about the workload
        int inactive = 0; for (auto a : cs.eff) inactive += !a;
        bool interiorHole = false;
        for (int c = 0; c < cs.N && !interiorHole; ++c) if (!cs.eff[c]) {
            int i = c % cs.n[0], j = (c / cs.n[0]) % cs.n[1], k = c / (cs.n[0] * cs.n[1]);
            interiorHole = i > 0 && i < cs.n[0] - 1 ? true : (j > 0 && j < cs.n[1] - 1) || (k > 0 && k < cs.n[2] - 1);
        }
        int nops = 0;
        for (auto& op : cs.ops) {
            rep.cover("keyword", op.kind == K_DIRECT ? "<array data>" : op.kw);
            rep.cover("section_ops", secName(op.sec));
            rep.cover("keyword_in_section", std::string(secName(op.sec)) + ":" + (op.kind == K_DIRECT ? "<array data>" : op.kw));
            if (op.kind == K_DIRECT) { rep.cover("array_data", op.kw); for (auto d : op.dflt) if (d) rep.count("defaulted_entries"); }
            for (auto& r : op.recs) {
                rep.cover("target", op.kind == K_COPY || op.kind == K_COPYREG ? r.b : r.a);
                if (op.kind == K_SCALAR || op.kind == K_COPY || op.kind == K_OPERATE) {
                    int nd = 0; for (bool d : r.box.def) nd += d;
                    rep.cover("record_box", nd == 6 ? "inherited" : nd == 0 ? "given" : "partly defaulted");
                }
                if (op.kind == K_REGSCALAR || op.kind == K_COPYREG || op.kind == K_OPERATER) rep.cover("region_set", r.regset < 0 ? "defaulted" : REGSET_NAME[r.regset]);
                if (op.kind == K_OPERATE || op.kind == K_OPERATER) rep.cover("operate_function", r.func);
            }
            ++nops;
        }
        rep.cover("unit_system", U.kw);
        rep.cover("grid_cells", cs.N <= 8 ? "1-8" : cs.N <= 27 ? "9-27" : cs.N <= 64 ? "28-64" : "65-216");
        rep.cover("operations_per_case", nops <= 5 ? "1-5" : nops <= 12 ? "6-12" : nops <= 20 ? "13-20" : "21+");
        rep.cover("actnum", inactive == 0 ? "all active" : interiorHole ? "interior holes" : "boundary holes");

        // odd cases go through the complete EclipseState, even ones through its first construction steps only
        const bool viaES = (idx % 2) == 1;
        LibOut A = runLibrary(parser, deckA, cs, viaES);
        if (viaES && !A.ok && A.stage == "state") {
            LibOut A2 = runLibrary(parser, deckA, cs, false);
            if (A2.ok) { rep.count("refused_by_EclipseState_only"); rep.cover("eclipsestate_only_refusal", A.err.substr(0, 80)); A = A2; }
        }
        LibOut B = runLibrary(parser, deckB, cs, false);
        rep.cover("construction", viaES ? "EclipseState" : "FieldPropsManager constructor");
        auto witness = [&](const std::string& extra) {
            std::ostringstream w; w << extra << "\n--- deck (with ACTNUM) ---\n" << deckA;
            return w.str();
        };
        const bool refRefuses = !ref->refusal.empty();
        // A lower-plane cell took its value from a top plane cell that is inactive: the library is known to lose the
        // value there (own key); everything else that goes wrong in such a case is attributed to that.
        static const std::string TOPKEY = "top-plane-default-inactive-top-cell";
        bool topHazard = false;
        for (auto& pr : ref->topPairs) if (cs.eff[pr.first] && !cs.eff[pr.second]) topHazard = true;
        auto keyOf = [&](const std::string& k) {
            // keys of other specific, separately reported defect classes are kept
            if (k.rfind("offset-unit-arithmetic", 0) == 0 || k.rfind("region-operation-on-integer-array-ignored", 0) == 0 || k.rfind("global-view-", 0) == 0) return k;
            return topHazard ? TOPKEY : k;
        };
        auto shortMsg = [](std::string m) {
            size_t a = m.find("In <memory string>");
            if (a != std::string::npos) { size_t b = m.find('\n', a); m.erase(a, b == std::string::npos ? std::string::npos : b - a + 1); }
            for (auto& ch : m) if (ch == '\n') ch = ' ';
            // drop numbers so that equal messages fall together
            std::string o; for (char ch : m) { if (isdigit((unsigned char)ch)) { if (o.empty() || o.back() != '#') o += '#'; } else o += ch; }
            return o.substr(0, 90);
        };
        // The library keeps a second, all-cells copy of PERM* and MULTZ*; top plane defaults, COPYREG and the definedness set by
        // region operations do not reach it, and later operations on these arrays are then refused (counted apart).
        bool globalCopyHazard = false;
        for (auto& kv : ref->A) if (kv.second.exists && kwinfo(kv.first).glob && (kv.second.afterCopyreg || kv.second.afterRegionOp || kv.second.hadTopDefault)) globalCopyHazard = true;
        for (const LibOut* L : {&A, &B}) {
            if (L->ok) continue;
            if (L->stage == "parse") { rep.count("deck_rejected_by_parser"); rep.cover("parser_message", shortMsg(L->err)); }
            else if (L->stage == "query" && L->err.find("Region Index Out of Bounds") != std::string::npos) {
                // the saturation function defaults (SWL, SGU ...) are read from the table of the cell's SATNUM / IMBNUM: a region
                // number outside 1..NTSFUN (TABDIMS declares 3 here; ADD / COPY on SATNUM can produce 6) is refused when such a
                // default is asked for.  A refusal, not an inconsistency of the accessors.
                rep.count("query_refused_satnum_outside_tabdims");
            }
            else if (L->stage == "query") rep.violation(keyOf("accessor-inconsistent"), L->err, witness(L->err));
            else if (refRefuses) rep.count("refused_as_expected");
            else if (topHazard && L == &A) rep.count("refused_in_top_plane_hazard_case");
            else if (globalCopyHazard) rep.count("refused_after_all_cells_copy_lost_track");
            else {
                rep.count(L == &A ? "refused_unexpected" : "refused_unexpected_all_active"); rep.cover("refusal_message", shortMsg(L->err));
                if (args.geti("dump_refused", 0)) fprintf(stderr, "=== case %ld refused (%s): %s\n%s\n", idx, L == &A ? "input ACTNUM" : "all active", L->err.c_str(), (L == &A ? deckA : deckB).c_str());
            }
        }
        if (refRefuses) { rep.count("cases_reference_refuses"); if (A.ok) rep.count("accepted_where_reference_refuses"); }
        bool nontrivial = false;
        long compared = 0;

        if (A.ok && !refRefuses) {
            // ---- oracle (a): reference interpreter ------------------------------------------
            // active set: input ACTNUM minus cells without pore volume
            std::vector<char> expectActive(cs.N);
            for (int c = 0; c < cs.N; ++c) expectActive[c] = cs.eff[c] && ref->alive[c];
            for (int c = 0; c < cs.N; ++c) {
                if ((A.actnum[c] != 0) == (bool)expectActive[c]) continue;
                bool top = false;
                if (ref->has("PORO")) { int t = ref->A["PORO"].topsrc[c]; top = t >= 0 && !cs.eff[t]; }
                std::ostringstream w; w << "cell " << c << " of " << cs.n[0] << "x" << cs.n[1] << "x" << cs.n[2] << ": library ACTNUM " << A.actnum[c] << ", expected " << int(expectActive[c]);
                rep.violation(keyOf(top ? TOPKEY : "active-set-mismatch"), w.str(), witness(w.str()));
                break;
            }
            for (int i = 0; i < NKW; ++i) {
                const KwInfo& k = KW[i];
                if (k.sp == SP_PORV && !ref->has("PORO")) continue;
                const bool touched = ref->has(k.name);
                if (!touched && !k.hasInit && k.sp == SP_NONE) continue;           // no keyword default: nothing to say
                const Arr& r = ref->get(k.name);
                if (!ref->refusal.empty()) { ref->refusal.clear(); continue; }      // default not defined (cannot happen for accepted decks)
                const LibArr& la = A.arr[k.name];
                long ndef = 0, nact = 0;
                for (int c = 0; c < cs.N; ++c) if (A.actnum[c] && expectActive[c]) { ++nact; if (r.st[c] != UNINIT) ++ndef; }
                if (ndef == 0) continue;
                auto opname = [&](int c) { int o = r.lastop[c]; return o < 0 ? std::string("default") : cs.ops[o].kind == K_DIRECT ? std::string("data") : cs.ops[o].kw; };
                auto classify = [&](int c, const std::string& generic) {
                    int o = r.lastop[c];
                    if (r.topsrc[c] >= 0 && !cs.eff[r.topsrc[c]]) return std::string("top-plane-default-inactive-top-cell");
                    if (o >= 0 && k.dim == D_TEMP && (cs.ops[o].kw == "ADD" || cs.ops[o].kw == "MULTIPLY")) return "offset-unit-arithmetic:" + cs.ops[o].kw + ":" + k.name;
                    if (o >= 0 && k.isInt && cs.ops[o].kind == K_REGSCALAR) return "region-operation-on-integer-array-ignored:" + cs.ops[o].kw;
                    return generic + ":" + (k.isInt ? "int" : "double") + ":" + secName(k.sec) + ":" + opname(c);
                };
                if (!la.present) {
                    if (k.isInt && ndef < nact) { rep.count("integer_arrays_partly_defined_unobservable"); continue; }
                    int c0 = 0; for (int c = 0; c < cs.N; ++c) if (A.actnum[c] && expectActive[c] && r.st[c] != UNINIT) { c0 = c; break; }
                    // an integer array is unavailable when some active cell is undefined in the library
                    int cu = c0;
                    for (int c = 0; c < cs.N; ++c) if (A.actnum[c] && expectActive[c] && r.topsrc[c] >= 0 && !cs.eff[r.topsrc[c]]) cu = c;
                    // ... or a cell that only a region operation defines (known finding: those are skipped for integer arrays), seen in the
                    // thorough tier for an array without default (MISCNUM given in a one-cell BOX, the other cell by EQUALREG)
                    if (k.isInt) for (int c = 0; c < cs.N; ++c) if (A.actnum[c] && expectActive[c] && r.lastop[c] >= 0 && cs.ops[r.lastop[c]].kind == K_REGSCALAR) cu = c;
                    std::string what = std::string(k.name) + " is not available from the library although the reference defines it in every active cell";
                    rep.violation(keyOf(classify(cu, "array-unavailable")), what, witness(what));
                    continue;
                }
                rep.cover("array_compared", k.name);
                bool reported = false;
                for (int c = 0; c < cs.N && !reported; ++c) {
                    if (!A.actnum[c] || !expectActive[c] || r.st[c] == UNINIT) continue;
                    ++compared;
                    rep.cover("cells_by_last_writer", opname(c));
                    const double expect = k.isInt ? r.v[c] : toSI(U, k.dim, r.v[c]);
                    // tolerance: TOL relative to the largest magnitude met while the reference computed the cell
                    // (sums of values of opposite sign cancel); the library works in SI, the reference in deck units.
                    const double scale = k.isInt ? 0 : std::max(std::fabs(expect), std::fabs(toSI(U, k.dim, r.mag[c])));
                    // (pore volumes: 1e-10, the library derives the cell volume from corner points)
                    const double tol = k.isInt ? 0 : (k.sp == SP_PORV ? 100 * TOL : TOL) * scale;
                    bool bad = !la.has[c] || !(std::fabs(la.v[c] - expect) <= tol);
                    if (!bad && !k.isInt && scale > 0) rep.maxof(k.sp == SP_PORV ? "max_rel_diff_porv_agreeing_cells" : "max_rel_diff_agreeing_cells", std::fabs(la.v[c] - expect) / scale);
                    if (bad) {
                        std::ostringstream w; w.precision(17);
                        w << k.name << " cell " << c << " (0-based natural index) of " << cs.n[0] << "x" << cs.n[1] << "x" << cs.n[2] << " " << U.kw << ": library "
                          << (la.has[c] ? "" : "(undefined) ") << la.v[c] << ", reference " << expect << " (deck units " << r.v[c] << "), last written by operation #" << r.lastop[c] << " " << opname(c);
                        rep.violation(keyOf(classify(c, "value-mismatch")), w.str(), witness(w.str()));
                        reported = true;
                    }
                    // all-cells view
                    if (!bad && la.globOk) {
                        rep.count("global_view_comparisons");
                        if (!(std::fabs(la.glob[c] - expect) <= tol)) {
                            std::ostringstream w; w.precision(17);
                            w << k.name << " cell " << c << ": get_global value " << la.glob[c] << " differs from the active-cell value " << la.v[c] << " (reference " << expect << "), last written by " << opname(c);
                            rep.violation(r.topsrc[c] >= 0 ? std::string("global-view-misses-top-plane-default")
                                          : r.afterCopyreg ? std::string("global-view-stale-after-COPYREG")
                                          : r.afterRegionOp ? std::string("global-view-wrong-after-region-operation")
                                          : keyOf("global-view-differs:" + std::string(secName(k.sec)) + ":" + opname(c)), w.str(), witness(w.str()));
                            reported = true;
                        }
                    }
                }
            }
            rep.count("cells_compared_with_reference", compared);
            rep.count("cases_compared_with_reference");
            nontrivial = compared > 0 && nops >= 3;
        }
        if (A.ok && B.ok) {
            // ---- oracle (b): the all-active run ----------------------------------------------
            long cmp = 0;
            bool reported = false;
            for (int i = 0; i < NKW && !reported; ++i) {
                const KwInfo& k = KW[i];
                auto ia = A.arr.find(k.name), ib = B.arr.find(k.name);
                if (ia == A.arr.end() || ib == B.arr.end() || !ia->second.present || !ib->second.present) continue;
                for (int c = 0; c < cs.N; ++c) {
                    if (!A.actnum[c] || !B.actnum[c]) continue;
                    const bool ha = ia->second.has[c], hb = ib->second.has[c];
                    if (!ha && !hb) continue;
                    ++cmp;
                    if (ha != hb || vh::bits(ia->second.v[c]) != vh::bits(ib->second.v[c])) {
                        std::string writer = "?";
                        bool top = false;
                        if (ref->has(k.name)) { const Arr& r = ref->A[k.name]; int o = r.lastop[c]; writer = o < 0 ? "default" : cs.ops[o].kind == K_DIRECT ? "data" : cs.ops[o].kw; top = r.topsrc[c] >= 0 && !cs.eff[r.topsrc[c]]; }
                        std::ostringstream w; w.precision(17);
                        w << k.name << " cell " << c << ": " << (ha ? "" : "(undefined) ") << ia->second.v[c] << " with the input ACTNUM, " << (hb ? "" : "(undefined) ") << ib->second.v[c] << " with all cells active; last written by " << writer;
                        rep.violation(keyOf(top ? TOPKEY : "depends-on-inactive-cells:" + std::string(k.isInt ? "int" : "double") + ":" + secName(k.sec) + ":" + writer), w.str(), witness(w.str()));
                        reported = true;
                        break;
                    }
                }
            }
            // a cell active in the input and dead in one run only
            for (int c = 0; c < cs.N && !reported; ++c) if (cs.eff[c] && (A.actnum[c] != 0) != (B.actnum[c] != 0)) {
                bool top = false;
                if (ref->has("PORO")) { int t = ref->A["PORO"].topsrc[c]; top = t >= 0 && !cs.eff[t]; }
                std::ostringstream w; w << "cell " << c << " is " << (A.actnum[c] ? "active" : "inactive") << " with the input ACTNUM and " << (B.actnum[c] ? "active" : "inactive") << " when all cells start active";
                rep.violation(keyOf(top ? TOPKEY : "active-set-depends-on-inactive-cells"), w.str(), witness(w.str()));
                reported = true;
            }
            rep.count("cells_compared_with_all_active_run", cmp);
            rep.count("cases_compared_with_all_active_run");
        }
        if (fl.probeTemp) rep.count("cases_with_temperature_arithmetic");
        if (fl.probeIntReg) rep.count("cases_with_region_assignment_to_integer_array");
        if (fl.topPlane) rep.count("cases_with_top_plane_only_input");
        if (topHazard) rep.count("cases_with_inactive_top_cell_above_defaulted_cell");
        rep.case_done(vh::fnv(deckA), nontrivial && inactive > 0);
    });
    rep.finish();
    return 0;
}
