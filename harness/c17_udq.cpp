// C17 — UDQ expressions evaluate according to the documented expression semantics.
//
// Part "expr" (most cases): random token sequences from the documented UDQ grammar are evaluated by
//   (a) an independent token-level reference interpreter written here (precedence climbing:
//       parentheses/functions, ^, * / left-to-right, + - left-to-right, comparisons, UADD/UMUL/UMIN/UMAX;
//       element-wise over well/group sets, scalar broadcasting, undefined propagates; reductions and
//       elemental functions per their definitions), and
//   (b) the real UDQDefine(tokens).eval(UDQContext)  (UDQParser / UDQASTNode / UDQSet / UDQFunction),
//   and compared per well/group in value and defined-ness.  The first case indices enumerate every
//   ordered pair of adjacent binary operators (`a op1 b op2 c`).
// Part "hist" (every 41st case): random ASSIGN / DEFINE / UPDATE ON|OFF|NEXT histories are written as deck
//   text, loaded into a Schedule and driven report step by report step through UDQConfig::eval; the
//   UDQState after every step is compared with a small reference history model.
//
// What the statement does not fix is kept out of the comparison (guards, each counted in the evidence):
//   chained a^b^c, a sign directly in front of a ^ operand, division by zero, LN/LOG/AVEG/pow domain errors,
//   non-finite or huge intermediates, ill-conditioned results, NINT at .5, SORTA/SORTD ties, comparisons closer
//   than 1% (the library applies the UDQPARAM tolerance there), chains of comparisons / of union operators whose
//   two groupings differ, reductions or sorts of expressions that are scalars, evaluation-order-dependent DEFINEs.
// Tolerance: the reference carries a forward bound on the rounding error of a correct evaluation along with
//   every value; the library must agree within 32 x that bound + 1e-13 relative.
// Violation keys: the failing expression is reduced to its smallest failing sub-expression (every sub-expression
//   is evaluated on its own by both sides); the key names the library mechanism its top operator runs into
//   (pow-followed-by-mul-div, pow-scalar-with-set, ...), `<mechanism>:in-operand` if such a construct sits in an
//   operand that happened to pass on its own, else expr:<operator>:<symptom> / func:<NAME>:<symptom>.
//   History keys: history:<last record on the quantity that is wrong by itself>.
// Options: hist_every=n (0: expressions only), avoid_known=1 (regenerate expressions that contain a construct
//   with a known mechanism), debug_tol=x.
#include <opm/common/OpmLog/KeywordLocation.hpp>
#include <opm/common/utility/TimeService.hpp>
#include <opm/input/eclipse/Deck/Deck.hpp>
#include <opm/input/eclipse/EclipseState/Grid/EclipseGrid.hpp>
#include <opm/input/eclipse/EclipseState/Grid/FIPRegionStatistics.hpp>
#include <opm/input/eclipse/EclipseState/Grid/FieldPropsManager.hpp>
#include <opm/input/eclipse/EclipseState/Grid/RegionSetMatcher.hpp>
#include <opm/input/eclipse/EclipseState/Runspec.hpp>
#include <opm/input/eclipse/EclipseState/Tables/TableManager.hpp>
#include <opm/input/eclipse/Parser/Parser.hpp>
#include <opm/input/eclipse/Python/Python.hpp>
#include <opm/input/eclipse/Schedule/MSW/SegmentMatcher.hpp>
#include <opm/input/eclipse/Schedule/Schedule.hpp>
#include <opm/input/eclipse/Schedule/ScheduleState.hpp>
#include <opm/input/eclipse/Schedule/SummaryState.hpp>
#include <opm/input/eclipse/Schedule/UDQ/UDQConfig.hpp>
#include <opm/input/eclipse/Schedule/UDQ/UDQContext.hpp>
#include <opm/input/eclipse/Schedule/UDQ/UDQDefine.hpp>
#include <opm/input/eclipse/Schedule/UDQ/UDQFunctionTable.hpp>
#include <opm/input/eclipse/Schedule/UDQ/UDQParams.hpp>
#include <opm/input/eclipse/Schedule/UDQ/UDQSet.hpp>
#include <opm/input/eclipse/Schedule/UDQ/UDQState.hpp>
#include <opm/input/eclipse/Schedule/UDQ/UDT.hpp>
#include <opm/input/eclipse/Schedule/Well/NameOrder.hpp>
#include <opm/input/eclipse/Schedule/Well/WellMatcher.hpp>
#include "common/vh.hpp"
#include <algorithm>
#include <exception>
#include <memory>
#include <optional>
#include <stdexcept>

using vh::Rng;
using Tokens = std::vector<std::string>;

static std::string join(const Tokens& t, size_t a = 0, size_t b = std::string::npos) {
    std::string s;
    for (size_t i = a; i < std::min(b, t.size()); ++i) { if (!s.empty()) s += ' '; s += t[i]; }
    return s;
}

// =============================================================================================
// The world an expression is evaluated in: wells, groups, quantities with defined/undefined entries
// =============================================================================================
struct World {
    std::vector<std::string> wells, groups;
    std::map<std::string, std::map<std::string, double>> wq, gq;   // quantity -> well/group -> value; absent = undefined
    std::map<std::string, double> fq;                               // scalar quantity -> value;     absent = undefined
    const std::vector<std::string>& ents(char dom) const { return dom == 'W' ? wells : groups; }
    std::string text() const {
        std::ostringstream o; o.precision(17);
        o << "wells:"; for (auto& w : wells) o << " " << w;
        o << "\ngroups:"; for (auto& g : groups) o << " " << g;
        o << "\n";
        for (auto& q : wq) { o << q.first << ":"; for (auto& w : wells) { auto i = q.second.find(w); o << " " << w << "="; if (i == q.second.end()) o << "undef"; else o << i->second; } o << "\n"; }
        for (auto& q : gq) { o << q.first << ":"; for (auto& g : groups) { auto i = q.second.find(g); o << " " << g << "="; if (i == q.second.end()) o << "undef"; else o << i->second; } o << "\n"; }
        for (auto& q : fq) o << q.first << " = " << q.second << "\n";
        return o.str();
    }
};
static bool isUdqName(const std::string& q) { return q.size() >= 2 && q[1] == 'U'; }

static const std::vector<std::string> W_SUMMARY = {"WOPR", "WWPR", "WGPR", "WBHP"}, W_UDQ = {"WUA", "WUB", "WUC"},
                                      G_SUMMARY = {"GOPR", "GWPR", "GGPR"}, G_UDQ = {"GUA", "GUB"},
                                      F_SUMMARY = {"FOPR", "FWPR", "FGPR"}, F_UDQ = {"FUA", "FUB", "FUC"};

// =============================================================================================
// Reference interpreter (token level)
// =============================================================================================
struct Val {
    bool set = false;
    std::vector<double> v;      // value
    std::vector<char> d;        // defined?
    std::vector<double> e;      // bound on the rounding error a correct evaluation may carry (forward error analysis)
    size_t size() const { return v.size(); }
    size_t ndef() const { size_t n = 0; for (char c : d) n += c ? 1 : 0; return n; }
};
struct Guard { std::string why; };      // the statement does not decide this input

enum NodeKind { NUM, QTY, SIGN, FUNC, BIN };
struct Node {
    NodeKind kind = NUM;
    std::string s, sel;     // number text | quantity (+selector) | "-"/"+" | function name | operator
    bool hasSel = false;
    int a = -1, b = -1;
    int t0 = 0, t1 = 0;     // token span [t0, t1)
    bool paren = false;     // the span includes an enclosing pair of parentheses
};
struct Ast {
    std::vector<Node> n;
    int root = -1;
    bool powChain = false, signAtPow = false;
    int cmpChain = 0, setChain = 0;     // longest run of comparison / union operators at one level
};

static const std::vector<std::string> SETOPS = {"UADD", "UMUL", "UMIN", "UMAX"}, CMPOPS = {"==", "!=", "<=", ">=", "<", ">"},
                                      REDUCTIONS = {"SUM", "AVEA", "AVEG", "AVEH", "MAX", "MIN", "NORM1", "NORM2", "NORMI", "PROD"},
                                      ELEMENTALS = {"ABS", "DEF", "EXP", "IDV", "LN", "LOG", "NINT", "SORTA", "SORTD", "UNDEF"},
                                      ALLOPS = {"^", "*", "/", "+", "-", "==", "!=", "<=", ">=", "<", ">", "UADD", "UMUL", "UMIN", "UMAX"};
static bool in(const std::vector<std::string>& v, const std::string& s) { return std::find(v.begin(), v.end(), s) != v.end(); }
static bool isNumberTok(const std::string& s) {
    if (s.empty() || !isdigit((unsigned char)s[0])) return false;
    char* e; strtod(s.c_str(), &e); return *e == 0;
}
static bool isQuoted(const std::string& s) { return s.size() >= 2 && s.front() == '\'' && s.back() == '\''; }
static bool isQuantityTok(const std::string& s) {
    return !s.empty() && isalpha((unsigned char)s[0]) && !in(SETOPS, s) && !in(REDUCTIONS, s) && !in(ELEMENTALS, s);
}
static std::string opClass(const std::string& op) {
    if (op == "^") return "pow";
    if (op == "*" || op == "/") return "muldiv";
    if (op == "+" || op == "-") return "addsub";
    if (in(CMPOPS, op)) return "cmp";
    return "union";
}

class RefParser {
public:
    RefParser(const Tokens& t, bool rightAssoc) : tok(t), right(rightAssoc) {}
    Ast parse() {
        ast.root = parseSet();
        if (pos != tok.size()) throw std::logic_error("reference parser: trailing tokens in " + join(tok));
        return std::move(ast);
    }
private:
    const Tokens& tok; bool right; size_t pos = 0; Ast ast;
    bool at(const std::string& s) const { return pos < tok.size() && tok[pos] == s; }
    bool atAny(const std::vector<std::string>& v) const { return pos < tok.size() && in(v, tok[pos]); }
    int add(Node n) { ast.n.push_back(std::move(n)); return (int)ast.n.size() - 1; }
    int bin(const std::string& op, int l, int r) {
        Node n; n.kind = BIN; n.s = op; n.a = l; n.b = r; n.t0 = ast.n[l].t0; n.t1 = ast.n[r].t1; return add(n);
    }
    // a run of equal-rank operators; `leftToRight` false only for the comparison / union levels in the
    // alternative reading (the statement fixes left-to-right for * / + - only)
    template <class Sub> int chain(const std::vector<std::string>& ops, Sub&& sub, bool leftToRight, int* longest) {
        std::vector<int> operands{sub()};
        std::vector<std::string> used;
        while (atAny(ops)) { used.push_back(tok[pos++]); operands.push_back(sub()); }
        if (longest && (int)used.size() > *longest) *longest = (int)used.size();
        if (leftToRight) {
            int acc = operands[0];
            for (size_t i = 0; i < used.size(); ++i) acc = bin(used[i], acc, operands[i + 1]);
            return acc;
        }
        int acc = operands.back();
        for (size_t i = used.size(); i-- > 0;) acc = bin(used[i], operands[i], acc);
        return acc;
    }
    int parseSet() { return chain(SETOPS, [&] { return parseCmp(); }, !right, &ast.setChain); }
    int parseCmp() { return chain(CMPOPS, [&] { return parseAdd(); }, !right, &ast.cmpChain); }
    int parseAdd() { return chain({"+", "-"}, [&] { return parseMul(); }, true, nullptr); }
    int parseMul() { return chain({"*", "/"}, [&] { return parsePow(); }, true, nullptr); }
    int parsePow() {
        int l = parseFactor();
        if (!at("^")) return l;
        ++pos;
        int r = parseFactor();
        if (ast.n[l].kind == SIGN && !ast.n[l].paren) ast.signAtPow = true;
        if (ast.n[r].kind == SIGN && !ast.n[r].paren) ast.signAtPow = true;
        if (at("^")) { ast.powChain = true; while (at("^")) { ++pos; parseFactor(); } }
        return bin("^", l, r);
    }
    int parseFactor() {
        if (pos >= tok.size()) throw std::logic_error("reference parser: unexpected end in " + join(tok));
        const size_t start = pos;
        const std::string& t = tok[pos];
        if (t == "-" || t == "+") {
            ++pos;
            int inner = parseFactor();
            Node n; n.kind = SIGN; n.s = t; n.a = inner; n.t0 = (int)start; n.t1 = ast.n[inner].t1; return add(n);
        }
        if (t == "(") {
            ++pos;
            int inner = parseSet();
            if (!at(")")) throw std::logic_error("reference parser: missing ) in " + join(tok));
            ++pos;
            ast.n[inner].paren = true; ast.n[inner].t0 = (int)start; ast.n[inner].t1 = (int)pos;
            return inner;
        }
        if (in(REDUCTIONS, t) || in(ELEMENTALS, t)) {
            ++pos;
            if (!at("(")) throw std::logic_error("reference parser: function without ( in " + join(tok));
            ++pos;
            int inner = parseSet();
            if (!at(")")) throw std::logic_error("reference parser: missing ) in " + join(tok));
            ++pos;
            Node n; n.kind = FUNC; n.s = t; n.a = inner; n.t0 = (int)start; n.t1 = (int)pos; return add(n);
        }
        if (isNumberTok(t)) { ++pos; Node n; n.kind = NUM; n.s = t; n.t0 = (int)start; n.t1 = (int)pos; return add(n); }
        if (isQuantityTok(t)) {
            ++pos;
            Node n; n.kind = QTY; n.s = t;
            if (pos < tok.size() && (isQuoted(tok[pos]) || (isQuantityTok(tok[pos]) && !isNumberTok(tok[pos])))) {
                n.hasSel = true; n.sel = isQuoted(tok[pos]) ? tok[pos].substr(1, tok[pos].size() - 2) : tok[pos]; ++pos;
            }
            n.t0 = (int)start; n.t1 = (int)pos; return add(n);
        }
        throw std::logic_error("reference parser: unexpected token '" + t + "' in " + join(tok));
    }
};

static bool globMatch(const char* p, const char* s) {
    if (!*p) return !*s;
    if (*p == '*') { for (const char* q = s;; ++q) { if (globMatch(p + 1, q)) return true; if (!*q) return false; } }
    if (!*s) return false;
    if (*p == '?' || *p == *s) return globMatch(p + 1, s + 1);
    return false;
}

struct RefEval {
    const World& w; char dom; const Ast& ast;
    double maxmag = 0;
    // circumstances that other parts of the harness want to know about (they do not change the result)
    bool groupWildcard = false, hazard = false;
    // The library evaluates a number literal as a full set when the DEFINE target is a well/group quantity.
    // That never changes a documented value, but it decides which library code path an operator takes; it is
    // used for the `hazard` flag and for naming violation keys only.
    bool literalsAreSets = false;
    RefEval(const World& w_, char dom_, const Ast& a, bool litSets = false) : w(w_), dom(dom_), ast(a), literalsAreSets(litSets) {}
    bool libShapeIsSet(int i) const {
        const Node& nd = ast.n[i];
        switch (nd.kind) {
        case NUM: return literalsAreSets;
        case QTY: return (nd.s[0] == 'W' || nd.s[0] == 'G') && (!nd.hasSel || nd.sel.find('*') != std::string::npos);
        case SIGN: return libShapeIsSet(nd.a);
        case FUNC: return in(REDUCTIONS, nd.s) ? false : libShapeIsSet(nd.a);
        case BIN: return nd.s == "^" ? libShapeIsSet(nd.a)      // the library's POW returns something shaped like its base
                                     : libShapeIsSet(nd.a) || libShapeIsSet(nd.b);
        }
        return false;
    }

    // a few units in the last place of r: what one correctly rounded operation (or a re-ordered sum) may differ by
    static double ulps(double r) { return 4 * 2.220446049250313e-16 * std::fabs(r); }
    static Val scalar(bool def, double x, double err = 0) { Val r; r.set = false; r.v = {def ? x : 0.0}; r.d = {(char)def}; r.e = {def ? err : 0.0}; return r; }
    size_t n() const { return w.ents(dom).size(); }
    Val blank(bool set) const { Val r; r.set = set; size_t k = set ? n() : 1; r.v.assign(k, 0.0); r.d.assign(k, 0); r.e.assign(k, 0.0); return r; }
    double seen(double x) {
        if (!std::isfinite(x)) throw Guard{"non-finite-intermediate"};
        if (std::fabs(x) > 1e12) throw Guard{"huge-intermediate"};
        if (std::fabs(x) > maxmag) maxmag = std::fabs(x);
        return x;
    }
    void put(Val& r, size_t i, double x, double err) {
        r.v[i] = seen(x); r.d[i] = 1; r.e[i] = err;
        if (!std::isfinite(err) || err > 1e-3 * std::max(std::fabs(x), 1e-300) + 1e-9) throw Guard{"ill-conditioned"};   // nothing left to compare
    }

    Val eval(int i) {
        const Node& nd = ast.n[i];
        switch (nd.kind) {
        case NUM: return scalar(true, seen(strtod(nd.s.c_str(), nullptr)));
        case QTY: return quantity(nd);
        case SIGN: {
            Val r = eval(nd.a);
            if (nd.s == "-") for (size_t k = 0; k < r.size(); ++k) if (r.d[k]) r.v[k] = -r.v[k];
            return r; }
        case FUNC: return in(REDUCTIONS, nd.s) ? reduction(nd) : elemental(nd);
        case BIN: return binary(nd);
        }
        throw std::logic_error("reference: bad node");
    }

    Val quantity(const Node& nd) {
        const char c = nd.s[0];
        if (c == 'F') { auto it = w.fq.find(nd.s); return it == w.fq.end() ? scalar(false, 0) : scalar(true, seen(it->second)); }
        if (c != 'W' && c != 'G') throw std::logic_error("reference: unknown quantity " + nd.s);
        const auto& table = c == 'W' ? w.wq : w.gq;
        static const std::map<std::string, double> none;
        auto qi = table.find(nd.s);
        const auto& vals = qi == table.end() ? none : qi->second;
        if (nd.hasSel && nd.sel.find('*') == std::string::npos) {      // one named well/group: a scalar
            auto it = vals.find(nd.sel);
            return it == vals.end() ? scalar(false, 0) : scalar(true, seen(it->second));
        }
        if (c != dom) throw std::logic_error("reference: set quantity of the other domain " + nd.s);
        if (nd.hasSel && c == 'G') groupWildcard = true;
        Val r = blank(true);
        const auto& e = w.ents(dom);
        for (size_t k = 0; k < e.size(); ++k) {
            if (nd.hasSel && !globMatch(nd.sel.c_str(), e[k].c_str())) continue;
            auto it = vals.find(e[k]);
            if (it != vals.end()) put(r, k, it->second, 0.0);
        }
        return r;
    }

    Val reduction(const Node& nd) {
        Val a = eval(nd.a);
        if (!a.set) {
            // a reduction of something that is not a set: only a bare quantity is let through (the library
            // turns number literals into sets when the target is a well/group quantity)
            if (ast.n[nd.a].kind != QTY) throw Guard{"reduction-of-scalar-expression"};
        }
        std::vector<double> x, ex;
        for (size_t k = 0; k < a.size(); ++k) if (a.d[k]) { x.push_back(a.v[k]); ex.push_back(a.e[k]); }
        if (x.empty()) { hazard = true; return scalar(false, 0); }
        const size_t m = x.size();
        const double cnt = (double)m;
        double r = 0, err = 0;
        const std::string& f = nd.s;
        if (f == "SUM" || f == "AVEA" || f == "NORM1") {
            double mag = 0;
            for (size_t i = 0; i < m; ++i) { r += f == "NORM1" ? std::fabs(x[i]) : x[i]; mag += std::fabs(x[i]); err += ex[i]; }
            err += cnt * ulps(mag);
            if (f == "AVEA") { r /= cnt; err = err / cnt + ulps(r); }
        }
        else if (f == "AVEG") {
            double lerr = 0, lmag = 0;
            for (size_t i = 0; i < m; ++i) {
                if (x[i] <= 0) throw Guard{"AVEG-non-positive"};
                const double l = std::log(x[i]);
                r += l; lmag += std::fabs(l); lerr += ex[i] / x[i] + ulps(l);
            }
            lerr += cnt * ulps(lmag);
            r = std::exp(r / cnt); err = r * (lerr / cnt) + 2 * ulps(r); }
        else if (f == "AVEH") {
            double big = 0, serr = 0;
            for (size_t i = 0; i < m; ++i) {
                if (x[i] == 0) throw Guard{"AVEH-zero"};
                const double t = 1.0 / x[i];
                r += t; big += std::fabs(t); serr += ex[i] / (x[i] * x[i]) + ulps(t);
            }
            serr += cnt * ulps(big);
            if (std::fabs(r) < 1e-6 * big) throw Guard{"AVEH-cancelling"};
            err = cnt * serr / (r * r); r = cnt / r; err += ulps(r); }
        else if (f == "MAX" || f == "MIN" || f == "NORMI") {
            r = f == "NORMI" ? std::fabs(x[0]) : x[0];
            for (size_t i = 0; i < m; ++i) {
                const double v = f == "NORMI" ? std::fabs(x[i]) : x[i];
                r = f == "MIN" ? std::min(r, v) : std::max(r, v); err = std::max(err, ex[i]);
            } }
        else if (f == "NORM2") {
            double serr = 0;
            for (size_t i = 0; i < m; ++i) { r += x[i] * x[i]; serr += 2 * std::fabs(x[i]) * ex[i] + ulps(x[i] * x[i]); }
            serr += cnt * ulps(r);
            r = std::sqrt(r); err = (r > 0 ? serr / (2 * r) : std::sqrt(serr)) + ulps(r); }
        else if (f == "PROD") {
            r = 1;
            for (size_t i = 0; i < m; ++i) { err = std::fabs(r) * ex[i] + std::fabs(x[i]) * err; r = seen(r * x[i]); err += ulps(r); } }
        else throw std::logic_error("reference: reduction " + f);
        Val out = blank(false);
        put(out, 0, r, err);
        return out;
    }

    Val elemental(const Node& nd) {
        Val a = eval(nd.a);
        Val r = blank(a.set);
        const std::string& f = nd.s;
        if (f == "SORTA" || f == "SORTD") {
            if (!a.set) throw Guard{"sort-of-scalar-expression"};
            std::vector<size_t> ix;
            for (size_t k = 0; k < a.size(); ++k) if (a.d[k]) ix.push_back(k);
            for (size_t p = 0; p < ix.size(); ++p) for (size_t q = p + 1; q < ix.size(); ++q) {
                const double x = a.v[ix[p]], y = a.v[ix[q]];
                if (std::fabs(x - y) <= 1e-9 * std::max(std::fabs(x), std::fabs(y)) + 1000 * (a.e[ix[p]] + a.e[ix[q]])) throw Guard{"sort-tie"};
            }
            std::sort(ix.begin(), ix.end(), [&](size_t p, size_t q) { return f == "SORTA" ? a.v[p] < a.v[q] : a.v[p] > a.v[q]; });
            for (size_t p = 0; p < ix.size(); ++p) put(r, ix[p], (double)(p + 1), 0.0);
            return r;
        }
        for (size_t k = 0; k < a.size(); ++k) {
            const bool def = a.d[k]; const double x = a.v[k], ex = a.e[k];
            if (f == "IDV") { put(r, k, def ? 1.0 : 0.0, 0.0); continue; }
            if (f == "UNDEF") { if (!def) put(r, k, 1.0, 0.0); continue; }
            if (!def) continue;
            if (f == "DEF") put(r, k, 1.0, 0.0);
            else if (f == "ABS") put(r, k, std::fabs(x), ex);
            else if (f == "EXP") { const double y = std::exp(x); put(r, k, y, std::fabs(y) * ex + ulps(y)); }
            else if (f == "LN") { if (x <= 0) throw Guard{"LN-non-positive"}; const double y = std::log(x); put(r, k, y, ex / x + ulps(y)); }
            else if (f == "LOG") { if (x <= 0) throw Guard{"LOG-non-positive"}; const double y = std::log10(x); put(r, k, y, ex / (x * std::log(10.0)) + ulps(y)); }
            else if (f == "NINT") {
                if (std::fabs((x - std::floor(x)) - 0.5) <= 1e-6 + 1000 * ex) throw Guard{"NINT-half"};
                put(r, k, std::floor(x + 0.5), 0.0); }
            else throw std::logic_error("reference: elemental " + f);
        }
        return r;
    }

    Val binary(const Node& nd) {
        Val a = eval(nd.a), b = eval(nd.b);
        const std::string& op = nd.s;
        const bool set = a.set || b.set;
        if (libShapeIsSet(nd.a) != libShapeIsSet(nd.b)) {
            const Val& sc = libShapeIsSet(nd.a) ? b : a;
            if (!sc.d[0] || opClass(op) == "union") hazard = true;
        }
        if (op == "^") hazard = true;
        Val r = blank(set);
        const bool tieSafe = !(orderSensitive(nd.a) || orderSensitive(nd.b));
        for (size_t k = 0; k < r.size(); ++k) {
            const size_t ka = a.set ? k : 0, kb = b.set ? k : 0;
            const bool da = a.d[ka], db = b.d[kb];
            const double x = a.v[ka], y = b.v[kb], ex = a.e[ka], ey = b.e[kb];
            if (opClass(op) == "union") {
                if (da && db) {
                    if (op == "UADD") put(r, k, x + y, ex + ey + ulps(x + y));
                    else if (op == "UMUL") put(r, k, x * y, std::fabs(x) * ey + std::fabs(y) * ex + ulps(x * y));
                    else put(r, k, op == "UMIN" ? std::min(x, y) : std::max(x, y), std::max(ex, ey));
                }
                else if (da) put(r, k, x, ex);
                else if (db) put(r, k, y, ey);
                continue;
            }
            if (!(da && db)) continue;      // undefined propagates
            if (op == "+") put(r, k, x + y, ex + ey + ulps(x + y));
            else if (op == "-") put(r, k, x - y, ex + ey + ulps(x - y));
            else if (op == "*") put(r, k, x * y, std::fabs(x) * ey + std::fabs(y) * ex + ulps(x * y));
            else if (op == "/") { if (y == 0) throw Guard{"division-by-zero"}; const double q = x / y; put(r, k, q, (ex + std::fabs(q) * ey) / std::fabs(y) + ulps(q)); }
            else if (op == "^") {
                if (x < 0 && y != std::floor(y)) throw Guard{"pow-negative-base"};
                if (x == 0 && y < 0) throw Guard{"pow-zero-base"};
                if (x == 0 && (ex > 0 || ey > 0)) throw Guard{"ill-conditioned"};
                if (x < 0 && ey > 0) throw Guard{"ill-conditioned"};
                const double p = std::pow(x, y);
                put(r, k, p, x == 0 ? 0.0 : std::fabs(p) * (std::fabs(y) * ex / std::fabs(x) + std::fabs(std::log(std::fabs(x))) * ey) + 2 * ulps(p)); }
            else {
                // comparisons: 1 or 0.  Exactly equal operands and operands more than 1% apart are decided by
                // the statement; in between the library applies its UDQPARAM tolerance -> not compared.
                const double diff = std::fabs(x - y), scale = std::max(std::fabs(x), std::fabs(y));
                if (x != y && (diff <= 0.01 * scale || diff <= 1000 * (ex + ey))) throw Guard{"comparison-near-tie"};
                if (x == y && (ex > 0 || ey > 0) && (op == "<" || op == ">" || 1000 * (ex + ey) > 1e-5 * scale)) throw Guard{"comparison-tie-of-rounded-values"};
                if (x == y && (op == "<" || op == ">") && !tieSafe) throw Guard{"strict-comparison-tie-of-sums"};
                bool t = op == "==" ? x == y : op == "!=" ? x != y : op == "<=" ? x <= y : op == ">=" ? x >= y : op == "<" ? x < y : x > y;
                put(r, k, t ? 1.0 : 0.0, 0.0);
            }
        }
        return r;
    }

    // does the subtree contain a reduction whose rounding depends on the summation order?
    bool orderSensitive(int i) const {
        const Node& nd = ast.n[i];
        if (nd.kind == FUNC && (nd.s == "SUM" || nd.s == "PROD" || nd.s == "AVEA" || nd.s == "AVEG" || nd.s == "AVEH" || nd.s == "NORM1" || nd.s == "NORM2")) return true;
        return (nd.a >= 0 && orderSensitive(nd.a)) || (nd.b >= 0 && orderSensitive(nd.b));
    }
};

struct RefResult {
    Val val; double maxmag = 0; bool groupWildcard = false, hazard = false; Ast ast;
    bool hasAlt = false; Val altVal; Ast altAst;      // right-to-left reading of comparison / union chains, when asked for
};

// evaluate under both groupings of comparison / union chains; Guard if the statement does not decide
static RefResult referenceEvaluate(const World& w, char dom, const Tokens& t, bool literalsAreSets = false, bool keepBothReadings = false) {
    RefResult out;
    out.ast = RefParser(t, false).parse();
    if (out.ast.powChain) throw Guard{"chained-pow"};
    if (out.ast.signAtPow) throw Guard{"sign-at-pow-operand"};
    if (out.ast.cmpChain > 2 || out.ast.setChain > 2) throw Guard{"long-chain"};
    RefEval e(w, dom, out.ast, literalsAreSets);
    out.val = e.eval(out.ast.root);
    out.maxmag = e.maxmag; out.groupWildcard = e.groupWildcard; out.hazard = e.hazard;
    if (out.ast.cmpChain > 1 || out.ast.setChain > 1) {
        Ast alt = RefParser(t, true).parse();
        RefEval e2(w, dom, alt);
        Val v2 = e2.eval(alt.root);
        bool same = v2.set == out.val.set && v2.d == out.val.d;
        for (size_t k = 0; same && k < v2.size(); ++k)
            if (v2.d[k] && std::fabs(v2.v[k] - out.val.v[k]) > 1e-13 * std::fabs(v2.v[k]) + 32 * (v2.e[k] + out.val.e[k])) same = false;
        if (keepBothReadings) { out.hasAlt = true; out.altVal = v2; out.altAst = std::move(alt); out.maxmag = std::max(out.maxmag, e2.maxmag); }
        else if (!same) throw Guard{"grouping-of-equal-rank-comparison-or-union-not-fixed"};
    }
    return out;
}

// both parse trees of an expression that is already known to be decided
static RefResult referenceEvaluateNoThrow(const World& w, char dom, const Tokens& t, bool literalsAreSets) {
    try { return referenceEvaluate(w, dom, t, literalsAreSets, true); }
    catch (const Guard&) { RefResult r; r.ast = RefParser(t, false).parse(); r.altAst = RefParser(t, true).parse(); return r; }
}

// all ordered pairs of binary operators that are adjacent at one nesting level of the token sequence
static std::vector<std::pair<std::string, std::string>> adjacentPairs(const Tokens& t) {
    std::vector<std::pair<std::string, std::string>> out;
    std::vector<std::string> last{""};
    bool operandBefore = false;
    for (const auto& s : t) {
        if (s == "(") { last.push_back(""); operandBefore = false; }
        else if (s == ")") { last.pop_back(); operandBefore = true; }
        else if (in(ALLOPS, s)) {
            if ((s == "+" || s == "-") && !operandBefore) continue;      // a sign
            if (!last.back().empty()) out.emplace_back(last.back(), s);
            last.back() = s; operandBefore = false;
        }
        else if (in(REDUCTIONS, s) || in(ELEMENTALS, s)) { /* its "(" follows */ }
        else operandBefore = true;
    }
    return out;
}

// =============================================================================================
// The library under test
// =============================================================================================
static std::string innermost(const std::exception& e) {
    try { std::rethrow_if_nested(e); }
    catch (const std::exception& in_) { return innermost(in_); }
    catch (...) { return "nested non-standard exception"; }
    return e.what();
}

struct RealWorld {
    Opm::UDQParams params;
    Opm::UDQFunctionTable udqft;
    Opm::SummaryState st;
    Opm::UDQState udq_state;
    Opm::WellMatcher wm;
    std::unordered_map<std::string, Opm::UDT> tables;
    std::unique_ptr<Opm::UDQContext> ctx;

    static Opm::WellMatcher matcher(const World& w) { Opm::NameOrder o; for (auto& x : w.wells) o.add(x); return Opm::WellMatcher(std::move(o)); }
    explicit RealWorld(const World& w)
        : udqft(params), st(Opm::TimeService::from_time_t(0), params.undefinedValue()), udq_state(params.undefinedValue()), wm(matcher(w)) {
        for (auto& q : w.wq) {
            if (isUdqName(q.first)) {
                auto s = Opm::UDQSet::wells(q.first, w.wells);
                for (auto& kv : q.second) s.assign(kv.first, kv.second);
                udq_state.add_assign(q.first, s);
            } else for (auto& kv : q.second) st.update_well_var(kv.first, q.first, kv.second);
        }
        for (auto& q : w.gq) {
            if (isUdqName(q.first)) {
                auto s = Opm::UDQSet::groups(q.first, w.groups);
                for (auto& kv : q.second) s.assign(kv.first, kv.second);
                udq_state.add_assign(q.first, s);
            } else for (auto& kv : q.second) st.update_group_var(kv.first, q.first, kv.second);
        }
        for (auto& q : w.fq) {
            if (isUdqName(q.first)) udq_state.add_assign(q.first, Opm::UDQSet::scalar(q.first, q.second));
            else st.update(q.first, q.second);
        }
        ctx = std::make_unique<Opm::UDQContext>(udqft, wm, tables, Opm::UDQContext::MatcherFactories{}, st, udq_state);
    }
};

struct RealOut {
    bool threw = false, atConstruction = false;
    std::string msg;
    std::vector<std::string> names; std::vector<char> d; std::vector<double> v;
    std::string text() const {
        std::ostringstream o; o.precision(17);
        if (threw) { o << (atConstruction ? "refused at DEFINE: " : "threw in eval: ") << msg; return o.str(); }
        o << "[" << names.size() << "]";
        for (size_t k = 0; k < names.size(); ++k) { o << " " << names[k] << "="; if (d[k]) o << v[k]; else o << "undef"; }
        return o.str();
    }
};

static RealOut realEvaluate(RealWorld& rw, const std::string& target, const Tokens& t) {
    RealOut out;
    std::unique_ptr<Opm::UDQDefine> def;
    try { def = std::make_unique<Opm::UDQDefine>(rw.params, target, 0, Opm::KeywordLocation{}, t); }
    catch (const std::exception& e) { out.threw = out.atConstruction = true; out.msg = innermost(e); return out; }
    try {
        Opm::UDQSet r = def->eval(*rw.ctx);
        for (size_t k = 0; k < r.size(); ++k) {
            out.names.push_back(r[k].wgname());
            out.d.push_back(r[k].defined());
            out.v.push_back(r[k].defined() ? r[k].get() : 0.0);
        }
    }
    catch (const std::exception& e) { out.threw = true; out.msg = innermost(e); }
    return out;
}

// ---------------------------------------------------------------------------------------------
// comparison of one evaluation; returns "" or the symptom
// ---------------------------------------------------------------------------------------------
struct Diff { std::string symptom, detail; int element = -1; double maxErr = 0, maxTolUsed = 0; };     // among agreeing elements: largest relative difference where the error bound is below 1e-13 relative; largest difference / tolerance

static Diff compare(const World& w, char dom, char targetKind, const RefResult& ref, const RealOut& real) {
    Diff df;
    std::ostringstream o; o.precision(17);
    if (real.threw) { df.symptom = "throw"; df.detail = real.msg; return df; }
    // expected per element of the target
    std::vector<std::string> names;
    if (targetKind == 'F') names = {""}; else names = w.ents(dom);
    if (real.names.size() != names.size()) {
        df.symptom = "shape"; o << "result has " << real.names.size() << " elements, expected " << names.size(); df.detail = o.str(); return df;
    }
    for (size_t k = 0; k < names.size(); ++k) {
        size_t j = k;
        if (targetKind != 'F') {
            auto it = std::find(real.names.begin(), real.names.end(), names[k]);
            if (it == real.names.end()) { df.symptom = "shape"; df.detail = "no element for " + names[k]; return df; }
            j = it - real.names.begin();
        }
        const size_t kr = ref.val.set ? k : 0;
        const bool ed = ref.val.d[kr]; const double ev = ref.val.v[kr];
        if (ed != (bool)real.d[j]) {
            df.symptom = ed ? "undefined-but-should-be-defined" : "defined-but-should-be-undefined"; df.element = (int)kr;
            o << (names[k].empty() ? "value" : names[k]) << ": expected "; if (ed) o << ev; else o << "undefined";
            o << ", got "; if (real.d[j]) o << real.v[j]; else o << "undefined";
            df.detail = o.str(); return df;
        }
        // tolerance: rounding only.  The reference carries a forward bound on the rounding error of a correct
        // evaluation (same IEEE operations; sums may be ordered differently); 32 x that bound + 1e-13 relative.
        const double tol = 32 * ref.val.e[kr] + 1e-13 * std::fabs(ev);
        if (ed && ev != 0 && ref.val.e[kr] < 1e-13 * std::fabs(ev)) df.maxErr = std::max(df.maxErr, std::fabs(real.v[j] - ev) / std::fabs(ev));
        if (ed && tol > 0) df.maxTolUsed = std::max(df.maxTolUsed, std::fabs(real.v[j] - ev) / tol);
        if (ed && !(std::fabs(real.v[j] - ev) <= tol)) {
            df.symptom = "value"; df.element = (int)kr;
            o << (names[k].empty() ? "value" : names[k]) << ": expected " << ev << ", got " << real.v[j];
            df.detail = o.str(); return df;
        }
    }
    return df;
}

static std::string targetName(char kind) { return kind == 'F' ? "FUX" : kind == 'W' ? "WUX" : "GUX"; }

// ---------------------------------------------------------------------------------------------
// a stable key for a failing expression: smallest failing sub-expression, then its top operator and
// the shape of its operands
// ---------------------------------------------------------------------------------------------
struct Classified { std::string key, minimal; Diff diff; };

// Names the library mechanism a node of a (minimal) failing expression runs into, "" if none of the ones met
// so far.  Everything here only chooses the violation key; it never decides whether something is a violation.
// Mechanisms whose canonical one-line witness fails in the library this harness is linked with (probed once at
// start-up, see probeMechanisms).  Only these are used as names, and only these are avoided by avoid_known=1:
// once a defect is repaired its name can no longer claim (or hide) anything.
static std::set<std::string> ACTIVE;
static bool active(const char* k) { return ACTIVE.count(k) > 0; }

struct Mechanisms {
    const World& w; char dom; const Ast& a; RefEval e;
    Mechanisms(const World& w_, char dom_, const Ast& a_, bool literalsAreSets) : w(w_), dom(dom_), a(a_), e(w_, dom_, a_, literalsAreSets) {}
    Val operand(int idx) { try { return e.eval(idx); } catch (const Guard&) { return Val{}; } }
    std::string shape(int idx, const Val& v) { return e.libShapeIsSet(idx) ? std::string("set") : (v.d[0] ? "scalar" : "undefined-scalar"); }
    std::string at(int idx) {
        const Node& nd = a.n[idx];
        if (nd.kind == FUNC) {
            if (nd.s == "UNDEF" && active("undef-function-untyped-result")) return "undef-function-untyped-result";
            Val A = operand(nd.a);
            if (in(REDUCTIONS, nd.s) && !A.v.empty() && A.ndef() == 0 && active("reduction-of-all-undefined")) return "reduction-of-all-undefined";
            return "";
        }
        if (nd.kind != BIN) return "";
        const std::string cls = opClass(nd.s);
        Val L = operand(nd.a), R = operand(nd.b);
        if (L.v.empty() || R.v.empty()) return "";
        const std::string kl = shape(nd.a, L), kr = shape(nd.b, R);
        const bool mixed = (kl == "set") != (kr == "set");
        if (cls == "muldiv" && active("pow-followed-by-mul-div")) {
            // does an unparenthesised ^ stand in front of a * or / of this chain?  (every operand but the last)
            std::vector<int> todo{nd.a};
            while (!todo.empty()) {
                int x = todo.back(); todo.pop_back();
                if (a.n[x].kind != BIN || a.n[x].paren) continue;
                if (a.n[x].s == "^") return "pow-followed-by-mul-div";
                if (opClass(a.n[x].s) == "muldiv") { todo.push_back(a.n[x].a); todo.push_back(a.n[x].b); }
            }
        }
        if (mixed && (kl == "undefined-scalar" || kr == "undefined-scalar") && (cls == "addsub" || cls == "muldiv" || cls == "cmp") && active("undefined-scalar-combined-with-set")) return "undefined-scalar-combined-with-set";
        if (cls == "pow" && mixed && active("pow-scalar-with-set")) return "pow-scalar-with-set";
        if (cls == "union" && mixed && active("union-scalar-with-set")) return "union-scalar-with-set";
        const size_t n = std::max(L.size(), R.size());
        for (size_t k = 0; k < n; ++k) {
            const size_t ka = L.set ? k : 0, kb = R.set ? k : 0;
            if (cls == "pow" && L.d[ka] && !R.d[kb] && active("pow-undefined-operand")) return "pow-undefined-operand";
            if (cls == "cmp" && nd.s != "<" && nd.s != ">" && L.d[ka] && R.d[kb]) {
                // (left operand zero, or so small that (lhs - rhs) / lhs overflows)
                if (L.v[ka] != R.v[kb] && (L.v[ka] == 0 || !std::isfinite((L.v[ka] - R.v[kb]) / L.v[ka])) && active("cmp-zero-lhs")) return "cmp-zero-lhs";
                if (L.v[ka] < 0 && L.v[ka] != R.v[kb] && (nd.s == "<=" || nd.s == ">=") && active("cmp-le-ge-negative-lhs")) return "cmp-le-ge-negative-lhs";
            }
        }
        return "";
    }
    std::vector<std::string> all() { std::vector<std::string> r; for (int i = 0; i < (int)a.n.size(); ++i) { std::string m = at(i); if (!m.empty() && !in(r, m)) r.push_back(m); } return r; }
    std::string anywhere() { auto r = all(); return r.empty() ? "" : r[0]; }
};

static Classified classify(const World& w, RealWorld& rw, char dom, char targetKind, const Tokens& t, const Diff& whole) {
    // candidates: every sub-expression (contiguous token span of a node of the reference tree, in either
    // reading of comparison / union chains), small first
    std::set<std::pair<int, int>> spans;
    {
        RefResult both = referenceEvaluateNoThrow(w, dom, t, targetKind != 'F');
        for (const Ast* a : {&both.ast, &both.altAst})
            for (int i = 0; i < (int)a->n.size(); ++i) if (i != a->root) spans.insert({a->n[i].t1 - a->n[i].t0, a->n[i].t0});
    }
    Tokens minTok = t; Diff minDiff = whole; char minTarget = targetKind; int wrapLevels = 0;
    for (auto& sp : spans) {
        Tokens sub(t.begin() + sp.second, t.begin() + sp.second + sp.first);
        try {
            // A scalar sub-expression is evaluated under the original target.  A set sub-expression under a
            // well/group target likewise; under a field target (where it stood inside a reduction, and number
            // literals are scalars) it is evaluated as FUX = SUM( sub ), or SUM( IDV( sub ) ) if it is undefined throughout.
            RefResult r0 = referenceEvaluate(w, dom, sub, false, true);
            const int wrap0 = !(r0.val.set && targetKind == 'F') ? 0 : r0.val.ndef() > 0 ? 1 : 2;
            // (the sum may hide per-element errors that cancel: such a set is also evaluated under a set target)
            bool found = false;
            for (int wrap : (wrap0 ? std::vector<int>{wrap0, 0} : std::vector<int>{0})) {
                const char tk = wrap ? 'F' : r0.val.set ? dom : targetKind;
                Tokens ev;
                if (wrap == 1) ev = {"SUM", "("}; else if (wrap == 2) ev = {"SUM", "(", "IDV", "("};
                ev.insert(ev.end(), sub.begin(), sub.end());
                for (int i = 0; i < wrap; ++i) ev.push_back(")");
                RefResult r = referenceEvaluate(w, dom, ev, tk != 'F', true);
                RealOut ro = realEvaluate(rw, targetName(tk), ev);
                if (ro.threw && ro.msg.find("not yet supported") != std::string::npos) continue;
                Diff d = compare(w, dom, tk, r, ro);
                if (!d.symptom.empty() && r.hasAlt) { RefResult r2 = r; r2.val = r.altVal; if (compare(w, dom, tk, r2, ro).symptom.empty()) d = Diff{}; }
                if (!d.symptom.empty()) { minTok = ev; minDiff = d; minTarget = tk; wrapLevels = wrap; found = true; break; }
            }
            if (found) break;
        }
        catch (const Guard&) { continue; }
    }
    Classified c; c.minimal = targetName(minTarget) + " = " + join(minTok); c.diff = minDiff;
    const std::string sym = minDiff.symptom;
    RefResult both = referenceEvaluateNoThrow(w, dom, minTok, minTarget != 'F');
    auto topOf = [&](const Ast& a) { int x = a.root; for (int i = 0; i < wrapLevels; ++i) x = a.n[x].a; return x; };     // look through the SUM( ) added above
    // 1. the failing operator itself, in the left-to-right reading, then in the other reading of comparison / union chains
    for (const Ast* a : {&both.ast, &both.altAst}) {
        if (a->n.empty()) continue;
        Mechanisms m(w, dom, *a, minTarget != 'F');
        c.key = m.at(topOf(*a));
        if (!c.key.empty()) return c;
    }
    // 2. a comparison whose left operand the library itself evaluates to zero
    {
        const Ast& a = both.ast; const Node& top = a.n[topOf(a)];
        if (top.kind == BIN && opClass(top.s) == "cmp" && top.s != "<" && top.s != ">" && (sym == "throw" || sym == "undefined-but-should-be-defined")) {
            const Node& lhs = a.n[top.a];
            Tokens sub(minTok.begin() + lhs.t0, minTok.begin() + lhs.t1);
            RealOut lo = realEvaluate(rw, targetName(dom), sub);
            if (!lo.threw && active("cmp-zero-lhs")) for (size_t k = 0; k < lo.v.size(); ++k) if (lo.d[k] && lo.v[k] == 0) { c.key = "cmp-zero-lhs"; return c; }
        }
    }
    // 3. the smallest failing expression contains a construct with a known mechanism in an operand that
    //    happened to pass on its own (typically because the library groups the operators differently)
    //    Only where that can explain the symptom: a throw comes from wherever it is raised; a different grouping
    //    (^ before * /, chains of comparisons / unions), a different shape (scalar ^ set comes back as a scalar) or
    //    different defined-ness (x ^ undefined stays x) changes values without failing on its own; otherwise the operator or function at the top is itself at fault and gets its own key below.
    for (const Ast* a : {&both.ast, &both.altAst}) {
        if (a->n.empty()) continue;
        Mechanisms m(w, dom, *a, minTarget != 'F');
        const auto found = m.all();
        if (found.empty()) continue;
        if (sym == "throw" || both.hasAlt) { c.key = found[0] + ":in-operand"; return c; }
        for (const char* k : {"pow-followed-by-mul-div", "pow-scalar-with-set", "pow-undefined-operand"}) if (in(found, k)) { c.key = std::string(k) + ":in-operand"; return c; }
    }
    // 4. nothing recognised: operator / function and operand shapes
    const Ast& a = both.ast;
    Mechanisms m(w, dom, a, minTarget != 'F');
    const Node& top = a.n[topOf(a)];
    if (top.kind == BIN) {
        Val L = m.operand(top.a), R = m.operand(top.b);
        c.key = "expr:" + top.s + ":" + sym;
        c.minimal += "   [operands: " + (L.v.empty() ? "?" : m.shape(top.a, L)) + ", " + (R.v.empty() ? "?" : m.shape(top.b, R)) + "]";
    }
    else if (top.kind == FUNC) c.key = "func:" + top.s + ":" + sym;
    else if (top.kind == QTY) c.key = "quantity:" + std::string(1, top.s[0]) + (isUdqName(top.s) ? "-udq" : "-summary") + (!top.hasSel ? "" : top.sel.find('*') != std::string::npos ? "-wildcard" : "-named") + ":" + sym;
    else c.key = std::string(top.kind == NUM ? "number" : "sign") + ":" + sym;
    return c;
}

// one canonical witness per mechanism, evaluated by both sides exactly like a generated case
static void probeMechanisms(vh::Reporter& rep) {
    World w;
    w.wells = {"P1", "P2", "P3"}; w.groups = {"G1"};
    w.wq["WOPR"] = {{"P1", 1.0}, {"P2", 2.0}, {"P3", 3.0}};
    w.wq["WWPR"] = {{"P1", 10.0}, {"P2", 20.0}};                 // undefined for P3
    w.gq["GOPR"] = {{"G1", 1.0}};
    w.fq["FOPR"] = 2.0;                                           // FU9 and WU9 are undefined
    struct Probe { const char* key; char target; Tokens t; };
    const std::vector<Probe> probes = {
        {"pow-followed-by-mul-div", 'F', {"2", "^", "3", "*", "4"}},
        {"pow-scalar-with-set", 'W', {"WOPR", "^", "FOPR"}},
        {"pow-undefined-operand", 'W', {"WOPR", "^", "WWPR"}},
        {"undefined-scalar-combined-with-set", 'W', {"WOPR", "+", "FU9"}},
        {"union-scalar-with-set", 'W', {"WOPR", "UADD", "FOPR"}},
        {"cmp-zero-lhs", 'F', {"0", "<=", "1"}},
        {"cmp-le-ge-negative-lhs", 'F', {"-", "2", "<=", "-", "1"}},
        {"reduction-of-all-undefined", 'F', {"SUM", "(", "WU9", ")"}},
        {"undef-function-untyped-result", 'W', {"UNDEF", "(", "WWPR", ")"}},
    };
    RealWorld rw(w);
    for (const auto& p : probes) {
        try {
            RefResult r = referenceEvaluate(w, 'W', p.t, p.target != 'F');
            RealOut ro = realEvaluate(rw, targetName(p.target), p.t);
            if (!compare(w, 'W', p.target, r, ro).symptom.empty()) { ACTIVE.insert(p.key); rep.cover("mechanism_probe_fails_in_this_library", std::string(p.key) + "  [" + targetName(p.target) + " = " + join(p.t) + "]"); }
            else rep.cover("mechanism_probe_passes_in_this_library", p.key);
        }
        catch (const Guard& g) { throw std::logic_error(std::string("probe not decidable: ") + p.key + " " + g.why); }
    }
}

// =============================================================================================
// Generators
// =============================================================================================
static double randomValue(Rng& rng) {
    double r = rng.unit();
    if (r < 0.10) return 0.0;
    if (r < 0.25) return -rng.uniform(0.1, 20.0);
    if (r < 0.50) return (double)rng.range(1, 6);
    return rng.loguniform(0.1, 100.0);
}

static World randomWorld(Rng& rng) {
    World w;
    std::vector<std::string> pool = {"P1", "P2", "P3", "I1", "I2", "P10"};
    rng.shuffle(pool);
    int nw = (int)rng.range(2, 6);
    w.wells.assign(pool.begin(), pool.begin() + nw);
    int ng = (int)rng.range(2, 4);
    for (int i = 1; i <= ng; ++i) w.groups.push_back("G" + std::to_string(i));
    auto fill = [&](const std::vector<std::string>& ents, bool mustHaveOne, double pUndef) {
        std::map<std::string, double> m;
        if (!mustHaveOne && rng.chance(0.08)) return m;                 // all undefined
        for (auto& e : ents) if (!rng.chance(pUndef)) m[e] = randomValue(rng);
        if (mustHaveOne && m.empty()) m[rng.pick(ents)] = randomValue(rng);
        return m;
    };
    // summary vectors must exist for at least one well/group (the library refuses unregistered vectors)
    for (auto& q : W_SUMMARY) w.wq[q] = fill(w.wells, true, rng.chance(0.4) ? 0.0 : 0.25);
    for (auto& q : W_UDQ) w.wq[q] = fill(w.wells, false, rng.chance(0.3) ? 0.0 : 0.35);
    for (auto& q : G_SUMMARY) w.gq[q] = fill(w.groups, true, rng.chance(0.4) ? 0.0 : 0.25);
    for (auto& q : G_UDQ) w.gq[q] = fill(w.groups, false, rng.chance(0.3) ? 0.0 : 0.35);
    // every group must be known to the summary state: it enumerates groups from the vectors it holds
    for (auto& g : w.groups) {
        bool any = false;
        for (auto& q : G_SUMMARY) any = any || w.gq[q].count(g);
        if (!any) w.gq[G_SUMMARY[0]][g] = randomValue(rng);
    }
    for (auto& q : F_SUMMARY) w.fq[q] = randomValue(rng);
    for (auto& q : F_UDQ) if (!rng.chance(0.3)) w.fq[q] = randomValue(rng);
    return w;
}

static std::string numberText(Rng& rng) {
    char b[40];
    switch (rng.below(8)) {
    case 0: case 1: case 2: snprintf(b, sizeof b, "%ld", rng.range(0, 10)); break;
    case 3: snprintf(b, sizeof b, "%.1f", rng.uniform(0.0, 20.0)); break;
    case 4: snprintf(b, sizeof b, "%.3f", rng.uniform(0.0, 5.0)); break;
    case 5: { static const char* c[] = {"0.5", "0.25", "1.5", "2.5", "100", "2.0", "1e2", "1.5E1", "3.", "0.1"}; return c[rng.below(10)]; }
    case 6: snprintf(b, sizeof b, "%.2e", rng.loguniform(0.01, 1000.0)); break;
    default: snprintf(b, sizeof b, "%ld", rng.range(1, 4)); break;
    }
    return b;
}

struct ExprGen {
    Rng& rng; const World& w; char dom; int maxDepth; int budget; Tokens t;
    bool groupWildcards = true;     // the library refuses them ("not yet supported"); kept out of the operator-pair cases
    ExprGen(Rng& r, const World& w_, char d, int md, int bud) : rng(r), w(w_), dom(d), maxDepth(md), budget(bud) {}
    void emit(const std::string& s) { t.push_back(s); --budget; }

    std::vector<char> operandTypes(bool S, int k) {
        std::vector<char> ty(k, 0);
        if (!S) return ty;
        for (auto& c : ty) c = rng.chance(0.65);
        if (std::find(ty.begin(), ty.end(), 1) == ty.end()) ty[rng.below(k)] = 1;
        return ty;
    }
    int chainLen(double p1, int maxn) {
        if (budget <= 2) return 0;
        int n = 0;
        while (n < maxn && rng.chance(n == 0 ? p1 : 0.35)) ++n;
        return n;
    }
    void genSet(bool S, int d) {
        int n = chainLen(0.14, 2);
        auto ty = operandTypes(S, n + 1);
        for (int i = 0; i <= n; ++i) { genCmp(ty[i], d); if (i < n) emit(rng.pick(SETOPS)); }
    }
    void genCmp(bool S, int d) {
        int n = chainLen(0.16, 2);
        auto ty = operandTypes(S, n + 1);
        for (int i = 0; i <= n; ++i) { genAdd(ty[i], d); if (i < n) emit(rng.pick(CMPOPS)); }
    }
    void genAdd(bool S, int d) {
        int n = chainLen(0.45, 3);
        auto ty = operandTypes(S, n + 1);
        bool sign = rng.chance(0.10);
        if (sign) emit(rng.chance(0.85) ? "-" : "+");
        for (int i = 0; i <= n; ++i) { genMul(ty[i], d, sign && i == 0); if (i < n) emit(rng.chance(0.5) ? "+" : "-"); }
    }
    void genMul(bool S, int d, bool signedFirst) {
        int n = chainLen(0.40, 3);
        auto ty = operandTypes(S, n + 1);
        for (int i = 0; i <= n; ++i) { genPow(ty[i], d, signedFirst && i == 0); if (i < n) emit(rng.chance(0.55) ? "*" : "/"); }
    }
    void genPow(bool S, int d, bool noPow) {
        if (noPow || budget <= 2 || !rng.chance(0.16)) { genFactor(S, d); return; }
        bool tb = S, te = S;
        if (S) { int c = (int)rng.below(3); tb = c != 2; te = c != 1; }     // set^set, set^scalar, scalar^set
        genFactor(tb, d);
        emit("^");
        if (!te && rng.chance(0.65)) { static const char* c[] = {"2", "3", "0.5", "1", "1.5", "0", "4"}; emit(c[rng.below(7)]); }
        else genFactor(te, d);
    }
    void genFactor(bool S, int d) {
        double r = rng.unit();
        if (d >= maxDepth || budget <= 3 || r < 0.55) { atom(S); return; }
        if (r < 0.72) { emit("("); genSet(S, d + 1); emit(")"); return; }
        if (S) {
            emit(rng.pick(ELEMENTALS)); emit("("); genSet(true, d + 1); emit(")");
        } else if (rng.chance(0.78)) {
            emit(rng.pick(REDUCTIONS)); emit("(");
            if (rng.chance(0.08)) scalarQuantity(); else genSet(true, d + 1);
            emit(")");
        } else {
            static const std::vector<std::string> el = {"ABS", "DEF", "EXP", "IDV", "LN", "LOG", "NINT", "UNDEF"};
            emit(rng.pick(el)); emit("("); genSet(false, d + 1); emit(")");
        }
    }
    void scalarQuantity() {
        if (rng.chance(0.55)) { emit(rng.chance(0.6) ? rng.pick(F_SUMMARY) : rng.pick(F_UDQ)); return; }
        // one named well / group of a well / group quantity: a scalar
        bool wellq = rng.chance(0.7);
        const auto& names = wellq ? (rng.chance(0.7) ? W_SUMMARY : W_UDQ) : (rng.chance(0.7) ? G_SUMMARY : G_UDQ);
        emit(rng.pick(names));
        const std::string e = rng.pick(wellq ? w.wells : w.groups);
        t.push_back(rng.chance(0.8) ? "'" + e + "'" : e);
    }
    void atom(bool S) {
        if (!S) { if (rng.chance(0.45)) emit(numberText(rng)); else scalarQuantity(); return; }
        if (dom == 'W') {
            emit(rng.chance(0.65) ? rng.pick(W_SUMMARY) : rng.pick(W_UDQ));
            if (rng.chance(0.3)) { static const char* p[] = {"'P*'", "'I*'", "'P1*'", "'*'"}; t.push_back(p[rng.below(4)]); }
        } else {
            emit(rng.chance(0.65) ? rng.pick(G_SUMMARY) : rng.pick(G_UDQ));
            if (groupWildcards && rng.chance(0.02)) t.push_back("'G*'");
        }
    }
};

// `a op1 b op2 c` for one ordered pair of operators, optionally embedded
static Tokens directedExpression(Rng& rng, const World& w, char dom, bool S, const std::string& op1, const std::string& op2, int simplicity) {
    ExprGen g(rng, w, dom, simplicity >= 2 ? 0 : (int)rng.range(0, 2), simplicity >= 1 ? 6 : 18);
    g.groupWildcards = false;
    auto ty = g.operandTypes(S, 3);
    for (int i = 0; i < 3; ++i) {
        if (simplicity >= 3 && !ty[i]) g.emit(numberText(rng)); else g.genFactor(ty[i], 1);
        g.budget = std::max(g.budget, 5);
        if (i == 0) g.emit(op1);
        if (i == 1) g.emit(op2);
    }
    Tokens core = g.t;
    int form = simplicity >= 1 ? 0 : (int)rng.below(10);
    if (form < 7) return core;
    Tokens out;
    if (form == 7) { out = {"("}; out.insert(out.end(), core.begin(), core.end()); out.push_back(")"); out.push_back(rng.pick(ALLOPS)); out.push_back(numberText(rng)); if (out[out.size() - 2] == "^") out.back() = "2"; }
    else if (form == 8) { out = {numberText(rng), rng.pick(ALLOPS), "("}; out.insert(out.end(), core.begin(), core.end()); out.push_back(")"); }
    else { out = {"ABS", "("}; out.insert(out.end(), core.begin(), core.end()); out.push_back(")"); }
    return out;
}

// =============================================================================================
// Part "expr": one case
// =============================================================================================
static const int PAIR_VARIANTS = 8;
static bool AVOID_KNOWN = false;
static double DEBUG_TOL = 0;      // debug_tol=x: log agreeing cases that use more than x of the tolerance
static std::vector<std::pair<std::string, std::string>> allPairs() {
    std::vector<std::pair<std::string, std::string>> p;
    for (auto& a : ALLOPS) for (auto& b : ALLOPS) if (!(a == "^" && b == "^")) p.emplace_back(a, b);   // a^b^c: guard
    return p;
}

static void expressionCase(vh::Reporter& rep, long idx, long eidx, Rng& rng) {
    static const auto pairs = allPairs();
    const bool directed = eidx < (long)pairs.size() * PAIR_VARIANTS;
    World w; Tokens t; RefResult ref; char dom = 'W', targetKind = 'F'; bool accepted = false, S = false;
    const int maxAttempts = directed ? 120 : 40;
    for (int attempt = 0; attempt < maxAttempts && !accepted; ++attempt) {
        if (attempt % 8 == 0) w = randomWorld(rng);
        dom = rng.chance(0.7) ? 'W' : 'G';
        S = rng.chance(0.6);
        // a set needs a well/group target; a scalar may go to a field quantity or be spread over a well/group one
        targetKind = S ? dom : (rng.chance(0.6) ? 'F' : dom);
        if (directed) {
            const auto& p = pairs[eidx % pairs.size()];
            t = directedExpression(rng, w, dom, S, p.first, p.second, attempt < 30 ? 0 : attempt < 60 ? 1 : attempt < 90 ? 2 : 3);
        } else {
            ExprGen g(rng, w, dom, (int)rng.range(1, 5), (int)rng.range(6, 40));
            g.genSet(S, 0);
            t = g.t;
        }
        try {
            ref = referenceEvaluate(w, dom, t, targetKind != 'F', true);
            if (ref.hasAlt) {
                bool same = ref.altVal.set == ref.val.set && ref.altVal.d == ref.val.d;
                for (size_t k = 0; same && k < ref.val.size(); ++k)
                    if (ref.val.d[k] && std::fabs(ref.altVal.v[k] - ref.val.v[k]) > 1e-13 * std::fabs(ref.val.v[k]) + 32 * (ref.altVal.e[k] + ref.val.e[k])) same = false;
                if (!same) throw Guard{"grouping-of-equal-rank-comparison-or-union-not-fixed"};
            }
            if (AVOID_KNOWN) {
                // option avoid_known=1: stay away from constructs whose library mechanism already has a finding,
                // so that the rest of the expression space is explored without their noise
                std::string k;
                for (const Ast* a : {&ref.ast, &ref.altAst}) if (!a->n.empty() && k.empty()) k = Mechanisms(w, dom, *a, targetKind != 'F').anywhere();
                if (!k.empty()) { rep.cover("avoided_known_mechanism", k); continue; }
            }
            accepted = true;
        }
        catch (const Guard& gd) { rep.cover("guarded_not_decided_by_statement", gd.why); }
    }
    if (!accepted) { rep.count(directed ? "directed_pair_cases_without_decidable_expression" : "cases_without_decidable_expression"); rep.case_done(0, false); return; }

    if (ref.val.set != S) throw std::logic_error("generator produced the wrong type for " + join(t));
    RealWorld rw(w);
    RealOut real = realEvaluate(rw, targetName(targetKind), t);
    const std::string caseText = targetName(targetKind) + " = " + join(t) + "\n" + w.text();
    const uint64_t h = vh::fnv(caseText);

    if (real.threw && real.msg.find("not yet supported") != std::string::npos) {
        // the library states that it does not support this input (group name wildcards): refused, not wrong
        rep.count("refused_not_yet_supported"); rep.case_done(h, false); return;
    }
    // evidence
    int nbin = 0, nfunc = 0, nqty = 0, depth = 0, cur = 0;
    for (auto& nd : ref.ast.n) {
        if (nd.kind == BIN) { ++nbin; rep.cover("operator", nd.s); }
        if (nd.kind == FUNC) { ++nfunc; rep.cover("function", nd.s); }
        if (nd.kind == QTY) { ++nqty; rep.cover("quantity_form", std::string(1, nd.s[0]) + (isUdqName(nd.s) ? " udq" : " summary") + (!nd.hasSel ? "" : nd.sel.find('*') != std::string::npos ? " wildcard" : " one name")); }
        if (nd.kind == SIGN) rep.cover("operator", "sign " + nd.s);
    }
    for (auto& s : t) { if (s == "(") depth = std::max(depth, ++cur); if (s == ")") --cur; }
    rep.cover("nesting_depth", std::to_string(depth));
    rep.cover("target", std::string(1, targetKind) + (ref.val.set ? " <- set" : " <- scalar"));
    rep.cover("entities", std::to_string(w.ents(dom).size()) + (dom == 'W' ? " wells" : " groups"));
    rep.maxof("max_tokens", (double)t.size());
    for (auto& p : adjacentPairs(t)) { rep.cover("op_pair", p.first + " " + p.second); rep.cover("op_pair after " + p.first, p.second); }
    size_t nd_ = ref.val.ndef();
    rep.cover("result_definedness", nd_ == 0 ? "all undefined" : nd_ == ref.val.size() ? "all defined" : "mixed");
    rep.count("expressions_compared");
    rep.count("elements_compared", (long)(targetKind == 'F' ? 1 : w.ents(dom).size()));
    if (directed) rep.count("directed_pair_cases_compared");
    rep.case_done(h, nbin + nfunc >= 2 && nqty >= 1);
    if (eidx == 0 || eidx == 2000 || eidx == 2001) rep.sample(caseText + "reference: " + [&] { std::ostringstream o; o.precision(17); for (size_t k = 0; k < ref.val.size(); ++k) { o << " "; if (ref.val.d[k]) o << ref.val.v[k]; else o << "undef"; } return o.str(); }() + "\nlibrary:   " + real.text());

    Diff df = compare(w, dom, targetKind, ref, real);
    if (ref.hasAlt) {
        // the two groupings of a comparison / union chain agree up to rounding; the library may follow either
        RefResult other = ref; other.val = ref.altVal;
        Diff d2 = compare(w, dom, targetKind, other, real);
        if (d2.symptom.empty() && (!df.symptom.empty() || d2.maxTolUsed < df.maxTolUsed)) df = d2;
    }
    if (df.symptom.empty()) {
        rep.maxof("max_relative_difference_of_agreeing_well_conditioned_values", df.maxErr);
        rep.maxof("max_difference_over_tolerance", df.maxTolUsed);
        if (DEBUG_TOL > 0 && df.maxTolUsed > DEBUG_TOL) fprintf(stderr, "case %ld agrees using %g of the tolerance\n%slibrary: %s\n", idx, df.maxTolUsed, caseText.c_str(), real.text().c_str());
        return;
    }
    if (real.atConstruction) {
        rep.violation("define-refused", "a DEFINE from the documented grammar is refused: " + real.msg, caseText + "library: " + real.text());
        return;
    }
    Classified c = classify(w, rw, dom, targetKind, t, df);
    std::ostringstream o;
    o << "smallest failing sub-expression `" << c.minimal << "`: " << c.diff.symptom << " (" << c.diff.detail << ")";
    rep.violation(c.key, o.str(), caseText + "library: " + real.text() + "\nwhole expression: " + df.symptom + " (" + df.detail + ")\n" + o.str() + "\ncase index " + std::to_string(idx));
}

// =============================================================================================
// Part "hist": ASSIGN / DEFINE / UPDATE histories through Schedule + UDQConfig::eval
// =============================================================================================
struct HRecord { std::string action, q, sel; double value = 0; std::string valueText; Tokens expr; std::string update; };
struct HStep { std::vector<HRecord> records; double fopr = 0; std::map<std::string, double> wopr; };
struct HQuantity {
    std::string action = "none", status = "ON", lastRecord = "none";
    Tokens expr; bool everDefined = false; int firstMention = -1, lastDefine = -1, defineStep = -1, evaluatedAtStep = -1;
};

static std::string recordText(const HRecord& r) {
    if (r.action == "ASSIGN") return "  ASSIGN " + r.q + (r.sel.empty() ? "" : " '" + r.sel + "'") + " " + r.valueText + " /";
    if (r.action == "DEFINE") return "  DEFINE " + r.q + " " + join(r.expr) + " /";
    return "  UPDATE " + r.q + " " + r.update + " /";
}

struct History {
    std::vector<std::string> wells;
    std::vector<HStep> steps;
    std::string deck() const {
        std::ostringstream o;
        o << "START\n 1 JAN 2020 /\nSCHEDULE\nWELSPECS\n";
        for (size_t i = 0; i < wells.size(); ++i) o << " '" << wells[i] << "' 'G1' " << i + 1 << " 1 1* OIL /\n";
        o << "/\n";
        for (auto& s : steps) {
            if (!s.records.empty()) { o << "UDQ\n"; for (auto& r : s.records) o << recordText(r) << "\n"; o << "/\n"; }
            o << "TSTEP\n 1 /\n";
        }
        return o.str();
    }
};

static const std::vector<std::string> HF = {"FUA", "FUB", "FUC"}, HW = {"WUA", "WUB"};

static Tokens historyExpression(Rng& rng, const std::string& q, const std::vector<std::string>& knownF, const std::vector<std::string>& knownW, const std::vector<std::string>& wells) {
    auto k = [&] { static const char* c[] = {"1", "2", "0.5", "1.5", "3", "10"}; return std::string(c[rng.below(6)]); };
    auto F = [&] { return knownF.empty() || rng.chance(0.25) ? std::string("FOPR") : rng.pick(knownF); };
    auto Wq = [&] { return knownW.empty() || rng.chance(0.3) ? std::string("WOPR") : rng.pick(knownW); };
    const bool self = rng.chance(0.45);
    if (q[0] == 'F') {
        const std::string x = self ? q : F();
        switch (rng.below(7)) {
        case 0: return {x, "+", k()};
        case 1: return {x, "*", k()};
        case 2: return {x, "-", F()};
        case 3: return {"SUM", "(", Wq(), ")", "+", k()};
        case 4: return {"FOPR", "+", x};
        case 5: return {"MAX", "(", "WOPR", ")", "*", k(), "-", x};
        default: return {Wq(), "'" + rng.pick(wells) + "'", "+", x};
        }
    }
    const std::string x = self ? q : Wq();
    switch (rng.below(8)) {
    case 0: return {x, "+", k()};
    case 1: return {x, "*", k()};
    case 2: return {x, "+", "WOPR"};
    case 3: return {"WOPR", "*", k(), "-", x};
    case 4: return {F(), "+", x};
    case 5: return {"SUM", "(", x, ")"};
    case 6: return {x, "UMAX", "WOPR"};
    default: return {F(), "*", k()};
    }
}

static History randomHistory(Rng& rng) {
    History h;
    std::vector<std::string> pool = {"P1", "P2", "P3", "I1"};
    rng.shuffle(pool);
    h.wells.assign(pool.begin(), pool.begin() + rng.range(2, 4));
    const int nsteps = (int)rng.range(3, 8);
    std::vector<std::string> knownF, knownW;        // mentioned so far
    std::map<std::string, bool> everDefined; std::map<std::string, int> defineStep;
    auto known = [&](const std::string& q) { return in(knownF, q) || in(knownW, q); };
    for (int s = 0; s < nsteps; ++s) {
        HStep st;
        st.fopr = std::round(rng.uniform(1, 50) * 4) / 4;
        for (auto& w : h.wells) st.wopr[w] = std::round(rng.uniform(0, 20) * 4) / 4;
        int nrec = s == 0 ? (int)rng.range(2, 6) : (rng.chance(0.65) ? (int)rng.range(1, 4) : 0);
        for (int r = 0; r < nrec; ++r) {
            HRecord rec;
            rec.q = rng.chance(0.55) ? rng.pick(HF) : rng.pick(HW);
            double u = rng.unit();
            const bool canUpdate = everDefined[rec.q] && defineStep[rec.q] < s;
            if (u < 0.22 && canUpdate) {
                rec.action = "UPDATE"; static const char* c[] = {"ON", "OFF", "NEXT"}; rec.update = c[rng.below(3)];
            } else if (u < 0.55 || !known(rec.q)) {
                rec.action = "ASSIGN";
                rec.value = (double)rng.range(0, 40) / 4; char b[32]; snprintf(b, sizeof b, "%g", rec.value); rec.valueText = b;
                if (rec.q[0] == 'W' && !everDefined[rec.q] && rng.chance(0.35)) rec.sel = rng.chance(0.6) ? rng.pick(h.wells) : "P*";
            } else {
                rec.action = "DEFINE";
                rec.expr = historyExpression(rng, rec.q, knownF, knownW, h.wells);
                everDefined[rec.q] = true; defineStep[rec.q] = s;
            }
            if (!known(rec.q)) (rec.q[0] == 'F' ? knownF : knownW).push_back(rec.q);
            st.records.push_back(rec);
        }
        h.steps.push_back(st);
    }
    return h;
}

// The reference history model.  Values: World (fq for F quantities, wq for W quantities, FOPR/WOPR inputs).
struct HistoryModel {
    const History& h; int orderMode;     // 0: DEFINEs evaluated in order of first mention, 1: in order of their latest DEFINE record
    World w; std::map<std::string, HQuantity> q; int seq = 0; bool hazard = false; long definesEvaluated = 0;
    HistoryModel(const History& h_, int mode) : h(h_), orderMode(mode) { w.wells = h.wells; w.groups = {"G1"}; }

    void step(int s) {
        const HStep& st = h.steps[s];
        w.fq["FOPR"] = st.fopr; w.wq["WOPR"].clear();
        for (auto& kv : st.wopr) w.wq["WOPR"][kv.first] = kv.second;
        for (auto& r : st.records) {
            HQuantity& x = q[r.q];
            if (x.firstMention < 0 && r.action != "UPDATE") x.firstMention = seq++;
            if (r.action == "ASSIGN") {
                x.action = "ASSIGN"; x.lastRecord = r.sel.empty() ? "assign" : "assign-selected";
                if (r.q[0] == 'F') w.fq[r.q] = r.value;
                else for (auto& wn : h.wells) if (r.sel.empty() || globMatch(r.sel.c_str(), wn.c_str())) w.wq[r.q][wn] = r.value;
            } else if (r.action == "DEFINE") {
                x.action = "DEFINE"; x.status = "ON"; x.expr = r.expr; x.everDefined = true; x.lastDefine = seq++; x.defineStep = s; x.lastRecord = "define";
            } else if (x.everDefined) {
                x.status = r.update; x.lastRecord = "update-" + r.update;
            }
        }
        std::vector<std::pair<int, std::string>> order;
        for (auto& kv : q) if (kv.second.action == "DEFINE" && kv.second.status != "OFF") order.emplace_back(orderMode == 0 ? kv.second.firstMention : kv.second.lastDefine, kv.first);
        std::sort(order.begin(), order.end());
        for (auto& o : order) {
            HQuantity& x = q[o.second];
            RefResult r;
            try { r = referenceEvaluate(w, 'W', x.expr, o.second[0] == 'W'); } catch (const Guard&) { hazard = true; return; }
            if (r.hazard) { hazard = true; return; }      // would exercise a construct that part "expr" reports on its own
            ++definesEvaluated; x.evaluatedAtStep = s;
            if (o.second[0] == 'F') { if (r.val.d[0]) w.fq[o.second] = r.val.v[0]; else w.fq.erase(o.second); }
            else {
                auto& m = w.wq[o.second]; m.clear();
                for (size_t k = 0; k < h.wells.size(); ++k) { size_t kr = r.val.set ? k : 0; if (r.val.d[kr]) m[h.wells[k]] = r.val.v[kr]; }
            }
            if (x.status == "NEXT") x.status = "OFF";
        }
    }
    bool sameValues(const HistoryModel& o) const {
        for (auto& f : HF) { auto a = w.fq.find(f), b = o.w.fq.find(f); if ((a == w.fq.end()) != (b == o.w.fq.end())) return false; if (a != w.fq.end() && a->second != b->second) return false; }
        for (auto& f : HW) { auto a = w.wq.find(f), b = o.w.wq.find(f); auto ea = a == w.wq.end() ? std::map<std::string, double>{} : a->second, eb = b == o.w.wq.end() ? std::map<std::string, double>{} : b->second; if (ea != eb) return false; }
        return true;
    }
};

static void historyCase(vh::Reporter& rep, long idx, Rng& rng) {
    static Opm::Parser parser;
    History h; bool ok = false;
    for (int attempt = 0; attempt < 30 && !ok; ++attempt) {
        h = randomHistory(rng);
        HistoryModel a(h, 0), b(h, 1);
        ok = true;
        for (int s = 0; s < (int)h.steps.size() && ok; ++s) {
            a.step(s); b.step(s);
            if (a.hazard || b.hazard) { ok = false; rep.cover("history_guard", "uses-construct-reported-by-expression-part"); }
            else if (!a.sameValues(b)) { ok = false; rep.cover("history_guard", "evaluation-order-of-DEFINEs-not-fixed"); }
        }
    }
    if (!ok) { rep.count("history_cases_without_decidable_history"); rep.case_done(0, false); return; }
    const std::string deckText = h.deck();
    const uint64_t hh = vh::fnv(deckText);
    std::ostringstream trace; trace.precision(17);
    trace << deckText << "--- per report step: inputs, then reference values ---\n";
    HistoryModel model(h, 0);
    long comparisons = 0;
    std::set<std::string> kinds;
    try {
        auto deck = parser.parseString(deckText);
        Opm::EclipseGrid grid(4, 1, 1);      // wells sit in cells (1..4, 1); nothing else depends on the grid
        Opm::TableManager table(deck);
        Opm::FieldPropsManager fp(deck, Opm::Phases{true, true, true}, grid, table);
        Opm::Runspec runspec(deck);
        Opm::Schedule sched(deck, grid, fp, runspec, std::make_shared<Opm::Python>());
        const double undef = sched.getUDQConfig(0).params().undefinedValue();
        Opm::UDQState udq_state(undef);
        Opm::SummaryState st(Opm::TimeService::from_time_t(0), undef);
        auto segF = []() { return std::make_unique<Opm::SegmentMatcher>(Opm::ScheduleState{}); };
        auto regF = []() { return std::make_unique<Opm::RegionSetMatcher>(Opm::FIPRegionStatistics{}); };
        for (int s = 0; s < (int)h.steps.size(); ++s) {
            model.step(s);
            st.update("FOPR", h.steps[s].fopr);
            for (auto& kv : h.steps[s].wopr) st.update_well_var(kv.first, "WOPR", kv.second);
            sched.getUDQConfig(s).eval(s, sched.wellMatcher(s), segF, regF, st, udq_state);
            trace << "step " << s << ": FOPR=" << h.steps[s].fopr;
            for (auto& kv : h.steps[s].wopr) trace << " WOPR:" << kv.first << "=" << kv.second;
            trace << "\n";
            for (auto& r : h.steps[s].records) kinds.insert(r.action == "UPDATE" ? "UPDATE " + r.update : r.action + (r.sel.empty() ? "" : " selected wells"));
            // compare every quantity that has been mentioned so far
            std::map<std::string, std::pair<std::string, std::string>> wrong;     // quantity -> (symptom, description)
            for (auto& kv : model.q) {
                const std::string& name = kv.first;
                if (kv.second.firstMention < 0) continue;
                std::vector<std::string> ents = name[0] == 'F' ? std::vector<std::string>{""} : h.wells;
                for (auto& e : ents) {
                    bool ed; double ev = 0, gv = 0; bool gd;
                    if (name[0] == 'F') {
                        auto it = model.w.fq.find(name); ed = it != model.w.fq.end(); if (ed) ev = it->second;
                        gd = udq_state.has(name); if (gd) gv = udq_state.get(name);
                    } else {
                        auto& m = model.w.wq[name]; auto it = m.find(e); ed = it != m.end(); if (ed) ev = it->second;
                        gd = udq_state.has_well_var(e, name); if (gd) gv = udq_state.get_well_var(e, name);
                    }
                    ++comparisons;
                    trace << "   " << name << (e.empty() ? "" : ":" + e) << " reference "; if (ed) trace << ev; else trace << "undef";
                    trace << " library "; if (gd) trace << gv; else trace << "undef"; trace << "\n";
                    const bool bad = ed != gd || (ed && std::fabs(ev - gv) > 1e-9 * std::max(1.0, std::fabs(ev)));
                    // the summary state must show the same number (or the UDQ undefined value)
                    bool badSummary = false; double sv = 0;
                    if (!bad) {
                        bool has = name[0] == 'F' ? st.has(name) : st.has_well_var(e, name);
                        if (has) { sv = name[0] == 'F' ? st.get(name) : st.get_well_var(e, name); badSummary = std::fabs(sv - (ed ? ev : undef)) > 1e-9 * std::max(1.0, std::fabs(ev)); }
                        else badSummary = ed;
                    }
                    if ((bad || badSummary) && !wrong.count(name)) {
                        std::ostringstream o; o.precision(17);
                        o << "report step " << s << " " << name << (e.empty() ? "" : ":" + e) << ": reference history model "; if (ed) o << ev; else o << "undefined";
                        if (bad) { o << ", UDQState "; if (gd) o << gv; else o << "undefined"; } else o << ", SummaryState " << sv;
                        o << " (last record on it: " << kv.second.lastRecord << ", DEFINE status " << kv.second.status << ")";
                        wrong[name] = {bad ? (ed != gd ? (ed ? "undefined" : "defined") : "value") : "summary-state", o.str()};
                    }
                }
            }
            if (!wrong.empty()) {
                // name the quantity that is wrong by itself, not one that merely reads a wrong quantity
                // (first choice: one the reference did not evaluate in this step at all; then one whose DEFINE reads no wrong quantity)
                std::string pick;
                for (auto& kv : wrong) if (pick.empty() && model.q[kv.first].evaluatedAtStep != s) pick = kv.first;
                for (auto& kv : wrong) {
                    const HQuantity& x = model.q[kv.first];
                    bool readsWrong = false;
                    for (auto& tk : x.expr) if (tk != kv.first && wrong.count(tk)) readsWrong = true;
                    if (pick.empty() && !readsWrong) pick = kv.first;
                }
                if (pick.empty()) pick = wrong.begin()->first;
                rep.violation("history:" + model.q[pick].lastRecord, wrong[pick].first + ": " + wrong[pick].second, trace.str() + wrong[pick].second + "\ncase index " + std::to_string(idx));
                rep.case_done(hh, true);
                return;
            }
        }
    }
    catch (const std::exception& e) {
        // a DEFINE that is evaluated although the reference has it switched off can run into anything
        std::string key = "history:throw";
        for (auto& kv : model.q) if (kv.second.lastRecord == "update-NEXT" || kv.second.lastRecord == "update-OFF") key = "history:" + kv.second.lastRecord;
        rep.violation(key, "a valid ASSIGN/DEFINE/UPDATE history made the library throw: " + innermost(e), trace.str() + "exception: " + innermost(e) + "\ncase index " + std::to_string(idx));
        rep.case_done(hh, true);
        return;
    }
    for (auto& k : kinds) rep.cover("history_record", k);
    rep.cover("history_steps", std::to_string(h.steps.size()));
    rep.count("histories_compared");
    rep.count("history_value_comparisons", comparisons);
    rep.count("history_define_evaluations", model.definesEvaluated);
    rep.case_done(hh, model.definesEvaluated >= 2);
    if (idx == 40) rep.sample(trace.str(), 3, 2500);
}

int main(int argc, char** argv) {
    vh::Args args = vh::parse_args(argc, argv);
    vh::Reporter rep(args, "C17");
    const long histEvery = args.geti("hist_every", 41);       // coprime with the shard count
    AVOID_KNOWN = args.geti("avoid_known", 0) != 0;
    DEBUG_TOL = args.getd("debug_tol", 0);
    probeMechanisms(rep);
    rep.run_cases([&](long idx, Rng& rng) {
        if (histEvery > 0 && idx % histEvery == histEvery - 1) historyCase(rep, idx, rng);
        else expressionCase(rep, idx, histEvery > 0 ? idx - idx / histEvery : idx, rng);
    });
    rep.finish();
    return 0;
}
