// C08 — unified restart files keep a consistent history under rewinds and crashes.
//
// mode=seq    A sequence of report-step writes (OutputStream::Restart, unified) is applied to one
//             file.  After every write the file must equal, byte for byte,
//                 previous file cut at the first step >= s   +   the step written into an empty file
//             (sequential model: write(s) drops every step >= s and appends s), the reference codec
//             must see strictly increasing SEQNUMs ending in s with the arrays of the surviving
//             writes, ERst must read those arrays back, and at the end the file must equal the file
//             obtained by writing the surviving steps into a fresh directory.
//             idx enumerates all sequences of length <= L over steps 0..N x {unformatted, formatted},
//             later indices are random longer sequences.
// mode=trunc  An unformatted file produced by a random sequence is cut at every byte offset (the
//             offsets of one file are split over `chunks` cases).  On every prefix: the steps and
//             arrays listed must be ones that were written, and every (step, array) read must return
//             exactly what was written or throw.  Prefixes that end on a step boundary and the whole
//             file must read completely.  The first `lra_cases` indices call ERst::listOfRstArrays on
//             the prefixes instead of the named reads (sanitizer stage).  poison=1: the stack below every
//             library call on a cut file is pre-filled with the length word of the cut record (see
//             poisonStack) so that a reader going on after a short read is caught whatever ran before.
#include <opm/io/eclipse/ERst.hpp>
#include <opm/io/eclipse/EclFile.hpp>
#include <opm/io/eclipse/OutputStream.hpp>
#include <opm/io/eclipse/PaddedOutputString.hpp>

#include "common/ecl_ref_codec.hpp"
#include "common/vh.hpp"

#include <algorithm>
#include <dirent.h>
#include <filesystem>
#include <fstream>
#include <memory>

namespace ecl = Opm::EclIO;
namespace OS = Opm::EclIO::OutputStream;
namespace fs = std::filesystem;
using vh::Rng;

static const char* KEY_STRAY = "formatted-rewind-stray-byte";

// ---------------------------------------------------------------------------------------------
// what one report-step write puts into the file (after the SEQNUM array the stream adds itself)
// ---------------------------------------------------------------------------------------------
struct StepContent {
    int step = 0;
    std::vector<eref::Array> arrays;
    std::vector<char> padded;        // CHAR written through PaddedOutputString<8> instead of std::string
    std::vector<eref::Array> onDisk() const {
        std::vector<eref::Array> v;
        eref::Array s; s.name = "SEQNUM"; s.type = eref::INTE; s.iv = {step};
        v.push_back(s);
        v.insert(v.end(), arrays.begin(), arrays.end());
        return v;
    }
    std::string text() const {
        std::string o = "write step " + std::to_string(step) + ":";
        for (const auto& a : arrays) o += " " + eref::describe(a, 2);
        return o;
    }
};

struct MenuItem { const char* name; eref::Type type; };
static const MenuItem MENU[] = {
    {"INTEHEAD", eref::INTE}, {"LOGIHEAD", eref::LOGI}, {"DOUBHEAD", eref::DOUB}, {"IGRP", eref::INTE}, {"XGRP", eref::DOUB}, {"ZGRP", eref::CHAR},
    {"IWEL", eref::INTE}, {"XWEL", eref::DOUB}, {"ZWEL", eref::CHAR}, {"ICON", eref::INTE}, {"STARTSOL", eref::MESS}, {"PRESSURE", eref::REAL},
    {"SWAT", eref::REAL}, {"RS", eref::REAL}, {"ENDSOL", eref::MESS}, {"LOGIAUX", eref::LOGI}};
static const int NMENU = sizeof MENU / sizeof *MENU;

static long stepArrayLength(Rng& r, eref::Type t, bool allowBig, bool& usedBig) {
    const long B = eref::block_elems(t);
    const uint64_t k = r.below(100);
    if (allowBig && !usedBig && k < 22) { usedBig = true; return B + r.range(-1, 2); }        // straddles a record boundary
    if (allowBig && !usedBig && k < 26) { usedBig = true; return 2 * B + r.range(-1, 1); }
    if (k < 40) return (long)r.below(4);
    return (long)r.below(12);
}

// Values are multiples of 1/16 with at most 8 significant digits, so that formatted files hold them exactly.
static StepContent genStep(Rng& r, int step, int maxBig) {
    StepContent c; c.step = step;
    const int k = 3 + (int)r.below(4);
    std::vector<int> pick(NMENU); for (int i = 0; i < NMENU; ++i) pick[i] = i;
    r.shuffle(pick); pick.resize(k); std::sort(pick.begin(), pick.end());
    int big = 0;
    // As in real restart files, the arrays of one family have the same number of elements (all cell arrays,
    // all per-well arrays, all per-group arrays), so consecutive arrays often have records of equal length.
    long family[3] = {-1, -1, -1};
    const bool families = r.chance(0.6);
    for (int m : pick) {
        eref::Array a; a.name = MENU[m].name; a.type = MENU[m].type;
        bool usedBig = false;
        long n = a.type == eref::MESS ? 0 : stepArrayLength(r, a.type, big < maxBig, usedBig);
        if (usedBig) ++big;
        const std::string nm = a.name;
        const int fam = (nm == "PRESSURE" || nm == "SWAT" || nm == "RS") ? 0 : (nm == "IWEL" || nm == "XWEL" || nm == "ZWEL") ? 1 : (nm == "IGRP" || nm == "XGRP" || nm == "ZGRP") ? 2 : -1;
        if (families && fam >= 0) {
            if (family[fam] < 0) family[fam] = std::min<long>(n, a.type == eref::CHAR ? n : 3L * eref::STR_BLOCK);   // a later CHAR member must stay small
            else { n = family[fam]; if (usedBig) --big; }
        }
        char pad = 0;
        switch (a.type) {
        case eref::INTE: a.iv.resize(n); for (auto& x : a.iv) x = (int32_t)r.range(-99999, 99999); if (n > 0 && r.chance(0.3)) a.iv[0] = step; break;
        case eref::REAL: a.rv.resize(n); for (auto& x : a.rv) x = (float)r.range(-99999, 99999) / 16.0f; break;
        case eref::DOUB: a.dv.resize(n); for (auto& x : a.dv) x = (double)r.range(-99999, 99999) / 16.0; break;
        case eref::LOGI: a.lv.resize(n); for (auto& x : a.lv) x = (unsigned char)r.below(2); break;
        case eref::CHAR:
            a.sv.resize(n);
            for (auto& x : a.sv) { int len = (int)r.below(9); x.clear(); for (int i = 0; i < len; ++i) x.push_back((char)('A' + r.below(26))); }
            pad = r.chance(0.5);
            // a string longer than 8 characters makes the writer switch to the C0nn type (element width = longest string); with more
            // strings than fit on one 80 column line the formatted array spans several lines
            if (!pad && n > 0 && r.chance(0.25)) {
                size_t width = 0;
                for (auto& x : a.sv) if (r.chance(0.5)) { int len = 9 + (int)r.below(16); x.clear(); for (int i = 0; i < len; ++i) x.push_back((char)('a' + r.below(26))); }
                a.sv[r.below(a.sv.size())] = std::string(9 + r.below(16), 'Q');
                for (auto& x : a.sv) width = std::max(width, x.size());
                a.type = eref::C0NN; a.width = (int)width;
            }
            break;
        default: break;
        }
        c.arrays.push_back(a); c.padded.push_back(pad);
    }
    return c;
}

static std::string unifiedName(const std::string& dir, bool fmt) { return dir + "/CASE." + (fmt ? "FUNRST" : "UNRST"); }

static void libWriteStep(const std::string& dir, bool fmt, const StepContent& c) {
    OS::ResultSet rset{dir, "CASE"};
    OS::Restart rst(rset, c.step, OS::Formatted{fmt}, OS::Unified{true});
    for (size_t i = 0; i < c.arrays.size(); ++i) {
        const auto& a = c.arrays[i];
        switch (a.type) {
        case eref::INTE: rst.write(a.name, std::vector<int>(a.iv.begin(), a.iv.end())); break;
        case eref::REAL: rst.write(a.name, a.rv); break;
        case eref::DOUB: rst.write(a.name, a.dv); break;
        case eref::LOGI: { std::vector<bool> b(a.lv.size()); for (size_t k = 0; k < b.size(); ++k) b[k] = a.lv[k] != 0; rst.write(a.name, b); break; }
        case eref::CHAR:
            if (c.padded[i]) { std::vector<ecl::PaddedOutputString<8>> p; for (const auto& x : a.sv) p.emplace_back(x); rst.write(a.name, p); }
            else rst.write(a.name, a.sv);
            break;
        case eref::C0NN: rst.write(a.name, a.sv); break;
        case eref::MESS: rst.message(a.name); break;
        default: break;
        }
    }
}

static void cleanDir(const std::string& d) {
    if (DIR* dp = opendir(d.c_str())) {
        while (dirent* e = readdir(dp)) { if (e->d_name[0] == '.') continue; ::unlink((d + "/" + e->d_name).c_str()); }
        closedir(dp);
    } else mkdir(d.c_str(), 0755);
}

// read one array of a report step through ERst into the reference representation
static eref::Array erstGet(ecl::ERst& r, const eref::Array& want, int step) {
    eref::Array a; a.name = want.name; a.type = want.type;
    switch (want.type) {
    case eref::INTE: { const auto& v = r.getRestartData<int>(want.name, step, 0); a.iv.assign(v.begin(), v.end()); break; }
    case eref::REAL: a.rv = r.getRestartData<float>(want.name, step, 0); break;
    case eref::DOUB: a.dv = r.getRestartData<double>(want.name, step, 0); break;
    case eref::LOGI: { const auto& v = r.getRestartData<bool>(want.name, step, 0); a.lv.resize(v.size()); for (size_t k = 0; k < v.size(); ++k) a.lv[k] = v[k]; break; }
    case eref::CHAR: a.sv = r.getRestartData<std::string>(want.name, step, 0); break;
    case eref::C0NN: a.sv = r.getRestartData<std::string>(want.name, step, 0); a.width = want.width; break;
    default: break;
    }
    return a;
}
static ecl::eclArrType libType(eref::Type t) {
    switch (t) {
    case eref::INTE: return ecl::INTE; case eref::REAL: return ecl::REAL; case eref::DOUB: return ecl::DOUB; case eref::LOGI: return ecl::LOGI;
    case eref::CHAR: return ecl::CHAR; case eref::C0NN: return ecl::C0NN; case eref::MESS: return ecl::MESS;
    }
    return ecl::MESS;
}

struct Survivor { int step; int pos; size_t start; };

// Hostile environment for the truncation readers.  A reader that does not notice a short read goes on
// with whatever its local variables held before; which value that is depends on the calls made
// earlier (valgrind: "conditional jump depends on uninitialised value" in readBinaryArray on cut files).
// To make the outcome a function of the case and not of the call history, the stack below the caller
// is filled, before every library call on a cut file, with the one word that is worst for a reader of
// this file: the big-endian length of the record the cut falls into.  Correct code never reads it.
static bool POISON = false;      // stage argument poison=1
__attribute__((noinline)) static void poisonStack(uint32_t recordLength) {
    if (!POISON) return;
    const uint32_t asStoredInFile = __builtin_bswap32(recordLength);
    volatile uint32_t area[24576];       // 96 KB below the caller's frame
    for (size_t i = 0; i < sizeof area / sizeof *area; ++i) area[i] = asStoredInFile;
    asm volatile("" ::: "memory");
}
// length word of the record (header or data record) that contains byte c of the file, 16 at a boundary
static uint32_t recordLengthAt(const std::vector<eref::Entry>& index, long c) {
    for (const auto& e : index) {
        if (c < (long)e.header_off || c >= (long)e.end_off) continue;
        if (c < (long)e.data_off) return 16;
        const long B = eref::block_elems(e.type), es = eref::elem_bytes(e.type, e.width);
        long pos = (long)e.data_off, rest = (long)e.count;
        while (rest > 0) {
            const long m = std::min(B, rest), bytes = m * es;
            if (c < pos + 8 + bytes) return (uint32_t)bytes;
            pos += 8 + bytes; rest -= m;
        }
    }
    return 16;
}

static std::string seqText(const std::vector<int>& seq, bool fmt) {
    std::string o = std::string(fmt ? "formatted" : "unformatted") + " unified restart file, report steps written in this order:";
    for (int s : seq) o += " " + std::to_string(s);
    return o + "\n";
}

// ---------------------------------------------------------------------------------------------
// mode=seq
// ---------------------------------------------------------------------------------------------
struct SeqRunner {
    vh::Reporter& rep;
    std::string dirReal, dirOne, dirFresh;

    // returns the final file bytes; `states` receives the file after every write when wanted
    void run(const std::vector<int>& seq, bool fmt, Rng& rng, int maxBig, bool deepReads) {
        const std::string F = fmt ? "fmt" : "unf";
        cleanDir(dirReal); cleanDir(dirFresh);
        std::string cur;
        std::vector<Survivor> surv;
        std::vector<StepContent> contents;
        bool tainted = false;
        std::string witness = seqText(seq, fmt);
        auto viol = [&](const std::string& key, const std::string& what) { rep.violation(key, what, witness + what + "\n"); };
        int rewinds = 0;

        for (size_t p = 0; p < seq.size(); ++p) {
            const int s = seq[p];
            contents.push_back(genStep(rng, s, maxBig));
            const StepContent& c = contents.back();
            witness += "  " + c.text() + "\n";
            rep.journal_note(witness);

            // the step written into an empty directory
            cleanDir(dirOne);
            std::string one;
            try { libWriteStep(dirOne, fmt, c); one = vh::read_file(unifiedName(dirOne, fmt)); }
            catch (const std::exception& e) { viol("write-threw:" + F, std::string("writing step ") + std::to_string(s) + " into an empty directory threw: " + std::string(e.what()).substr(0, 300)); return; }
            {   // it must be SEQNUM{s} followed by the arrays handed to the stream
                std::vector<eref::Array> dec; std::vector<eref::Entry> ix; std::string err;
                const bool ok = fmt ? eref::decode_formatted(one, dec, ix, err) : eref::decode_unformatted(one, dec, ix, err);
                const auto want = c.onDisk();
                std::string why;
                bool same = ok && dec.size() == want.size();
                for (size_t i = 0; same && i < want.size(); ++i) same = eref::equal_exact(want[i], dec[i], why);
                rep.count("comparisons_single_step_files");
                if (!same) { viol("step-encoding:" + F, "step " + std::to_string(s) + " written into an empty file is not SEQNUM{" + std::to_string(s) + "} followed by its arrays: " + (ok ? (why.empty() ? "array count " + std::to_string(dec.size()) : why) : err)); return; }
            }

            // the same write into the file with history
            try { libWriteStep(dirReal, fmt, c); }
            catch (const std::exception& e) { viol("write-threw:" + F, "write of step " + std::to_string(s) + " (position " + std::to_string(p) + ") threw: " + std::string(e.what()).substr(0, 300)); return; }
            const std::string act = vh::read_file(unifiedName(dirReal, fmt));

            size_t k = 0; while (k < surv.size() && surv[k].step < s) ++k;
            const bool rewind = k < surv.size();
            const size_t cut = rewind ? surv[k].start : cur.size();
            if (rewind) { ++rewinds; rep.count("rewinds"); rep.cover("rewind_drops_steps", std::to_string(surv.size() - k)); if (k == 0) rep.count("rewinds_to_before_first_step"); if (surv[k].step == s) rep.count("rewrites_of_an_existing_step"); }
            else rep.count("appends");
            rep.count("comparisons_file_after_write");
            const std::string expect = cur.substr(0, cut) + one;
            size_t newStart = cut;
            if (act != expect) {
                tainted = true;
                std::string what = "after writing step " + std::to_string(s) + " (write no. " + std::to_string(p + 1) + ") the file has " + std::to_string(act.size()) + " bytes, expected " +
                                   std::to_string(expect.size()) + " (previous file cut at " + std::to_string(cut) + " of " + std::to_string(cur.size()) + " + " + std::to_string(one.size()) + " bytes of the new step)";
                const bool endsWithStep = act.size() >= one.size() && act.compare(act.size() - one.size(), one.size(), one) == 0;
                const size_t m = endsWithStep ? act.size() - one.size() : 0;
                const bool keepsPrefix = endsWithStep && m <= cur.size() && act.compare(0, m, cur, 0, m) == 0;
                if (fmt && rewind && keepsPrefix && m == cut + 1) {
                    viol(KEY_STRAY, what + ": one byte of the dropped step's header line survives the rewind: " + vh::jstr(act.substr(cut > 20 ? cut - 20 : 0, 60)));
                    newStart = cut + 1;      // keep going: the next writes are judged relative to this file
                } else {
                    std::string key;
                    if (!endsWithStep) key = "written-step-not-last:" + F;
                    else if (!keepsPrefix) key = "earlier-steps-changed:" + F;
                    else if (m == cur.size() && rewind) key = "rewind-not-truncated:" + F;
                    else if (m > cut) key = "rewind-keeps-too-much:" + F;
                    else key = "rewind-cuts-too-much:" + F;
                    size_t d = 0; while (d < act.size() && d < expect.size() && act[d] == expect[d]) ++d;
                    viol(key, what + "; first difference at byte " + std::to_string(d) + (endsWithStep ? "; the new step starts at byte " + std::to_string(m) : ""));
                    return;
                }
            }
            surv.resize(k); surv.push_back({s, (int)p, newStart});
            cur = act;

            if (tainted) continue;
            // independent view of the structure: the reference decoder on the whole file
            {
                std::vector<eref::Array> dec; std::vector<eref::Entry> ix; std::string err;
                const bool ok = fmt ? eref::decode_formatted(act, dec, ix, err) : eref::decode_unformatted(act, dec, ix, err);
                rep.count("comparisons_structure");
                if (!ok) { viol("structure-undecodable:" + F, "file after write no. " + std::to_string(p + 1) + " is not a sequence of arrays: " + err); return; }
                std::vector<int> seqnums; std::vector<size_t> at;
                for (size_t i = 0; i < dec.size(); ++i) if (dec[i].name == "SEQNUM" && dec[i].type == eref::INTE && dec[i].iv.size() == 1) { seqnums.push_back(dec[i].iv[0]); at.push_back(i); }
                bool inc = true; for (size_t i = 1; i < seqnums.size(); ++i) if (seqnums[i] <= seqnums[i - 1]) inc = false;
                std::string lst; for (int v : seqnums) lst += " " + std::to_string(v);
                if (!inc) { viol("steps-not-increasing:" + F, "SEQNUM values after write no. " + std::to_string(p + 1) + ":" + lst); return; }
                if (seqnums.empty() || seqnums.back() != s) { viol("written-step-not-last:" + F, "SEQNUM values after writing step " + std::to_string(s) + ":" + lst); return; }
                bool sameSteps = seqnums.size() == surv.size(); for (size_t i = 0; sameSteps && i < surv.size(); ++i) sameSteps = seqnums[i] == surv[i].step;
                if (!sameSteps) { viol("surviving-steps:" + F, "SEQNUM values after write no. " + std::to_string(p + 1) + ":" + lst + ", the sequential model keeps " + std::to_string(surv.size()) + " steps"); return; }
                at.push_back(dec.size());
                for (size_t i = 0; i < surv.size(); ++i) {
                    const auto want = contents[surv[i].pos].onDisk();
                    bool same = at[i + 1] - at[i] == want.size(); std::string why = "array count";
                    for (size_t j = 0; same && j < want.size(); ++j) same = eref::equal_exact(want[j], dec[at[i] + j], why);
                    if (!same) { viol("step-content:" + F, "step " + std::to_string(surv[i].step) + " in the file does not hold the arrays of the write that should have survived (write no. " + std::to_string(surv[i].pos + 1) + "): " + why); return; }
                }
            }
            // the library's own reader
            if (p + 1 == seq.size() || (deepReads && rng.chance(0.3))) {
                try {
                    ecl::ERst r(unifiedName(dirReal, fmt));
                    rep.count("comparisons_erst_files");
                    const auto steps = r.listOfReportStepNumbers();
                    bool same = steps.size() == surv.size(); for (size_t i = 0; same && i < surv.size(); ++i) same = steps[i] == surv[i].step;
                    if (!same) { std::string lst; for (int v : steps) lst += " " + std::to_string(v); viol("erst-steps:" + F, "ERst lists report steps" + lst + " after write no. " + std::to_string(p + 1)); return; }
                    for (const auto& sv : surv) for (const auto& a : contents[sv.pos].arrays) {
                        if (a.type == eref::MESS) { if (!r.hasArray(a.name, sv.step)) viol("erst-array-missing:" + F, "ERst does not find " + a.name + " in step " + std::to_string(sv.step)); continue; }
                        std::string why; const eref::Array got = erstGet(r, a, sv.step);
                        rep.count("comparisons_erst_arrays");
                        if (!eref::equal_exact(a, got, why)) { viol("erst-value:" + F + ":" + eref::type_name(a.type), "ERst returns " + a.name + " of step " + std::to_string(sv.step) + " differently: " + why); return; }
                    }
                } catch (const std::exception& e) { viol("erst-threw:" + F, "ERst threw on the file after write no. " + std::to_string(p + 1) + ": " + std::string(e.what()).substr(0, 300)); return; }
            }
        }
        rep.cover("rewinds_per_sequence", std::to_string(std::min(rewinds, 6)));
        rep.cover("surviving_steps_at_end", std::to_string(surv.size()));
        if (tainted) { rep.count("sequences_not_compared_with_fresh_file_after_a_violation"); return; }
        // the statement itself: the file equals the surviving steps written into a fresh directory
        try { for (const auto& sv : surv) libWriteStep(dirFresh, fmt, contents[sv.pos]); }
        catch (const std::exception& e) { viol("write-threw:" + F, std::string("writing the surviving steps into a fresh directory threw: ") + std::string(e.what()).substr(0, 300)); return; }
        const std::string fresh = vh::read_file(unifiedName(dirFresh, fmt));
        rep.count("comparisons_final_vs_fresh");
        rep.count("bytes_compared", (long)fresh.size());
        if (fresh != cur) {
            size_t d = 0; while (d < fresh.size() && d < cur.size() && fresh[d] == cur[d]) ++d;
            viol("final-differs-from-fresh:" + F, "final file (" + std::to_string(cur.size()) + " bytes) differs from the surviving steps written into a fresh directory (" + std::to_string(fresh.size()) + " bytes) at byte " + std::to_string(d));
        }
    }
};

// number of sequences of length 1..L over an alphabet of A steps
static long enumCount(int A, int L) { long t = 0, pw = 1; for (int l = 1; l <= L; ++l) { pw *= A; t += pw; } return t; }
static std::vector<int> enumSequence(long e, int A, int L) {
    long pw = 1;
    for (int l = 1; l <= L; ++l) {
        pw *= A;
        if (e < pw) { std::vector<int> s(l); for (int i = l - 1; i >= 0; --i) { s[i] = (int)(e % A); e /= A; } return s; }
        e -= pw;
    }
    return {};
}

// ---------------------------------------------------------------------------------------------
// mode=trunc
// ---------------------------------------------------------------------------------------------
struct FileState {
    std::string bytes;
    std::vector<Survivor> surv;
    std::vector<eref::Entry> index;      // reference index of the complete file
};

int main(int argc, char** argv) {
    vh::Args args = vh::parse_args(argc, argv);
    vh::Reporter rep(args, "C08");
    const std::string mode = args.get("mode", "seq");
    const std::string scratch = vh::scratch_dir(args);
    SeqRunner runner{rep, scratch + "/real", scratch + "/one", scratch + "/fresh"};
    cleanDir(runner.dirReal); cleanDir(runner.dirOne); cleanDir(runner.dirFresh);

    if (mode == "seq") {
        const int L = (int)args.geti("L", 4), N = (int)args.geti("N", 4);
        const int Lr = (int)args.geti("Lrandom", 8), Nr = (int)args.geti("Nrandom", 9);
        const long nEnum = 2 * enumCount(N + 1, L);
        rep.run_cases([&](long idx, Rng& rng) {
            std::vector<int> seq; bool fmt;
            if (idx < nEnum) { fmt = idx & 1; seq = enumSequence(idx / 2, N + 1, L); rep.cover("case_kind", "enumerated"); }
            else {
                fmt = rng.chance(0.5);
                const int len = (int)rng.range(L + 1, std::max(L + 1, Lr));
                const int top = (int)rng.range(2, Nr);
                for (int i = 0; i < len; ++i) {
                    // mostly advancing with occasional rewinds, as restarted runs do; sometimes uniformly random
                    if (i > 0 && rng.chance(0.6)) seq.push_back(std::min(seq.back() + (int)rng.range(1, 2), 9999));
                    else seq.push_back((int)rng.range(0, top));
                }
                rep.cover("case_kind", "random");
            }
            rep.cover("format", fmt ? "formatted" : "unformatted");
            rep.cover("sequence_length", std::to_string(seq.size()));
            std::string t = seqText(seq, fmt);
            rep.case_done(vh::fnv(t), seq.size() >= 2);
            if (idx == 2 * (N + 1) + 7 || idx == nEnum) rep.sample(t);
            runner.run(seq, fmt, rng, idx < nEnum ? 1 : 2, true);
        });
        rep.finish();
        return 0;
    }

    // ---- mode=big: the same rewind rules with the write positions beyond 2^31 and 2^32 bytes -------------------------------------
    // The bulk of the first report step is one REAL array put into the file as array header + file hole (sparse, nothing is
    // written to disk): the library reads only array headers when it indexes a file and looks for the write position, so offsets
    // of later report steps are as large as in a field-scale run.  The file is never read as a whole; the oracle uses the file
    // size, the list of report steps the library reports, the bytes of the rewritten step, and 64 KiB windows ahead of the cut.
    if (mode == "big") {
        auto window = [](const std::string& fn, uint64_t from, uint64_t len) { std::string b(len, '\0'); std::ifstream is(fn, std::ios::binary); is.seekg((std::streamoff)from); is.read(&b[0], (std::streamsize)len); b.resize((size_t)is.gcount()); return b; };
        rep.run_cases([&](long idx, Rng& rng) {
            cleanDir(runner.dirReal);
            const std::string fn = unifiedName(runner.dirReal, false);
            std::string witness = "unformatted unified file with a sparse bulk array\n";
            auto viol = [&](const std::string& key, const std::string& what) { rep.violation(key, what, witness + what + "\n"); };
            struct Sv { int step; uint64_t start; };
            std::vector<Sv> surv;
            int s = (int)rng.range(1, 3);
            try {
                libWriteStep(runner.dirReal, false, genStep(rng, s, 1));
                surv.push_back({s, 0});
                static const uint64_t T[] = {1ull << 31, 1ull << 32, (1ull << 32) + (1ull << 31)};
                const uint64_t target = T[idx % 3] + rng.below(1 << 20);
                uint64_t cur = fs::file_size(fn);
                const uint64_t n = (target - cur) / 4;        // REAL elements: the array ends a little beyond the target
                {
                    std::ofstream os(fn, std::ios::binary | std::ios::app);
                    auto put32 = [&](uint32_t v) { unsigned char b[4] = {(unsigned char)(v >> 24), (unsigned char)(v >> 16), (unsigned char)(v >> 8), (unsigned char)v}; os.write((const char*)b, 4); };
                    put32(16); os.write("BULK    ", 8); put32((uint32_t)n); os.write("REAL", 4); put32(16);
                }
                fs::resize_file(fn, fs::file_size(fn) + 4 * n + 8 * ((n + 999) / 1000));
                witness += "  step " + std::to_string(s) + " + sparse REAL array of " + std::to_string(n) + " elements: file size " + std::to_string(fs::file_size(fn)) + "\n";
                const int later = (int)rng.range(2, 4);
                for (int q = 0; q < later; ++q) { s += (int)rng.range(1, 3); const uint64_t at = fs::file_size(fn); libWriteStep(runner.dirReal, false, genStep(rng, s, 1)); surv.push_back({s, at}); witness += "  append step " + std::to_string(s) + " at byte " + std::to_string(at) + "\n"; }
                rep.maxof("largest_write_position", (double)surv.back().start);
                const int nrew = (int)rng.range(1, 3);
                for (int q = 0; q < nrew; ++q) {
                    // a step number at or above the first one beyond the bulk array (a rewind into the first step would drop the bulk)
                    const int lo = surv.size() > 1 ? surv[1].step : surv[0].step + 1;
                    const int r = (int)rng.range(lo, surv.back().step + 1);
                    StepContent c = genStep(rng, r, 1);
                    cleanDir(runner.dirOne);
                    libWriteStep(runner.dirOne, false, c);
                    const std::string one = vh::read_file(unifiedName(runner.dirOne, false));
                    size_t k = 0; while (k < surv.size() && surv[k].step < r) ++k;
                    const uint64_t before = fs::file_size(fn);
                    const uint64_t cut = k < surv.size() ? surv[k].start : before;
                    const std::string ahead = window(fn, cut >= 65536 ? cut - 65536 : 0, cut >= 65536 ? 65536 : cut), head = window(fn, 0, 4096);
                    witness += "  write step " + std::to_string(r) + (k < surv.size() ? " (rewind to byte " + std::to_string(cut) + ")" : " (append)") + "\n";
                    rep.journal_note(witness);
                    libWriteStep(runner.dirReal, false, c);
                    rep.count(k < surv.size() ? "rewinds_beyond_2GiB" : "appends_beyond_2GiB");
                    rep.cover("write_position_range", cut >= (1ull << 32) ? ">= 2^32" : cut >= (1ull << 31) ? "[2^31, 2^32)" : "< 2^31");
                    const uint64_t after = fs::file_size(fn);
                    if (after != cut + one.size()) { viol("big:file-size-after-write", "after writing step " + std::to_string(r) + " the file has " + std::to_string(after) + " bytes, expected " + std::to_string(cut) + " + " + std::to_string(one.size())); return; }
                    if (window(fn, cut, one.size()) != one) { viol("big:written-step-not-last", "the bytes behind the cut are not the step as written into an empty file"); return; }
                    if (window(fn, cut >= 65536 ? cut - 65536 : 0, cut >= 65536 ? 65536 : cut) != ahead || window(fn, 0, 4096) != head) { viol("big:earlier-steps-changed", "bytes ahead of the write position changed"); return; }
                    surv.resize(k); surv.push_back({r, cut});
                    ecl::ERst rst(fn);
                    std::vector<int> want; for (auto& v : surv) want.push_back(v.step);
                    if (rst.listOfReportStepNumbers() != want) { std::string g; for (int x : rst.listOfReportStepNumbers()) g += std::to_string(x) + " "; viol("big:report-steps", "the library lists report steps " + g + "after the write"); return; }
                    rep.count("comparisons_big_file_after_write");
                }
            } catch (const std::exception& e) { viol("big:threw", std::string("exception: ") + std::string(e.what()).substr(0, 300)); }
            cleanDir(runner.dirReal);
            rep.case_done(vh::fnv(witness), true);
            if (idx < 1) rep.sample(witness);
        });
        rep.finish();
        return 0;
    }

    // ---- mode=trunc ----------------------------------------------------------------------------
    const int L = (int)args.geti("L", 4), N = (int)args.geti("N", 5);
    const long chunks = args.geti("chunks", 16);
    const long lraCases = args.geti("lra_cases", 0);
    POISON = args.geti("poison", 0) != 0;
    const bool every = args.geti("every_state", 0) != 0;      // truncate the file after every write, not only the final one
    const std::string fn = scratch + "/T.UNRST";

    rep.run_cases([&](long idx, Rng&) {
        const bool lra = idx < lraCases;
        const long j = lra ? idx : idx - lraCases;
        const long q = j / chunks, chunk = j % chunks;
        Rng rng(args.seed, 0x5eed000000ULL + (uint64_t)q);       // the sequence depends on q only: all chunks cut the same file
        std::vector<int> seq;
        const int len = (int)rng.range(1, L);
        // mostly advancing (files with several steps), sometimes a rewind or a rewrite of the same step
        for (int i = 0; i < len; ++i) seq.push_back(i > 0 && rng.chance(0.75) ? seq.back() + (int)rng.range(1, 2) : (int)rng.range(0, N));
        std::string witness = seqText(seq, false);

        // build the file(s) with the library, keeping the model
        cleanDir(runner.dirReal);
        std::vector<StepContent> contents; std::vector<Survivor> surv;
        std::vector<FileState> states;
        bool bigUsed = false;
        for (size_t p = 0; p < seq.size(); ++p) {
            contents.push_back(genStep(rng, seq[p], bigUsed ? 0 : 1));
            for (const auto& a : contents.back().arrays) if (a.count() > 100) bigUsed = true;
            witness += "  " + contents.back().text() + "\n";
            try { libWriteStep(runner.dirReal, false, contents.back()); }
            catch (const std::exception& e) { rep.violation("write-threw:unf", e.what(), witness); return; }
            size_t k = 0; while (k < surv.size() && surv[k].step < seq[p]) ++k;
            surv.resize(k); surv.push_back({seq[p], (int)p, 0});
            if (every || p + 1 == seq.size()) { FileState st; st.bytes = vh::read_file(unifiedName(runner.dirReal, false)); st.surv = surv; states.push_back(st); }
        }
        // reference index of every state; the step boundaries come from it
        for (auto& st : states) {
            std::vector<eref::Array> dec; std::string err;
            if (!eref::decode_unformatted(st.bytes, dec, st.index, err)) { rep.violation("structure-undecodable:unf", err, witness); return; }
            size_t i = 0, n = 0;
            for (const auto& e : st.index) { if (e.name == "SEQNUM") { if (n < st.surv.size()) st.surv[n].start = e.header_off; ++n; } ++i; }
            size_t expectArrays = 0; for (const auto& sv : st.surv) expectArrays += 1 + contents[sv.pos].arrays.size();
            if (n != st.surv.size() || st.index.size() != expectArrays) {
                // the history itself is wrong: that is mode=seq's finding; nothing to truncate here
                rep.violation("surviving-steps:unf", "file holds " + std::to_string(n) + " steps / " + std::to_string(st.index.size()) + " arrays, the sequential model " + std::to_string(st.surv.size()) + " / " + std::to_string(expectArrays), witness);
                return;
            }
        }
        // offsets of all states, split into `chunks` contiguous ranges
        long total = 0; for (const auto& st : states) total += (long)st.bytes.size() + 1;
        const long lo = total * chunk / chunks, hi = total * (chunk + 1) / chunks;
        rep.case_done(vh::fnv(states.back().bytes, (uint64_t)(chunk * 2 + (lra ? 1 : 0))), hi > lo && !seq.empty());
        rep.cover("case_kind", lra ? "listOfRstArrays on prefixes" : "named reads on prefixes");
        rep.cover("stack_below_library_calls", POISON ? "filled with the cut record's length word" : "left as it is");
        rep.cover("sequence_length", std::to_string(seq.size()));
        rep.cover("steps_in_file", std::to_string(states.back().surv.size()));
        rep.maxof("max_file_size", (double)states.back().bytes.size());
        if (idx == lraCases) rep.sample(witness + "file of " + std::to_string(states.back().bytes.size()) + " bytes; this case cuts it at offsets " + std::to_string(lo) + ".." + std::to_string(hi - 1) + " of " + std::to_string(total));

        long base = 0;
        for (const auto& st : states) {
            const long size = (long)st.bytes.size();
            // this case's offsets of this state, longest first: the file is written once and then shortened byte by byte
            const long cFirst = std::max(0L, lo - base), cLast = std::min(size, hi - 1 - base);
            if (cFirst <= cLast) vh::write_file(fn, st.bytes.substr(0, (size_t)cLast));
            for (long c = cLast; c >= cFirst; --c) {
                if (c != cLast && ::truncate(fn.c_str(), (off_t)c) != 0) { fprintf(stderr, "truncate failed\n"); exit(3); }
                rep.count("prefixes");
                // does the prefix consist of complete steps only?  Then it is a legitimate file and must read completely.
                bool complete = c == size;
                for (const auto& sv : st.surv) if ((long)sv.start == c && c > 0) complete = true;
                if (complete) rep.count("prefixes_ending_on_a_step_boundary");
                const std::string where = "file cut at byte " + std::to_string(c) + " of " + std::to_string(size);
                if (lra || c == cLast) rep.journal_note(witness + where + (lra ? " (listOfRstArrays)" : " and below (named reads)"));   // witness if the process dies
                auto viol = [&](const std::string& key, const std::string& what) { rep.violation(key, where + ": " + what, witness + where + ": " + what + "\n"); };

                std::unique_ptr<ecl::ERst> rp;
                const uint32_t poison = recordLengthAt(st.index, c);
                try { poisonStack(poison); rp.reset(new ecl::ERst(fn)); }
                catch (const std::exception& e) {
                    rep.count("prefixes_refused");
                    if (complete && c > 0) viol("complete-prefix-unreadable", std::string("the prefix holds complete steps only, yet ERst refuses it: ") + std::string(e.what()).substr(0, 200));
                    continue;
                }
                ecl::ERst& r = *rp;
                // listing: arrays
                const auto list = r.getList();
                bool listOk = list.size() <= st.index.size();
                for (size_t i = 0; listOk && i < list.size(); ++i) {
                    const auto& e = st.index[i];
                    listOk = std::get<0>(list[i]) == e.name && std::get<1>(list[i]) == libType(e.type) && std::get<2>(list[i]) == e.count && (long)e.header_off + 20 <= c;   // name, count and type lie inside the cut
                }
                rep.count("comparisons_listing");
                if (!listOk) { viol("phantom-array", "EclFile lists " + std::to_string(list.size()) + " arrays; they are not the leading arrays of the file whose header (name, count, type) lies inside the cut"); continue; }
                // listing: steps
                const auto steps = r.listOfReportStepNumbers();
                bool stepsOk = steps.size() <= st.surv.size();
                for (size_t i = 0; stepsOk && i < steps.size(); ++i) stepsOk = steps[i] == st.surv[i].step && (long)st.surv[i].start < c;
                if (!stepsOk) { std::string lst; for (int v : steps) lst += " " + std::to_string(v); viol("phantom-step", "ERst lists report steps" + lst); continue; }
                if (complete) {
                    size_t want = 0; for (const auto& sv : st.surv) if ((long)sv.start < c) ++want;
                    if (steps.size() != want) viol("complete-prefix-unreadable", "the prefix holds " + std::to_string(want) + " complete steps, ERst lists " + std::to_string(steps.size()));
                }
                if (lra) {
                    for (size_t i = 0; i < steps.size(); ++i) {
                        const auto want = contents[st.surv[i].pos].onDisk();
                        rep.count("listOfRstArrays_calls");
                        try {
                            poisonStack(poison);
                            const auto l = r.listOfRstArrays(steps[i]);
                            bool ok = l.size() <= want.size() && !l.empty();
                            for (size_t k = 0; ok && k < l.size(); ++k) ok = std::get<0>(l[k]) == want[k].name && std::get<1>(l[k]) == libType(want[k].type) && std::get<2>(l[k]) == want[k].count();
                            if (complete && l.size() != want.size()) ok = false;
                            if (!ok) {
                                // input class of the known defect 6.8: the requested step is a SEQNUM array that is the last array of the file
                                // (the loop in listOfRstArrays then reads array_name[size]: a sanitizer abort, a SIGSEGV or a garbage entry)
                                size_t seqIdx = 0; while (seqIdx < st.index.size() && st.index[seqIdx].header_off != st.surv[i].start) ++seqIdx;
                                const bool pastEnd = i + 1 == steps.size() && list.size() == seqIdx + 1;
                                std::string names; for (const auto& e : l) names += " '" + std::get<0>(e).substr(0, 16) + "'";
                                viol(pastEnd ? "listOfRstArrays-past-end" : "listOfRstArrays-phantom", "listOfRstArrays(" + std::to_string(steps[i]) + ") returns " + std::to_string(l.size()) +
                                     " entries that are not the leading arrays of the step as written:" + vh::jstr(names));
                            }
                        } catch (const std::exception& e) {
                            rep.count("listOfRstArrays_refused");
                            if (complete) viol("complete-prefix-unreadable", std::string("listOfRstArrays threw on complete steps: ") + std::string(e.what()).substr(0, 200));
                        }
                    }
                    continue;
                }
                // every (step, array): exactly what was written, or an error
                for (size_t i = 0; i < steps.size(); ++i) {
                    const StepContent& sc = contents[st.surv[i].pos];
                    const bool stepComplete = complete || (i + 1 < st.surv.size() && (long)st.surv[i + 1].start <= c);
                    // two reader paths: on three of four offsets the whole step is loaded first (loadData(vector), one
                    // file open per step), then the named reads find the arrays that were loaded before the first error
                    // and load the others one by one; on every fourth offset every array is loaded by its own read
                    if (c & 3) {
                        rep.count("loadReportStepNumber_calls");
                        try { poisonStack(poison); r.loadReportStepNumber(steps[i]); }
                        catch (const std::exception& e) { rep.count("loadReportStepNumber_refused"); if (stepComplete) viol("complete-prefix-unreadable", "complete step " + std::to_string(steps[i]) + " cannot be loaded: " + std::string(e.what()).substr(0, 200)); }
                    }
                    try {
                        rep.count("reads");
                        poisonStack(poison);
                        const auto& v = r.getRestartData<int>("SEQNUM", steps[i], 0);
                        if (v.size() != 1 || v[0] != steps[i]) { viol("truncated-file-wrong-data", "SEQNUM of step " + std::to_string(steps[i]) + " read as " + (v.empty() ? std::string("empty") : std::to_string(v[0]))); }
                        else rep.count("reads_exact");
                    } catch (const std::exception&) { rep.count("reads_refused"); if (stepComplete) viol("complete-prefix-unreadable", "SEQNUM of complete step " + std::to_string(steps[i]) + " cannot be read"); }
                    for (const auto& a : sc.arrays) {
                        if (a.type == eref::MESS) continue;
                        rep.count("reads");
                        try {
                            poisonStack(poison);
                            const eref::Array got = erstGet(r, a, steps[i]);
                            std::string why;
                            if (!eref::equal_exact(a, got, why)) viol("truncated-file-wrong-data", a.name + " of step " + std::to_string(steps[i]) + " is returned without error but differs from what was written (" + eref::describe(a, 3) + "): " + why);
                            else rep.count("reads_exact");
                        } catch (const std::exception& e) {
                            rep.count("reads_refused");
                            if (stepComplete) viol("complete-prefix-unreadable", a.name + " of complete step " + std::to_string(steps[i]) + " cannot be read: " + std::string(e.what()).substr(0, 200));
                        }
                    }
                    // arrays this step never had
                    for (int m = 0; m < NMENU; ++m) {
                        bool has = false; for (const auto& a : sc.arrays) if (a.name == MENU[m].name) has = true;
                        if (has) continue;
                        rep.count("comparisons_absent_arrays");
                        if (r.hasArray(MENU[m].name, steps[i])) viol("phantom-array", std::string("step ") + std::to_string(steps[i]) + " is said to hold " + MENU[m].name + ", which that write never wrote");
                    }
                }
            }
            base += size + 1;
        }
    });
    rep.finish();
    return 0;
}
