// C15 — saturation functions honour tables, end-point scaling and hysteresis rules.
//
// Monitor: random monotone SWOF/SGOF tables (and the exactly equivalent SWFN/SGFN/SOF3 tables) for 1..3 saturation
// regions are written as deck text (METRIC / FIELD), read by the real parser and turned into material-law parameters
// by EclMaterialLawManager::initFromState()/initParamsForElements().  Every curve is observed through two routes:
//   route "3p": MaterialLaw::relativePermeabilities / capillaryPressures on materialLawParams(elem) in the two-phase
//               configurations (Sg = 0, Sw varies) and (Sw = SWL of the cell, Sg varies);
//   route "2p": the two-phase sub-laws (hysteresis law over end-point-scaling law over the tabulated law) of that cell.
// Three case classes (case index modulo 10):
//   unscaled   the generated table is the oracle: node values, monotone and bounded between nodes, family I == family II;
//   eps        ENDSCALE, per-cell end-point arrays, SCALECRS YES/NO: the scaled end-points of the cell map onto the
//              end-points of its table (saturation mapping and function values), and arrays that repeat the table's
//              own end-points (explicitly or through defaulted entries) reproduce the unscaled model;
//   hyst       SATOPTS HYSTER, EHYSTR (Carlson 0/1, Killough 2/3/4), IMBNUM: random saturation histories (200 steps,
//              1..5 reversals) are driven through EclMaterialLawManager::updateHysteresis(); a trace checker that keeps
//              the extreme saturation reached so far demands the drainage curve at or beyond that extreme, continuity
//              of the scanning curve at the reversal point, monotone scanning curves, the manager's own record of the
//              extreme oil / gas saturation equal to the extreme of the history, and "nothing changes" for Carlson's
//              model with identical drainage and imbibition curves.  The drainage reference is a second manager built
//              from the same deck without SATOPTS/EHYSTR/IMBNUM.  A third of these cases adds two-point ENDSCALE with
//              drainage and I-prefixed imbibition arrays.
// Two input classes with known findings have their own keys and are confined to a stated fraction of the cases
// (struct Beyond; iArraysWithoutImbnum in caseHyst).
// Three-phase interpolation formulas are not examined: with STONE1/STONE2 the oil value of route "3p" is skipped, and
// with the default model the blend within 1e-5 of the connate water saturation is avoided.
#include <config.h>

#include <opm/input/eclipse/Parser/Parser.hpp>
#include <opm/input/eclipse/Deck/Deck.hpp>
#include <opm/input/eclipse/EclipseState/EclipseState.hpp>
#include <opm/input/eclipse/EclipseState/Grid/FieldPropsManager.hpp>

#include <opm/material/fluidmatrixinteractions/EclMaterialLawManager.hpp>
#include <opm/material/fluidmatrixinteractions/MaterialTraits.hpp>
#include <opm/material/fluidstates/SimpleModularFluidState.hpp>

#include "common/vh.hpp"

#include <algorithm>
#include <array>
#include <functional>
#include <memory>

using vh::Rng;

using Traits3 = Opm::ThreePhaseMaterialTraits<double, /*water*/0, /*oil*/1, /*gas*/2>;
using Mgr = Opm::EclMaterialLawManager<Traits3>;
using Law = Mgr::MaterialLaw;
using OWLaw = Law::OilWaterMaterialLaw;          // hysteresis law, oil-water
using GOLaw = Law::GasOilMaterialLaw;            // hysteresis law, gas-oil
using OWEps = OWLaw::EffectiveLaw;               // end-point scaling law, oil-water
using GOEps = GOLaw::EffectiveLaw;
using FluidState = Opm::SimpleModularFluidState<double, 3, 3, void, false, false, false, false, true, false, false, false>;
using Approach = Opm::EclMultiplexerApproach;

static const double PSI = 6894.757293168361;     // 0.45359237 kg * 9.80665 m/s^2 / (0.0254 m)^2
static const double PUNIT[2] = {1.0e5, PSI};     // deck pressure unit -> Pa (METRIC bar, FIELD psi)
static const char* UNITNAME[2] = {"METRIC", "FIELD"};
static const int L = 200;                        // saturation lattice of the table nodes: k / 200
static const double KR_TOL = 1e-9;               // the tolerance of the property statement
static const double MONO_SLACK = 1e-12;          // rounding slack for order comparisons of tabulated curves
static const double SCAN_SLACK = 1e-10;          // same for scanning curves (Killough's normalised saturation divides by a small
                                                 // difference right after the critical saturation; a tenth of the statement's tolerance)

static bool g_knownEverywhere = false;  // trial runs only (known_everywhere=1): do not confine the two known-finding input classes
static bool g_checkFlat3pt = true;      // trial runs only (flat3pt=0): leave the known three-point vertical scaling defect out

// shortest decimal text that reads back as exactly the same double
static std::string num(double v) {
    char b[40];
    for (int p = 6; p <= 17; ++p) { snprintf(b, sizeof b, "%.*g", p, v); if (strtod(b, nullptr) == v) break; }
    return b;
}

// piecewise linear interpolation with constant continuation (reference, used for the family II tables only)
static double lin(const std::vector<double>& x, const std::vector<double>& y, double v) {
    if (v <= x.front()) return y.front();
    if (v >= x.back()) return y.back();
    size_t i = 1;
    while (x[i] < v) ++i;
    double a = (v - x[i - 1]) / (x[i] - x[i - 1]);
    double r = y[i - 1] + a * (y[i] - y[i - 1]);
    return std::min(std::max(r, std::min(y[i - 1], y[i])), std::max(y[i - 1], y[i]));   // rounding must not leave the bracket
}

// ---------------------------------------------------------------------------------------------
// tables
// ---------------------------------------------------------------------------------------------
struct Tab {
    int swco_i = 0;
    std::vector<int> swi, sgi;
    std::vector<double> sw, krw, krow, pcow;     // pc in deck units
    std::vector<double> sg, krg, krog, pcgo;
    // family II form
    std::vector<double> so3, krow3, krog3;
    // table end-points, defined here from the table: connate = first saturation, maximum = last saturation,
    // critical = largest saturation of the phase for which its relative permeability is zero
    double Swl, Swcr, Swu, Sgl, Sgcr, Sgu, Sowcr, Sogcr;
    double krwMax, kroMax, krgMax, pcwMax, pcgMax;      // pc in deck units
    double Krwr, Krorw, Krgr, Krorg;                    // kr at the critical saturation of the displacing phase
};

// n distinct lattice points in [lo, hi] that contain both ends, ascending
static std::vector<int> pickNodes(Rng& rng, int lo, int hi, int n) {
    std::vector<int> v{lo, hi};
    n = std::min(n, hi - lo + 1);
    while ((int)v.size() < n) {
        int k = (int)rng.range(lo + 1, hi - 1);
        if (std::find(v.begin(), v.end(), k) == v.end()) v.push_back(k);
    }
    std::sort(v.begin(), v.end());
    return v;
}

// non-decreasing values: `zeros` leading zeros, then increasing (plateaus with probability pPlateau) up to vmax
static std::vector<double> increasing(Rng& rng, int n, int zeros, double vmax, double pPlateau) {
    std::vector<double> c(n, 0.0);
    double cum = 0;
    for (int i = zeros; i < n; ++i) {
        double inc = rng.uniform(0.1, 1.0);
        if (i > zeros && rng.chance(pPlateau)) inc = 0.0;
        cum += inc;
        c[i] = cum;
    }
    for (int i = zeros; i < n; ++i) c[i] = (c[i] == cum) ? vmax : vmax * (c[i] / cum);
    return c;
}
static std::vector<double> decreasing(Rng& rng, int n, int zeros, double vmax, double pPlateau) {
    auto v = increasing(rng, n, zeros, vmax, pPlateau);
    std::reverse(v.begin(), v.end());
    return v;
}

static void deriveEndPoints(Tab& t) {
    const int nw = (int)t.sw.size(), ng = (int)t.sg.size();
    t.Swl = t.sw.front(); t.Swu = t.sw.back();
    t.Sgl = t.sg.front(); t.Sgu = t.sg.back();
    int i = 0; while (i + 1 < nw && t.krw[i + 1] == 0.0) ++i;
    t.Swcr = t.sw[i];
    i = nw - 1; while (i > 0 && t.krow[i - 1] == 0.0) --i;
    t.Sowcr = 1.0 - t.sw[i];
    i = 0; while (i + 1 < ng && t.krg[i + 1] == 0.0) ++i;
    t.Sgcr = t.sg[i];
    i = ng - 1; while (i > 0 && t.krog[i - 1] == 0.0) --i;
    t.Sogcr = (1.0 - t.sg[i]) - t.Swl;
    t.krwMax = t.krw.back(); t.kroMax = t.krow.front(); t.krgMax = t.krg.back();
    t.pcwMax = t.pcow.front(); t.pcgMax = t.pcgo.back();
    t.Krwr = lin(t.sw, t.krw, 1.0 - (t.Sowcr + t.Sgl));
    t.Krorw = lin(t.sw, t.krow, t.Swcr + t.Sgl);
    t.Krgr = lin(t.sg, t.krg, 1.0 - (t.Sogcr + t.Swl));
    t.Krorg = lin(t.sg, t.krog, t.Sgcr);
}

// the exactly equivalent SOF3 table: union of the oil saturations of both tables on the lattice
static void makeFamily2(Tab& t) {
    std::vector<int> nodes;
    for (int k : t.swi) nodes.push_back(L - k);
    for (int k : t.sgi) nodes.push_back(L - t.swco_i - k);
    std::sort(nodes.begin(), nodes.end());
    nodes.erase(std::unique(nodes.begin(), nodes.end()), nodes.end());
    std::vector<double> sox, kow, sogx, kog;       // ascending in So
    for (int i = (int)t.sw.size() - 1; i >= 0; --i) { sox.push_back((L - t.swi[i]) / (double)L); kow.push_back(t.krow[i]); }
    for (int i = (int)t.sg.size() - 1; i >= 0; --i) { sogx.push_back((L - t.swco_i - t.sgi[i]) / (double)L); kog.push_back(t.krog[i]); }
    t.so3.clear(); t.krow3.clear(); t.krog3.clear();
    for (int k : nodes) {
        double so = k / (double)L;
        t.so3.push_back(so);
        t.krow3.push_back(lin(sox, kow, so));
        t.krog3.push_back(lin(sogx, kog, so));
    }
}

struct TabOpts { double pPlateau = 0.1; bool zeroPc = true; double punit = 1.0; };

static Tab genTab(Rng& rng, const TabOpts& o) {
    Tab t;
    t.swco_i = rng.chance(0.1) ? 0 : (int)rng.range(4, 70);
    int swu_i = rng.chance(0.7) ? L : L - (int)rng.range(1, 40);
    int nw = (int)rng.range(3, 14);
    t.swi = pickNodes(rng, t.swco_i, swu_i, nw);
    nw = (int)t.swi.size();
    int zw = (int)rng.range(1, std::min(3, nw - 2));
    int zo = (int)rng.range(1, std::min(3, nw - zw));
    for (int k : t.swi) t.sw.push_back(k / (double)L);
    t.krw = increasing(rng, nw, zw, rng.chance(0.3) ? 1.0 : rng.uniform(0.2, 1.0), o.pPlateau);
    t.krow = decreasing(rng, nw, zo, rng.chance(0.3) ? 1.0 : rng.uniform(0.3, 1.0), o.pPlateau);
    double pmax = rng.loguniform(0.05, 3.0) * (o.punit == PSI ? 14.5 : 1.0);      // bar resp. psi
    if (o.zeroPc && rng.chance(0.12)) t.pcow.assign(nw, 0.0);
    else t.pcow = decreasing(rng, nw, (int)rng.range(0, nw - 1), pmax, 0.15);

    int sgu_i = (L - t.swco_i) - (rng.chance(0.75) ? 0 : (int)rng.range(1, 30));
    int ng = (int)rng.range(3, 14);
    t.sgi = pickNodes(rng, 0, sgu_i, ng);
    ng = (int)t.sgi.size();
    int zg = (int)rng.range(1, std::min(3, ng - 2));
    int zog = (int)rng.range(1, std::min(3, ng - zg));
    for (int k : t.sgi) t.sg.push_back(k == L - t.swco_i ? 1.0 - t.sw.front() : k / (double)L);
    t.krg = increasing(rng, ng, zg, rng.chance(0.3) ? 1.0 : rng.uniform(0.2, 1.0), o.pPlateau);
    t.krog = decreasing(rng, ng, zog, t.krow.front(), o.pPlateau);      // krog(Sg = 0) == krow(Swco)
    double pgmax = rng.loguniform(0.02, 1.0) * (o.punit == PSI ? 14.5 : 1.0);
    if (o.zeroPc && rng.chance(0.12)) t.pcgo.assign(ng, 0.0);
    else t.pcgo = increasing(rng, ng, (int)rng.range(1, ng - 1), pgmax, 0.15);
    deriveEndPoints(t);
    makeFamily2(t);
    return t;
}

// an imbibition table for the drainage table d: same connate/maximum saturations and the same maximum
// non-wetting relative permeabilities at them (the curves meet at the maximum non-wetting saturation), larger
// critical saturations of the non-wetting phases
static Tab genImbTab(Rng& rng, const Tab& d, const TabOpts& o) {
    Tab t;
    t.swco_i = d.swco_i;
    const int swu_i = d.swi.back(), sgu_i = d.sgi.back();
    // oil-water: the first Sw with krow == 0 must not exceed the drainage one
    int dzero = 0; while (d.krow[dzero] != 0.0) ++dzero;
    int izero_i = (int)rng.range(d.swco_i + 2, d.swi[dzero]);              // lattice Sw of the first zero of krow
    int nmob = (int)rng.range(2, 8);                                        // nodes from Swco to the first zero
    std::vector<int> a = pickNodes(rng, d.swco_i, izero_i, nmob);
    std::vector<int> b;
    if (izero_i < swu_i) b = pickNodes(rng, izero_i, swu_i, (int)rng.range(2, 4));
    t.swi = a;
    for (size_t i = 1; i < b.size(); ++i) t.swi.push_back(b[i]);
    int nw = (int)t.swi.size();
    int zo = nw - (int)a.size() + 1;
    for (int k : t.swi) t.sw.push_back(k / (double)L);
    t.krow = decreasing(rng, nw, zo, d.krow.front(), 0.0);
    int zw = (int)rng.range(1, std::max(1, std::min(3, nw - 2)));
    if (nw - zo < zw) zw = std::max(1, nw - zo);
    t.krw = increasing(rng, nw, zw, rng.uniform(0.2, 1.0), 0.0);
    t.pcow = decreasing(rng, nw, (int)rng.range(0, nw - 1), d.pcwMax > 0 ? d.pcwMax : 0.1 * (o.punit == PSI ? 14.5 : 1.0), 0.1);
    // gas-oil: Sgcr of the imbibition curve >= the drainage one
    int dlast0 = 0; while (dlast0 + 1 < (int)d.krg.size() && d.krg[dlast0 + 1] == 0.0) ++dlast0;
    int icr_i = (int)rng.range(d.sgi[dlast0], sgu_i - 2);                   // lattice Sg of the last zero of krg
    std::vector<int> g0;
    if (icr_i > 0) g0 = pickNodes(rng, 0, icr_i, (int)rng.range(2, 3));
    else g0 = {0};
    std::vector<int> g1 = pickNodes(rng, icr_i, sgu_i, (int)rng.range(2, 8));
    t.sgi = g0;
    for (size_t i = 1; i < g1.size(); ++i) t.sgi.push_back(g1[i]);
    int ng = (int)t.sgi.size();
    int zg = (int)g0.size();
    for (int k : t.sgi) t.sg.push_back(k == L - t.swco_i ? 1.0 - t.sw.front() : k / (double)L);
    t.krg = increasing(rng, ng, zg, d.krg.back(), 0.0);
    int zog = (int)rng.range(1, std::max(1, std::min(3, ng - zg)));
    t.krog = decreasing(rng, ng, zog, t.krow.front(), 0.0);
    t.pcgo = increasing(rng, ng, (int)rng.range(1, ng - 1), d.pcgMax > 0 ? d.pcgMax : 0.05 * (o.punit == PSI ? 14.5 : 1.0), 0.1);
    deriveEndPoints(t);
    makeFamily2(t);
    return t;
}

// ---------------------------------------------------------------------------------------------
// model = deck
// ---------------------------------------------------------------------------------------------
static const char* EPS_KW[] = {"SWL", "SWCR", "SWU", "SGL", "SGCR", "SGU", "SOWCR", "SOGCR",
                               "KRW", "KRO", "KRG", "PCW", "PCG", "KRWR", "KRORW", "KRGR", "KRORG"};
enum { E_SWL, E_SWCR, E_SWU, E_SGL, E_SGCR, E_SGU, E_SOWCR, E_SOGCR, E_KRW, E_KRO, E_KRG, E_PCW, E_PCG,
       E_KRWR, E_KRORW, E_KRGR, E_KRORG, E_N };

struct EndPts { double v[E_N]; };          // pressures in deck units

static EndPts tableEndPts(const Tab& t) {
    EndPts e;
    e.v[E_SWL] = t.Swl; e.v[E_SWCR] = t.Swcr; e.v[E_SWU] = t.Swu; e.v[E_SGL] = t.Sgl; e.v[E_SGCR] = t.Sgcr; e.v[E_SGU] = t.Sgu;
    e.v[E_SOWCR] = t.Sowcr; e.v[E_SOGCR] = t.Sogcr; e.v[E_KRW] = t.krwMax; e.v[E_KRO] = t.kroMax; e.v[E_KRG] = t.krgMax;
    e.v[E_PCW] = t.pcwMax; e.v[E_PCG] = t.pcgMax; e.v[E_KRWR] = t.Krwr; e.v[E_KRORW] = t.Krorw; e.v[E_KRGR] = t.Krgr; e.v[E_KRORG] = t.Krorg;
    return e;
}

struct Model {
    int unit = 0, family = 1, approach = 0, ncell = 1, ndrain = 1;
    std::vector<Tab> tabs;                 // ndrain drainage tables, then (optionally) imbibition tables
    std::vector<int> satnum, imbnum;       // 1-based; imbnum empty = keyword absent
    bool endscale = false, threepoint = false, scalecrsKw = false;
    bool present[E_N] = {};                // end-point keywords in the deck
    std::vector<std::array<std::string, E_N>> arrText;   // per cell, per keyword: number text or "1*"
    std::vector<std::array<std::string, E_N>> iarrText;  // imbibition (I-prefixed) arrays, hyst+eps only
    bool ipresent[E_N] = {};
    bool hyst = false; int ehystr = 0; std::string ehFlag = "KR";
};

static std::string tablesText(const Model& m) {
    std::ostringstream o;
    if (m.family == 1) {
        o << "SWOF\n";
        for (const Tab& t : m.tabs) { for (size_t i = 0; i < t.sw.size(); ++i) o << " " << num(t.sw[i]) << " " << num(t.krw[i]) << " " << num(t.krow[i]) << " " << num(t.pcow[i]) << "\n"; o << "/\n"; }
        o << "SGOF\n";
        for (const Tab& t : m.tabs) { for (size_t i = 0; i < t.sg.size(); ++i) o << " " << num(t.sg[i]) << " " << num(t.krg[i]) << " " << num(t.krog[i]) << " " << num(t.pcgo[i]) << "\n"; o << "/\n"; }
    } else {
        o << "SWFN\n";
        for (const Tab& t : m.tabs) { for (size_t i = 0; i < t.sw.size(); ++i) o << " " << num(t.sw[i]) << " " << num(t.krw[i]) << " " << num(t.pcow[i]) << "\n"; o << "/\n"; }
        o << "SGFN\n";
        for (const Tab& t : m.tabs) { for (size_t i = 0; i < t.sg.size(); ++i) o << " " << num(t.sg[i]) << " " << num(t.krg[i]) << " " << num(t.pcgo[i]) << "\n"; o << "/\n"; }
        o << "SOF3\n";
        for (const Tab& t : m.tabs) { for (size_t i = 0; i < t.so3.size(); ++i) o << " " << num(t.so3[i]) << " " << num(t.krow3[i]) << " " << num(t.krog3[i]) << "\n"; o << "/\n"; }
    }
    return o.str();
}

// withEps / withHyst select whether the ENDSCALE resp. hysteresis keywords of the model are written
static std::string deckText(const Model& m, bool withEps, bool withHyst) {
    std::ostringstream o;
    const int nc = m.ncell;
    o << "RUNSPEC\nDIMENS\n " << nc << " 1 1 /\nOIL\nGAS\nWATER\n" << UNITNAME[m.unit] << "\nTABDIMS\n " << m.tabs.size() << " 1 60 60 /\n";
    if (withEps && m.endscale) o << "ENDSCALE\n /\n";
    if (withHyst && m.hyst) o << "SATOPTS\n HYSTER /\n";
    o << "GRID\nDX\n " << nc << "*100 /\nDY\n " << nc << "*100 /\nDZ\n " << nc << "*10 /\nTOPS\n " << nc << "*2000 /\nPORO\n "
      << nc << "*0.2 /\nPERMX\n " << nc << "*100 /\nPROPS\n";
    if (m.approach == 1) o << "STONE1\n";
    if (m.approach == 2) o << "STONE2\n";
    o << tablesText(m);
    if (withEps && m.endscale) {
        if (m.scalecrsKw) o << "SCALECRS\n " << (m.threepoint ? "YES" : "NO") << " /\n";
        for (int k = 0; k < E_N; ++k) {
            if (m.present[k]) { o << EPS_KW[k] << "\n"; for (int c = 0; c < nc; ++c) o << " " << m.arrText[c][k]; o << " /\n"; }
            if (withHyst && m.hyst && m.ipresent[k]) { o << "I" << EPS_KW[k] << "\n"; for (int c = 0; c < nc; ++c) o << " " << m.iarrText[c][k]; o << " /\n"; }
        }
    }
    if (withHyst && m.hyst) o << "EHYSTR\n 0.1 " << m.ehystr << " 1.0 0.1 " << m.ehFlag << " /\n";
    o << "REGIONS\nSATNUM\n";
    for (int c = 0; c < nc; ++c) o << " " << m.satnum[c];
    o << " /\n";
    if (withHyst && m.hyst && !m.imbnum.empty()) { o << "IMBNUM\n"; for (int c = 0; c < nc; ++c) o << " " << m.imbnum[c]; o << " /\n"; }
    o << "SOLUTION\nSCHEDULE\n";
    return o.str();
}

// ---------------------------------------------------------------------------------------------
// the library under observation
// ---------------------------------------------------------------------------------------------
static std::function<std::vector<int>(const Opm::FieldPropsManager&, const std::string&, bool)> lookupInt =
    [](const Opm::FieldPropsManager& fp, const std::string& kw, bool translate) {
        const auto& r = fp.get_int(kw);
        std::vector<int> d(r.size());
        for (size_t i = 0; i < r.size(); ++i) d[i] = r[i] - (translate ? 1 : 0);
        return d;
    };
static std::function<unsigned(unsigned)> identityIdx = [](unsigned e) { return e; };

struct Built {
    std::unique_ptr<Opm::EclipseState> es;
    std::unique_ptr<Mgr> mgr;
    std::string error;
    bool ok() const { return (bool)mgr; }
};

static Opm::Parser& parser() { static Opm::Parser p; return p; }

static Built build(const std::string& text, int ncell) {
    Built b;
    try {
        auto deck = parser().parseString(text);
        b.es = std::make_unique<Opm::EclipseState>(deck);
        auto m = std::make_unique<Mgr>();
        m->initFromState(*b.es);
        m->initParamsForElements(*b.es, (size_t)ncell, lookupInt, identityIdx);
        b.mgr = std::move(m);
    } catch (const std::exception& e) {
        b.error = e.what();
    }
    return b;
}

struct Sub { OWLaw::Params* ow = nullptr; GOLaw::Params* go = nullptr; double swl = 0; Approach ap = Approach::Default; };

static Sub subOf(Law::Params& p) {
    Sub s; s.ap = p.approach();
    switch (p.approach()) {
    case Approach::Default: { auto& r = p.getRealParams<Approach::Default>(); s.ow = &r.oilWaterParams(); s.go = &r.gasOilParams(); s.swl = r.Swl(); break; }
    case Approach::Stone1: { auto& r = p.getRealParams<Approach::Stone1>(); s.ow = &r.oilWaterParams(); s.go = &r.gasOilParams(); s.swl = r.Swl(); break; }
    case Approach::Stone2: { auto& r = p.getRealParams<Approach::Stone2>(); s.ow = &r.oilWaterParams(); s.go = &r.gasOilParams(); s.swl = r.Swl(); break; }
    default: break;
    }
    return s;
}

enum Curve { KRW, KROW, PCOW, KRG, KROG, PCGO, NCURVE };
static const char* CURVE[] = {"krw", "krow", "pcow", "krg", "krog", "pcgo"};
static const char* ROUTE[] = {"3p", "2p"};
static bool isPc(int c) { return c == PCOW || c == PCGO; }
static bool isGas(int c) { return c >= KRG; }
// direction of the curve in its own saturation (Sw for the oil-water curves, Sg for the gas-oil curves)
static int direction(int c) { return (c == KRW || c == KRG || c == PCGO) ? +1 : -1; }

// one cell of one manager; `swl` is the connate water saturation of the cell as the harness knows it
struct Cell {
    Mgr* mgr; unsigned elem; double swl; Sub sub;
    Cell(Mgr& m, unsigned e, double swl_) : mgr(&m), elem(e), swl(swl_), sub(subOf(m.materialLawParams(e))) {}
    bool supported(int route, int c) const {
        if (!sub.ow || !sub.go) return false;
        if (route == 0 && (c == KROW || c == KROG) && sub.ap != Approach::Default) return false;
        return true;
    }
    // s = Sw for krw/krow/pcow (Sg = 0), s = Sg for krg/krog/pcgo (Sw = swl); pressures in Pa
    double eval(int route, int c, double s) const {
        if (route == 0) {
            FluidState fs;
            double Sw = isGas(c) ? swl : s, Sg = isGas(c) ? s : 0.0;
            fs.setSaturation(0, Sw); fs.setSaturation(1, 1.0 - Sw - Sg); fs.setSaturation(2, Sg);
            std::array<double, 3> v{};
            const auto& p = mgr->materialLawParams(elem);
            if (isPc(c)) { Law::capillaryPressures(v, p, fs); return c == PCOW ? v[1] - v[0] : v[2] - v[1]; }
            Law::relativePermeabilities(v, p, fs);
            return c == KRW ? v[0] : c == KRG ? v[2] : v[1];
        }
        const double x = isGas(c) ? 1.0 - swl - s : s;      // wetting saturation of the two-phase law
        switch (c) {
        case KRW: return OWLaw::twoPhaseSatKrw(*sub.ow, x);
        case KROW: return OWLaw::twoPhaseSatKrn(*sub.ow, x);
        case PCOW: return OWLaw::twoPhaseSatPcnw(*sub.ow, x);
        case KRG: return GOLaw::twoPhaseSatKrn(*sub.go, x);
        case KROG: return GOLaw::twoPhaseSatKrw(*sub.go, x);
        default: return GOLaw::twoPhaseSatPcnw(*sub.go, x);
        }
    }
    // route 3p blends krow and krog within 1e-5 of Sw + Sg = swl (not part of the statement): stay away or sit exactly on it
    bool blendZone(int route, int c, double s) const {
        if (route != 0) return false;
        if (c == KROW) return s != swl && s - swl < 2e-5;
        if (c == KROG) return s != 0.0 && s < 2e-5;
        return false;
    }
};

// ---------------------------------------------------------------------------------------------
// checking context: collects at most one witness per key and case
// ---------------------------------------------------------------------------------------------
struct Ctx {
    vh::Reporter& rep;
    std::string witnessHead;
    std::map<std::string, std::pair<long, std::string>> fails;   // key -> (count, first description)
    long comparisons = 0;
    double maxNodeErr[2] = {0, 0};               // kr (absolute), pc (relative to the largest pc of the table)
    std::map<std::string, double> maxDiff;
    explicit Ctx(vh::Reporter& r) : rep(r) {}
    void fail(const std::string& key, const std::string& what) {
        auto& f = fails[key];
        if (f.first++ == 0) f.second = what;
    }
    void flush() {
        rep.maxof("max_node_err_kr", maxNodeErr[0]);
        rep.maxof("max_node_err_pc_rel", maxNodeErr[1]);
        for (auto& d : maxDiff) rep.maxof(d.first, d.second);
        for (auto& f : fails) {
            std::string what = f.second.second + " (" + std::to_string(f.second.first) + " such mismatches in this case)";
            rep.violation(f.first, what, witnessHead + "\n" + what + "\n");
        }
        fails.clear();
    }
    // |got - expect| <= tol; key and description are only built for a mismatch
    template <class K, class W>
    bool closeLazy(K&& key, W&& what, double got, double expect, double tol) {
        ++comparisons;
        if (std::fabs(got - expect) <= tol) return true;
        --comparisons;
        return close(key(), what(), got, expect, tol);
    }
    bool close(const std::string& key, const std::string& what, double got, double expect, double tol) {
        ++comparisons;
        double d = std::fabs(got - expect);
        if (!(d <= tol)) {       // NaN fails
            std::ostringstream o; o.precision(17);
            o << what << ": got " << got << ", expected " << expect << " (|diff| " << d << " > " << tol << ")";
            fail(key, o.str());
            return false;
        }
        return true;
    }
};

static double pcTol(double pcMaxPa) { return KR_TOL * std::max(1.0, pcMaxPa); }

static std::string cellTag(unsigned elem, int satnum) { return "cell " + std::to_string(elem) + " (SATNUM " + std::to_string(satnum) + ")"; }

// table column of a curve in the curve's own saturation; pressures converted to Pa
static void tableOf(const Tab& t, int c, double punit, std::vector<double>& x, std::vector<double>& y) {
    x = isGas(c) ? t.sg : t.sw;
    switch (c) {
    case KRW: y = t.krw; break;
    case KROW: y = t.krow; break;
    case PCOW: y = t.pcow; for (auto& v : y) v *= punit; break;
    case KRG: y = t.krg; break;
    case KROG: y = t.krog; break;
    default: y = t.pcgo; for (auto& v : y) v *= punit; break;
    }
}

// --- unscaled: nodes, between nodes, bounds ------------------------------------------------------
static void checkUnscaledCell(Ctx& cx, const Cell& cell, const Tab& t, int satnum, double punit, bool full, int grid, Rng& rng, const char* fam) {
    const std::string tag = std::string("family ") + fam + " " + cellTag(cell.elem, satnum);
    for (int route = 0; route < 2; ++route) for (int c = 0; c < NCURVE; ++c) {
        if (!cell.supported(route, c)) continue;
        std::vector<double> x, y;
        tableOf(t, c, punit, x, y);
        const double ymax = *std::max_element(y.begin(), y.end());
        const double tol = isPc(c) ? pcTol(ymax) : KR_TOL;
        const std::string ck = std::string(CURVE[c]);
        // Route 3p weights krow and krog by (Sw - Swco) and Sg; a connate saturation that the parser read one ulp away from
        // the harness's number gives the other curve a weight of up to 1e-16 / 2e-5 at the edge of the avoided blend zone.
        const double oilLeak = (route == 0 && (c == KROW || c == KROG)) ? 1e-10 : 0.0;
        // every node of the table
        for (size_t i = 0; i < x.size(); ++i) {
            if (cell.blendZone(route, c, x[i])) continue;
            double got = cell.eval(route, c, x[i]);
            cx.closeLazy([&] { return "node-value:" + ck; },
                         [&] { std::ostringstream w; w.precision(17);
                               w << tag << " route " << ROUTE[route] << " " << ck << " at table node " << i << " (S=" << x[i] << ")"; return w.str(); },
                         got, y[i], tol);
            double err = isPc(c) ? std::fabs(got - y[i]) / std::max(1.0, ymax) : std::fabs(got - y[i]);
            if (err > cx.maxNodeErr[isPc(c)]) cx.maxNodeErr[isPc(c)] = err;
        }
        if (!full) continue;
        // between adjacent nodes: bracketed by the node values and monotone
        const int dir = direction(c);
        for (size_t i = 0; i + 1 < x.size(); ++i) {
            double lo = std::min(y[i], y[i + 1]), hi = std::max(y[i], y[i + 1]);
            std::vector<double> ss{0.5 * (x[i] + x[i + 1])};
            for (int q = 0; q < 3; ++q) ss.push_back(rng.uniform(x[i], x[i + 1]));
            std::sort(ss.begin(), ss.end());
            double prev = y[i];
            for (double s : ss) {
                if (!(s > x[i] && s < x[i + 1]) || cell.blendZone(route, c, s)) continue;
                double v = cell.eval(route, c, s);
                ++cx.comparisons;
                const double slack = (MONO_SLACK + oilLeak) * std::max(1.0, ymax);
                if (!(v >= lo - slack && v <= hi + slack) || !(dir * (v - prev) >= -slack)) {
                    std::ostringstream w; w.precision(17);
                    w << tag << " route " << ROUTE[route] << " " << ck << " between nodes " << i << " and " << i + 1 << " at S=" << s << ": value " << v
                      << " not bracketed by the node values [" << lo << ", " << hi << "] or not monotone (previous sample " << prev << ")";
                    cx.fail("between-nodes:" + ck, w.str());
                }
                prev = v;
            }
        }
        // fine grid over the whole saturation range: monotone, within [0, max]
        const double smax = isGas(c) ? 1.0 - cell.swl : 1.0;
        double prev = NAN;
        for (int q = 0; q <= grid; ++q) {
            double s = smax * q / grid;
            if (cell.blendZone(route, c, s)) continue;
            // route 3p clamps Sw to the connate saturation for the oil curves only; below Swco the table continues constantly
            double v = cell.eval(route, c, s);
            ++cx.comparisons;
            const double slack = (MONO_SLACK + oilLeak) * std::max(1.0, ymax);
            bool bad = !(v >= -slack && v <= ymax + slack);
            if (!std::isnan(prev) && !(dir * (v - prev) >= -slack)) bad = true;
            if (bad) {
                std::ostringstream w; w.precision(17);
                w << tag << " route " << ROUTE[route] << " " << ck << " on the fine grid at S=" << s << ": value " << v << " outside [0, " << ymax
                  << "] or not monotone (previous grid value " << prev << ")";
                cx.fail("grid-monotone-bounded:" + ck, w.str());
            }
            prev = v;
        }
    }
}

// Known finding "eps-identity:<curve>:table-kr-at-displacing-critical-equals-maximum": with a KRxR keyword and a table
// whose kr at the critical saturation of the displacing phase equals its maximum, the library extrapolates the scaled
// curve beyond the anchor of the maximum (with a slope that is a quotient of rounding errors).  Saturations beyond that
// anchor (outside [lo, hi] in the curve's own saturation) get this key; they are compared only where `compare` is set
// (a stated fraction of the cases) and are counted as skipped elsewhere.  Everything inside keeps the plain key.
struct Beyond {
    bool active[NCURVE] = {};
    double lo[NCURVE], hi[NCURVE];
    bool compare = true;
    Beyond() { for (int c = 0; c < NCURVE; ++c) { lo[c] = -INFINITY; hi[c] = INFINITY; } }
};

// two cells (same element of two managers) give the same curves on grid + given extra saturations
static void compareCells(Ctx& cx, const Cell& a, const Cell& b, const std::string& key, const std::string& tag, const Tab& t, double punit,
                         int grid, bool comparePc = true, const Beyond* by = nullptr) {
    static const std::string BEYOND = ":table-kr-at-displacing-critical-equals-maximum";
    for (int route = 0; route < 2; ++route) for (int c = 0; c < NCURVE; ++c) {
        if (!a.supported(route, c) || !b.supported(route, c)) continue;
        if (isPc(c) && !comparePc) continue;
        std::vector<double> x, y;
        tableOf(t, c, punit, x, y);
        const double ymax = *std::max_element(y.begin(), y.end());
        const double tol = isPc(c) ? pcTol(ymax) : KR_TOL;
        const double smax = isGas(c) ? 1.0 - a.swl : 1.0;
        std::vector<double> ss = x;
        for (int q = 0; q <= grid; ++q) ss.push_back(smax * q / grid);
        double worst = 0;
        for (double s : ss) {
            if (a.blendZone(route, c, s)) continue;
            const bool beyond = by && by->active[c] && (s < by->lo[c] || s > by->hi[c]);
            if (beyond && (!by->compare || !g_checkFlat3pt)) { cx.rep.count("identity_points_beyond_max_anchor_skipped"); continue; }
            if (beyond) cx.rep.count("identity_points_beyond_max_anchor_compared");
            double va = a.eval(route, c, s), vb = b.eval(route, c, s);
            cx.closeLazy([&] { return key + ":" + CURVE[c] + (beyond ? BEYOND : std::string()); },
                         [&] { std::ostringstream w; w.precision(17);
                               w << tag << " route " << ROUTE[route] << " " << CURVE[c] << " at S=" << s; return w.str(); },
                         va, vb, tol);
            worst = std::max(worst, isPc(c) ? std::fabs(va - vb) / std::max(1.0, ymax) : std::fabs(va - vb));
        }
        double& md = cx.maxDiff["max_diff_" + key];
        md = std::max(md, worst);
    }
}

// ---------------------------------------------------------------------------------------------
// case class 1: unscaled tables, family I and II
// ---------------------------------------------------------------------------------------------
static Model baseModel(Rng& rng, long idx, int nregionsMax = 3) {
    Model m;
    m.unit = (int)((idx / 10) % 2);
    m.ndrain = (int)rng.range(1, nregionsMax);
    m.ncell = (int)rng.range(m.ndrain, m.ndrain + 3);
    double r = rng.unit();
    m.approach = r < 0.7 ? 0 : r < 0.85 ? 1 : 2;
    m.satnum.resize(m.ncell);
    for (int c = 0; c < m.ncell; ++c) m.satnum[c] = c < m.ndrain ? c + 1 : (int)rng.range(1, m.ndrain);
    rng.shuffle(m.satnum);
    return m;
}

static void coverModel(vh::Reporter& rep, const Model& m, const char* cls) {
    rep.cover("class", cls);
    rep.cover("unit_system", UNITNAME[m.unit]);
    rep.cover("satnum_regions", std::to_string(m.ndrain));
    rep.cover("cells", std::to_string(m.ncell));
    rep.cover("three_phase_model", m.approach == 0 ? "default" : m.approach == 1 ? "STONE1" : "STONE2");
    for (const Tab& t : m.tabs) {
        rep.cover("table_rows", "SWOF:" + std::to_string(t.sw.size()));
        rep.cover("table_rows", "SGOF:" + std::to_string(t.sg.size()));
    }
}

static bool refused(vh::Reporter& rep, const Built& b, const char* what) {
    if (b.ok()) return false;
    rep.count(std::string("refused_") + what);
    rep.cover("refusal", b.error.substr(0, 80));
    return true;
}

static void caseUnscaled(vh::Reporter& rep, long idx, Rng& rng, int grid) {
    Model m = baseModel(rng, idx);
    TabOpts o; o.punit = PUNIT[m.unit];
    for (int r = 0; r < m.ndrain; ++r) m.tabs.push_back(genTab(rng, o));
    Model m2 = m; m2.family = 2;
    const std::string d1 = deckText(m, false, false), d2 = deckText(m2, false, false);
    Built b1 = build(d1, m.ncell), b2 = build(d2, m.ncell);
    coverModel(rep, m, "unscaled");
    Ctx cx(rep);
    cx.witnessHead = "--- family I deck ---\n" + d1 + "--- family II deck ---\n" + d2;
    bool ok = !refused(rep, b1, "family1") & !refused(rep, b2, "family2");
    if (ok) {
        std::set<int> seen;
        for (int c = 0; c < m.ncell; ++c) {
            const Tab& t = m.tabs[m.satnum[c] - 1];
            bool first = seen.insert(m.satnum[c]).second;
            Cell c1(*b1.mgr, c, t.Swl), c2(*b2.mgr, c, t.Swl);
            checkUnscaledCell(cx, c1, t, m.satnum[c], PUNIT[m.unit], first, grid, rng, "I");
            checkUnscaledCell(cx, c2, t, m.satnum[c], PUNIT[m.unit], first, grid, rng, "II");
            // the SOF3 rows are nodes of the family II input as well
            for (int route = 0; route < 2; ++route) for (size_t k = 0; k < t.so3.size(); ++k) {
                double sw = 1.0 - t.so3[k], sg = (1.0 - t.Swl) - t.so3[k];
                auto what = [&] { std::ostringstream w; w.precision(17);
                                  w << "family II " << cellTag(c, m.satnum[c]) << " route " << ROUTE[route] << " SOF3 row " << k << " (So=" << t.so3[k] << ")"; return w.str(); };
                if (c2.supported(route, KROW) && sw >= t.Swl && !c2.blendZone(route, KROW, sw))
                    cx.closeLazy([] { return std::string("node-value:krow"); }, [&] { return what() + " krow"; }, c2.eval(route, KROW, sw), t.krow3[k], KR_TOL);
                if (c2.supported(route, KROG) && sg >= 0.0 && !c2.blendZone(route, KROG, sg))
                    cx.closeLazy([] { return std::string("node-value:krog"); }, [&] { return what() + " krog"; }, c2.eval(route, KROG, sg), t.krog3[k], KR_TOL);
            }
            if (first) compareCells(cx, c1, c2, "family-I-vs-II", cellTag(c, m.satnum[c]), t, PUNIT[m.unit], grid);
        }
    }
    rep.count("comparisons", cx.comparisons);
    rep.count("comparisons_unscaled", cx.comparisons);
    if (!(ok && cx.comparisons >= 300)) rep.count("trivial_unscaled");
    rep.case_done(vh::fnv(d1), ok && cx.comparisons >= 300);
    if (idx < 3) rep.sample("class unscaled, family II deck of case " + std::to_string(idx) + ":\n" + d2, 3, 2500);
    cx.flush();
}

// ---------------------------------------------------------------------------------------------
// case class 2: end-point scaling
// ---------------------------------------------------------------------------------------------
// The three saturations (left, displacing-critical, right) that anchor each relative permeability curve, for the
// scaled end-points e (the same formulas applied to the table's end-points give the table's anchors).
struct Anchors { double a[4][3]; };
static Anchors anchorsOf(const double* v) {
    Anchors A;
    A.a[0][0] = v[E_SWCR];               A.a[0][1] = 1.0 - v[E_SOWCR] - v[E_SGL]; A.a[0][2] = v[E_SWU];                   // krw  in Sw
    A.a[1][0] = v[E_SWL] + v[E_SGL];     A.a[1][1] = v[E_SWCR] + v[E_SGL];        A.a[1][2] = 1.0 - v[E_SOWCR];           // krow in Sw
    A.a[2][0] = v[E_SOGCR];              A.a[2][1] = 1.0 - v[E_SGCR] - v[E_SWL];  A.a[2][2] = 1.0 - v[E_SWL] - v[E_SGL];  // krog in So
    A.a[3][0] = 1.0 - v[E_SWL] - v[E_SGU]; A.a[3][1] = v[E_SOGCR];                A.a[3][2] = 1.0 - v[E_SWL] - v[E_SGCR]; // krg  in So
    return A;
}
// which vertical three-point keyword belongs to curve i, and the keyword of the maximum it degenerates to
static const int RKW[4] = {E_KRWR, E_KRORW, E_KRORG, E_KRGR};
static const int MKW[4] = {E_KRW, E_KRO, E_KRO, E_KRG};
// side of the anchors on which the maximum of curve i sits: krw at [2], krow at [0], krog at [2], krg at [0]
static const int MAXSIDE[4] = {2, 0, 2, 0};

// Domain of the generator: ordered end-points with a margin, the mobile ranges of two phases overlap; two anchors of
// a curve may coincide only if the corresponding anchors of the table coincide too (otherwise the input names two
// different table saturations for one scaled saturation and the statement is silent about which one wins).
// The displacing-critical (middle) anchors only matter with three-point saturation scaling or a KRxR keyword.
static bool validEndPts(const EndPts& e, const EndPts& T, bool needMiddle, bool allowKrwCriticalBeyondMax = false) {
    const double m = 0.02;
    const double* v = e.v;
    if (!(v[E_SWL] >= 0 && v[E_SWL] <= v[E_SWCR] && v[E_SWU] <= 1.0 && v[E_SWL] + m <= v[E_SWU])) return false;
    if (!(v[E_SGL] >= 0 && v[E_SGL] <= v[E_SGCR] && v[E_SGU] <= 1.0 - v[E_SWL] && v[E_SGL] + m <= v[E_SGU])) return false;
    if (!(v[E_SOWCR] >= 0 && v[E_SOGCR] >= 0)) return false;
    const Anchors A = anchorsOf(v), B = anchorsOf(T.v);
    for (int i = 0; i < 4; ++i) {
        if (!(A.a[i][0] + m <= A.a[i][2])) return false;
        for (int j = 0; j < 2 && needMiddle; ++j) {
            double d = A.a[i][j + 1] - A.a[i][j];
            bool coincideT = B.a[i][j + 1] == B.a[i][j];
            // krw only: the critical saturation of the displacing oil, 1 - SOWCR - SGL, may lie clearly ABOVE the maximum water
            // saturation SWU of the cell (legal for per-cell arrays; the curve then reaches its maximum at SWU and the middle anchor
            // is never met)
            if (i == 0 && j == 1 && allowKrwCriticalBeyondMax && d <= -m) continue;
            if (!(d >= m || (d == 0.0 && coincideT))) return false;
        }
    }
    return true;
}

static double roundTrip(double v) { return strtod(num(v).c_str(), nullptr); }

// choose the keywords, the per-cell entries (explicit / defaulted) and the effective end-points E of every cell
static std::vector<EndPts> genEndPoints(Rng& rng, Model& m, bool identity, const bool* allowed = nullptr, bool twoPointOnly = false) {
    const int nc = m.ncell;
    m.endscale = true;
    m.threepoint = !twoPointOnly && rng.chance(0.5);
    m.scalecrsKw = m.threepoint || rng.chance(0.5);
    int nkw = 0;
    for (int k = 0; k < E_N; ++k) {
        double p = k <= E_SOGCR ? 0.55 : k <= E_PCG ? 0.4 : 0.25;
        if (k == E_SGL) p = 0.15;
        m.present[k] = rng.chance(p) && (!allowed || allowed[k]);
        nkw += m.present[k];
    }
    if (nkw == 0) { m.present[E_SWL] = m.present[E_SWCR] = m.present[E_SOWCR] = true; }
    const bool needMiddle = m.threepoint || m.present[E_KRWR] || m.present[E_KRORW] || m.present[E_KRGR] || m.present[E_KRORG];
    m.arrText.assign(nc, {});
    std::vector<EndPts> E(nc);
    for (int c = 0; c < nc; ++c) {
        const Tab& t = m.tabs[m.satnum[c] - 1];
        const EndPts T = tableEndPts(t);
        EndPts e = T;
        bool explicitEntry[E_N];
        for (int attempt = 0; attempt < 60; ++attempt) {
            e = T;
            for (int k = 0; k < E_N; ++k) explicitEntry[k] = m.present[k] && !rng.chance(0.15);
            if (identity) break;
            if (attempt == 59) { break; }   // give up: the cell keeps the table's own end-points
            double* v = e.v;
            if (explicitEntry[E_SWL]) v[E_SWL] = std::max(0.0, T.v[E_SWL] + rng.uniform(-0.12, 0.12));
            if (explicitEntry[E_SWCR]) v[E_SWCR] = rng.chance(0.1) ? v[E_SWL] : v[E_SWL] + rng.uniform(0.0, 0.15);
            if (explicitEntry[E_SWU]) v[E_SWU] = rng.chance(0.3) ? 1.0 : 1.0 - rng.uniform(0.0, 0.12);
            if (explicitEntry[E_SGL]) v[E_SGL] = rng.uniform(0.0, 0.04);
            if (explicitEntry[E_SGCR]) v[E_SGCR] = v[E_SGL] + rng.uniform(0.0, 0.15);
            if (explicitEntry[E_SGU]) v[E_SGU] = rng.chance(0.5) ? 1.0 - v[E_SWL] : 1.0 - v[E_SWL] - rng.uniform(0.0, 0.06);
            if (explicitEntry[E_SOWCR]) v[E_SOWCR] = rng.uniform(0.0, 0.35);
            if (explicitEntry[E_SOGCR]) v[E_SOGCR] = rng.uniform(0.0, 0.3);
            if (explicitEntry[E_KRW]) v[E_KRW] = rng.uniform(0.1, 1.0);
            if (explicitEntry[E_KRO]) v[E_KRO] = rng.uniform(0.1, 1.0);
            if (explicitEntry[E_KRG]) v[E_KRG] = rng.uniform(0.1, 1.0);
            if (explicitEntry[E_PCW]) v[E_PCW] = T.v[E_PCW] * rng.loguniform(0.2, 5.0);
            if (explicitEntry[E_PCG]) v[E_PCG] = T.v[E_PCG] * rng.loguniform(0.2, 5.0);
            if (explicitEntry[E_KRWR]) v[E_KRWR] = v[E_KRW] * rng.uniform(0.2, 1.0);
            if (explicitEntry[E_KRORW]) v[E_KRORW] = v[E_KRO] * rng.uniform(0.2, 1.0);
            if (explicitEntry[E_KRGR]) v[E_KRGR] = v[E_KRG] * rng.uniform(0.2, 1.0);
            if (explicitEntry[E_KRORG]) v[E_KRORG] = v[E_KRO] * rng.uniform(0.2, 1.0);
            for (int k = 0; k < E_N; ++k) v[k] = roundTrip(v[k]);
            if (validEndPts(e, T, needMiddle, m.threepoint && !m.present[E_KRWR])) break;
            if (attempt == 58) { e = T; for (int k = 0; k < E_N; ++k) explicitEntry[k] = m.present[k]; break; }
        }
        // where the displacing-critical anchor coincides with the anchor of the maximum, KRxR and KRx name the same point
        {
            const Anchors A = anchorsOf(e.v);
            for (int i = 0; i < 4; ++i)
                if (A.a[i][1] == A.a[i][MAXSIDE[i]] && m.present[RKW[i]] && e.v[RKW[i]] != e.v[MKW[i]]) { e.v[RKW[i]] = e.v[MKW[i]]; explicitEntry[RKW[i]] = true; }
        }
        for (int k = 0; k < E_N; ++k) m.arrText[c][k] = explicitEntry[k] ? num(e.v[k]) : std::string("1*");
        E[c] = e;
    }
    return E;
}

static void expectMap(Ctx& cx, const std::string& key, const std::string& what, double got, double expect) {
    cx.close(key, what, got, expect, KR_TOL);
    cx.rep.maxof("max_endpoint_saturation_map_err", std::fabs(got - expect));
}

static void checkEndPointMapping(Ctx& cx, const Cell& cell, const Model& m, const Tab& t, const EndPts& E, int satnum) {
    const double* e = E.v;
    const double pu = PUNIT[m.unit];
    const std::string tag = cellTag(cell.elem, satnum) + (m.threepoint ? " three-point" : " two-point");
    // the connate water saturation of the cell as used by the three-phase law
    cx.close("eps-endpoint:swl-of-cell", tag + " Swl of the three-phase law", cell.sub.swl, e[E_SWL], 1e-12);
    // (1) saturation mapping of the end-point scaling laws
    const auto& owd = cell.sub.ow->drainageParams();
    const auto& god = cell.sub.go->drainageParams();
    auto M = [&](const char* curve, const char* pt, double got, double expect) {
        std::ostringstream w; w.precision(17);
        w << tag << " " << curve << ": scaled end-point " << pt << " maps to table saturation";
        expectMap(cx, std::string("eps-endpoint-map:") + curve, w.str(), got, expect);
    };
    M("krw", "SWCR", OWEps::scaledToUnscaledSatKrw(owd, e[E_SWCR]), t.Swcr);
    // When the critical saturation of the displacing oil lies beyond SWU (three-point scaling) the map jumps to the table maximum AT
    // SWU: evaluated a hair above it, so that the last bit of SWU does not decide on which side of the jump the probe lands.
    const bool krwBeyond = m.threepoint && 1.0 - e[E_SOWCR] - e[E_SGL] > e[E_SWU];
    const double swuProbe = krwBeyond ? e[E_SWU] + 1e-9 : e[E_SWU];
    M("krw", "SWU", OWEps::scaledToUnscaledSatKrw(owd, swuProbe), t.Swu);
    M("krow", "1-SOWCR", OWEps::scaledToUnscaledSatKrn(owd, 1.0 - e[E_SOWCR]), 1.0 - t.Sowcr);
    M("krow", "SWL+SGL", OWEps::scaledToUnscaledSatKrn(owd, e[E_SWL] + e[E_SGL]), t.Swl + t.Sgl);
    M("pcow", "SWL", OWEps::scaledToUnscaledSatPc(owd, e[E_SWL]), t.Swl);
    M("pcow", "SWU", OWEps::scaledToUnscaledSatPc(owd, e[E_SWU]), t.Swu);
    M("krog", "SOGCR", GOEps::scaledToUnscaledSatKrw(god, e[E_SOGCR]), t.Sogcr);
    M("krog", "1-SWL-SGL", GOEps::scaledToUnscaledSatKrw(god, 1.0 - e[E_SWL] - e[E_SGL]), 1.0 - t.Swl - t.Sgl);
    M("krg", "SGU", GOEps::scaledToUnscaledSatKrn(god, 1.0 - e[E_SWL] - e[E_SGU]), 1.0 - t.Swl - t.Sgu);
    M("krg", "SGCR", GOEps::scaledToUnscaledSatKrn(god, 1.0 - e[E_SWL] - e[E_SGCR]), 1.0 - t.Swl - t.Sgcr);
    M("pcgo", "SGU", GOEps::scaledToUnscaledSatPc(god, 1.0 - e[E_SWL] - e[E_SGU]), 1.0 - t.Swl - t.Sgu);
    M("pcgo", "SGL", GOEps::scaledToUnscaledSatPc(god, 1.0 - e[E_SWL] - e[E_SGL]), 1.0 - t.Swl - t.Sgl);
    if (m.threepoint) {
        if (1.0 - e[E_SOWCR] - e[E_SGL] <= e[E_SWU]) M("krw", "1-SOWCR-SGL", OWEps::scaledToUnscaledSatKrw(owd, 1.0 - e[E_SOWCR] - e[E_SGL]), 1.0 - t.Sowcr - t.Sgl);
        else { cx.rep.count("cells_with_krw_critical_saturation_beyond_SWU"); M("krw", "beyond SWU", OWEps::scaledToUnscaledSatKrw(owd, 0.5 * (e[E_SWU] + 1.0 - e[E_SOWCR] - e[E_SGL])), t.Swu); }
        M("krow", "SWCR+SGL", OWEps::scaledToUnscaledSatKrn(owd, e[E_SWCR] + e[E_SGL]), t.Swcr + t.Sgl);
        M("krog", "1-SGCR-SWL", GOEps::scaledToUnscaledSatKrw(god, 1.0 - e[E_SGCR] - e[E_SWL]), 1.0 - t.Sgcr - t.Swl);
        M("krg", "SOGCR", GOEps::scaledToUnscaledSatKrn(god, e[E_SOGCR]), t.Sogcr);
    }
    // (2) function values at the scaled end-points
    const double pcwScale = m.present[E_PCW] && t.pcwMax > 0 ? e[E_PCW] / t.pcwMax : 1.0;
    const double pcgScale = m.present[E_PCG] && t.pcgMax > 0 ? e[E_PCG] / t.pcgMax : 1.0;
    // Three-point vertical scaling of a curve whose table value at the critical saturation of the displacing phase equals
    // its maximum (the curve is flat between the two anchors, or the anchors coincide): same expectation, own key, because
    // the library decides "equal" on numbers that carry different rounding (see the report of this check)
    const EndPts Tv = tableEndPts(t);
    bool flat[4];
    for (int i = 0; i < 4; ++i) flat[i] = m.present[RKW[i]] && std::fabs(Tv.v[RKW[i]] - Tv.v[MKW[i]]) <= 1e-9;
    static const int CURVE_OF[NCURVE] = {0, 1, -1, 3, 2, -1};       // Curve -> index into RKW/MKW/anchors
    const Anchors An = anchorsOf(e);
    for (int route = 0; route < 2; ++route) {
        auto V = [&](int c, const char* pt, double s, double expect, double tol) {
            if (!cell.supported(route, c) || cell.blendZone(route, c, s)) return;
            const int ci = CURVE_OF[c];
            // route 3p averages krow and krog at Sw + Sg = Swco: there either curve's condition applies
            const bool atBlend = route == 0 && ((c == KROW && s == cell.swl) || (c == KROG && s == 0.0));
            const bool fl = ci >= 0 && (flat[ci] || (atBlend && (flat[1] || flat[2])));
            if (fl && !g_checkFlat3pt) return;
            std::ostringstream w; w.precision(17);
            w << tag << " route " << ROUTE[route] << " " << CURVE[c] << " at scaled end-point " << pt << " (S=" << s << ")";
            if (fl && flat[ci]) {
                // for the witness: the value in the middle between the displacing-critical anchor and the anchor of the maximum
                double xm = 0.5 * (An.a[ci][1] + An.a[ci][MAXSIDE[ci]]);
                double sm = isGas(c) ? 1.0 - e[E_SWL] - xm : xm;
                w << " [" << EPS_KW[RKW[ci]] << " present, table " << CURVE[c] << " at the critical saturation of the displacing phase equals its maximum; value half-way between the two scaled anchors (S="
                  << sm << "): " << cell.eval(route, c, sm) << "]";
            }
            cx.close(std::string("eps-endpoint-value:") + CURVE[c] + (fl ? ":table-kr-at-displacing-critical-equals-maximum" : ""), w.str(), cell.eval(route, c, s), expect, tol);
        };
        V(KRW, "SWCR", e[E_SWCR], 0.0, KR_TOL);
        V(KRW, "SWU", swuProbe, e[E_KRW], KR_TOL);
        V(KROW, "1-SOWCR", 1.0 - e[E_SOWCR], 0.0, KR_TOL);
        V(KROW, "SWL+SGL", e[E_SWL] + e[E_SGL], e[E_KRO], KR_TOL);
        V(PCOW, "SWL", e[E_SWL], t.pcwMax * pcwScale * pu, pcTol(t.pcwMax * pcwScale * pu));
        V(PCOW, "SWU", e[E_SWU], t.pcow.back() * pcwScale * pu, pcTol(t.pcwMax * pcwScale * pu));
        V(KRG, "SGCR", e[E_SGCR], 0.0, KR_TOL);
        V(KRG, "SGU", e[E_SGU], e[E_KRG], KR_TOL);
        V(KROG, "SOGCR", 1.0 - e[E_SWL] - e[E_SOGCR], 0.0, KR_TOL);
        V(KROG, "SGL", e[E_SGL], e[E_KRO], KR_TOL);
        V(PCGO, "SGU", e[E_SGU], t.pcgMax * pcgScale * pu, pcTol(t.pcgMax * pcgScale * pu));
        V(PCGO, "SGL", e[E_SGL], t.pcgo.front() * pcgScale * pu, pcTol(t.pcgMax * pcgScale * pu));
        if (m.threepoint) {
            // value at the critical saturation of the displacing phase: the R-keyword if present, else the table's value
            // scaled like the maximum
            double krwr = m.present[E_KRWR] ? e[E_KRWR] : t.Krwr * (m.present[E_KRW] ? e[E_KRW] / t.krwMax : 1.0);
            double krorw = m.present[E_KRORW] ? e[E_KRORW] : t.Krorw * (m.present[E_KRO] || m.present[E_KRORW] ? e[E_KRO] / t.kroMax : 1.0);
            double krgr = m.present[E_KRGR] ? e[E_KRGR] : t.Krgr * (m.present[E_KRG] ? e[E_KRG] / t.krgMax : 1.0);
            double krorg = m.present[E_KRORG] ? e[E_KRORG] : t.Krorg * (m.present[E_KRO] || m.present[E_KRORG] ? e[E_KRO] / t.kroMax : 1.0);
            if (1.0 - e[E_SOWCR] - e[E_SGL] <= e[E_SWU]) V(KRW, "1-SOWCR-SGL", 1.0 - e[E_SOWCR] - e[E_SGL], krwr, KR_TOL);
            else V(KRW, "between SWU and 1-SOWCR-SGL", 0.5 * (e[E_SWU] + 1.0 - e[E_SOWCR] - e[E_SGL]), e[E_KRW], KR_TOL);     // at the maximum from SWU on
            V(KROW, "SWCR+SGL", e[E_SWCR] + e[E_SGL], krorw, KR_TOL);
            V(KRG, "1-SWL-SOGCR", 1.0 - e[E_SWL] - e[E_SOGCR], krgr, KR_TOL);
            V(KROG, "SGCR", e[E_SGCR], krorg, KR_TOL);
        }
    }
}

static void caseEps(vh::Reporter& rep, long idx, Rng& rng, int grid) {
    Model m = baseModel(rng, idx);
    m.family = rng.chance(0.7) ? 1 : 2;
    const bool identity = rng.chance(0.45);
    const bool knownClass = (idx / 10) % 10 == 0 || g_knownEverywhere;      // 10% of the eps cases compare the saturations of struct Beyond
    TabOpts o; o.punit = PUNIT[m.unit]; o.zeroPc = false;
    for (int r = 0; r < m.ndrain; ++r) m.tabs.push_back(genTab(rng, o));
    std::vector<EndPts> E = genEndPoints(rng, m, identity);
    const std::string dE = deckText(m, true, false), d0 = deckText(m, false, false);
    Built bE = build(dE, m.ncell), b0 = build(d0, m.ncell);
    coverModel(rep, m, identity ? "eps-identity" : "eps-random");
    rep.cover("family", m.family == 1 ? "I" : "II");
    rep.cover("scalecrs", !m.scalecrsKw ? "absent" : m.threepoint ? "YES" : "NO");
    for (int k = 0; k < E_N; ++k) if (m.present[k]) rep.cover("endpoint_keyword", EPS_KW[k]);
    Ctx cx(rep);
    cx.witnessHead = "--- deck with ENDSCALE ---\n" + dE;
    bool ok = !refused(rep, bE, "eps") & !refused(rep, b0, "eps_reference");
    if (ok) {
        for (int c = 0; c < m.ncell; ++c) {
            const Tab& t = m.tabs[m.satnum[c] - 1];
            Cell ce(*bE.mgr, c, E[c].v[E_SWL]);
            for (int k = 0; k < E_N; ++k) if (m.present[k]) rep.count(m.arrText[c][k] == "1*" ? "endpoint_entries_defaulted" : "endpoint_entries_explicit");
            bool same = true;
            const EndPts T = tableEndPts(t);
            for (int k = 0; k < E_N; ++k) if (E[c].v[k] != T.v[k]) same = false;
            if (same) {
                // scaling with the table's own end-points is the identity
                Cell c0(*b0.mgr, c, t.Swl);
                // saturations beyond the anchor of the maximum of a curve with a KRxR keyword and a flat table: see struct Beyond
                Beyond by;
                by.compare = knownClass;
                auto flatR = [&](int rk, int mk) { return m.present[rk] && std::fabs(T.v[rk] - T.v[mk]) <= 1e-9; };
                if (flatR(E_KRWR, E_KRW)) { by.active[KRW] = true; by.hi[KRW] = t.Swu; }
                if (flatR(E_KRORW, E_KRO)) { by.active[KROW] = true; by.lo[KROW] = t.Swl + t.Sgl; }
                if (flatR(E_KRGR, E_KRG)) { by.active[KRG] = true; by.hi[KRG] = t.Sgu; }
                if (flatR(E_KRORG, E_KRO)) { by.active[KROG] = true; by.lo[KROG] = t.Sgl; }
                compareCells(cx, ce, c0, "eps-identity", cellTag(c, m.satnum[c]) + (m.threepoint ? " three-point" : " two-point"), t, PUNIT[m.unit], grid, true, &by);
                rep.count("cells_identity_scaling");
            } else {
                rep.count("cells_random_scaling");
            }
            checkEndPointMapping(cx, ce, m, t, E[c], m.satnum[c]);
        }
    }
    rep.count("comparisons", cx.comparisons);
    rep.count("comparisons_eps", cx.comparisons);
    if (!(ok && cx.comparisons >= 30)) rep.count("trivial_eps");
    rep.case_done(vh::fnv(dE), ok && cx.comparisons >= 30);
    if (idx < 8) rep.sample("class eps, deck of case " + std::to_string(idx) + ":\n" + dE, 3, 2500);
    cx.flush();
}

// ---------------------------------------------------------------------------------------------
// case class 3: hysteresis
// ---------------------------------------------------------------------------------------------
// hysteresis combined with (two-point) end-point scaling: drainage arrays as in the eps class (saturation end-points and
// KRW/KRO/KRG only), imbibition arrays (I-prefixed) that keep the curves meeting at the maximum non-wetting saturation:
// ISWL/ISWU/ISGU/IKRO/IKRG mirror the drainage arrays, the critical non-wetting saturations are not below the drainage ones.
// With `identical` every I-array mirrors its drainage array.  Returns false if no valid set was found.
static bool genHystEndPoints(Rng& rng, Model& m, bool identical, std::vector<EndPts>& Ed) {
    bool allowed[E_N] = {};
    for (int k : {E_SWL, E_SWCR, E_SWU, E_SGCR, E_SGU, E_SOWCR, E_SOGCR, E_KRW, E_KRO, E_KRG}) allowed[k] = true;
    Ed = genEndPoints(rng, m, false, allowed, true);
    const int nc = m.ncell;
    m.iarrText.assign(nc, {});
    static const int SHARED[] = {E_SWL, E_SWU, E_SGU, E_KRO, E_KRG};
    static const int OWN[] = {E_SWCR, E_SGCR, E_SOWCR, E_SOGCR, E_KRW};
    for (int k : SHARED) m.ipresent[k] = m.present[k];
    for (int k : OWN) m.ipresent[k] = identical ? m.present[k] : (rng.chance(0.5) || ((k == E_SOWCR || k == E_SGCR) && m.present[k]));
    for (int c = 0; c < nc; ++c) {
        if (identical) { m.iarrText[c] = m.arrText[c]; continue; }
        const EndPts Ti = tableEndPts(m.tabs[m.imbnum[c] - 1]);
        bool done = false;
        for (int attempt = 0; attempt < 60 && !done; ++attempt) {
            EndPts e = Ti;
            std::array<std::string, E_N> txt;
            for (int k : SHARED) if (m.ipresent[k]) { e.v[k] = Ed[c].v[k]; txt[k] = m.arrText[c][k]; }
            double* v = e.v;
            auto put = [&](int k, double val) { v[k] = roundTrip(val); txt[k] = num(v[k]); };
            if (m.ipresent[E_SWCR]) { if (rng.chance(0.15)) txt[E_SWCR] = "1*"; else put(E_SWCR, v[E_SWL] + rng.uniform(0.0, 0.15)); }
            if (m.ipresent[E_KRW]) { if (rng.chance(0.15)) txt[E_KRW] = "1*"; else put(E_KRW, rng.uniform(0.1, 1.0)); }
            if (m.ipresent[E_SOWCR]) put(E_SOWCR, std::max(Ed[c].v[E_SOWCR], Ti.v[E_SOWCR]) + rng.uniform(0.0, 0.1));
            if (m.ipresent[E_SGCR]) put(E_SGCR, std::max(Ed[c].v[E_SGCR], Ti.v[E_SGCR]) + rng.uniform(0.0, 0.1));
            if (m.ipresent[E_SOGCR]) { if (rng.chance(0.15)) txt[E_SOGCR] = "1*"; else put(E_SOGCR, rng.uniform(0.0, 0.3)); }
            if (!(v[E_SOWCR] >= Ed[c].v[E_SOWCR] && v[E_SGCR] >= Ed[c].v[E_SGCR])) continue;
            if (v[E_SWL] != Ed[c].v[E_SWL] || v[E_SGU] != Ed[c].v[E_SGU] || v[E_KRO] != Ed[c].v[E_KRO] || v[E_KRG] != Ed[c].v[E_KRG]) continue;
            if (!validEndPts(e, Ti, false)) continue;
            m.iarrText[c] = txt;
            done = true;
        }
        if (!done) return false;
    }
    return true;
}

struct History { std::vector<double> s; std::vector<bool> turn; int reversals = 0; };

// zig-zag history of `steps` saturations in [lo, hi] with nrev reversals
static History genHistory(Rng& rng, double lo, double hi, int steps, int nrev, const std::vector<double>& nodes) {
    History h;
    double mid = lo + (hi - lo) * rng.uniform(0.3, 0.7);
    bool low = rng.chance(0.5);
    std::vector<double> tp;
    for (int i = 0; i < nrev + 2; ++i) {
        double v = low ? rng.uniform(lo, mid - 0.01 * (hi - lo)) : rng.uniform(mid + 0.01 * (hi - lo), hi);
        if (rng.chance(0.15)) v = low ? lo : hi;
        if (rng.chance(0.2) && !nodes.empty()) {            // snap to a table node on the right side of mid
            double n = rng.pick(nodes);
            if (n >= lo && n <= hi && (low ? n < mid : n > mid)) v = n;
        }
        tp.push_back(v);
        low = !low;
    }
    const int legs = nrev + 1;
    h.s.push_back(tp[0]); h.turn.push_back(false);
    for (int l = 0; l < legs; ++l) {
        int n = steps / legs + (l < steps % legs ? 1 : 0);
        if (l == 0) n -= 1;
        n = std::max(n, 1);
        std::vector<double> u;
        for (int i = 0; i + 1 < n; ++i) u.push_back(rng.unit());
        std::sort(u.begin(), u.end());
        u.push_back(1.0);
        for (int i = 0; i < n; ++i) {
            double v = tp[l] + (tp[l + 1] - tp[l]) * u[i];
            if (i + 1 == n) v = tp[l + 1];
            if (i + 1 < n && rng.chance(0.04)) v = h.s.back();      // the saturation does not move in this step
            h.s.push_back(v);
            h.turn.push_back(i + 1 == n);
        }
    }
    for (size_t i = 1; i + 1 < h.s.size(); ++i)
        if ((h.s[i] - h.s[i - 1]) * (h.s[i + 1] - h.s[i]) < 0) ++h.reversals;
    return h;
}

// the trace checker for one (cell, two-phase system, route)
struct Trace {
    double xmin = INFINITY;                       // smallest wetting saturation handed to updateHysteresis so far
    std::map<double, double> scan;                // observations on the current scanning curve: x -> krn
};

static void caseHyst(vh::Reporter& rep, long idx, Rng& rng, int steps, bool allowImbnumAbsent) {
    Model m = baseModel(rng, idx, 2);
    m.family = rng.chance(0.8) ? 1 : 2;
    m.hyst = true;
    static const int MODELS[] = {0, 1, 2, 3, 4};
    m.ehystr = MODELS[(idx / 10) % 5];
    m.ehFlag = rng.chance(0.6) ? "KR" : "BOTH";
    const bool carlson = m.ehystr <= 1;
    // imbibition curves: 0 = own random tables, 1 = IMBNUM equal to SATNUM, 2 = identical copies in further regions,
    // 3 = IMBNUM keyword absent
    int imbMode = 0;
    if (carlson && rng.chance(0.45)) imbMode = (int)rng.range(1, 3);
    if (imbMode == 3 && !allowImbnumAbsent) imbMode = 1;
    TabOpts o; o.punit = PUNIT[m.unit]; o.pPlateau = 0.0; o.zeroPc = false;
    for (int r = 0; r < m.ndrain; ++r) m.tabs.push_back(genTab(rng, o));
    if (imbMode == 0) for (int r = 0; r < m.ndrain; ++r) m.tabs.push_back(genImbTab(rng, m.tabs[r], o));
    if (imbMode == 2) for (int r = 0; r < m.ndrain; ++r) m.tabs.push_back(m.tabs[r]);
    if (imbMode == 0 || imbMode == 2) for (int c = 0; c < m.ncell; ++c) m.imbnum.push_back(m.satnum[c] + m.ndrain);
    if (imbMode == 1) m.imbnum = m.satnum;
    const bool identical = imbMode != 0;
    // a third of the cases combine hysteresis with two-point end-point scaling
    std::vector<EndPts> Ed;
    // Known finding "carlson-identical-curves:IMBNUM absent:I-arrays present": without IMBNUM, I-prefixed arrays make the
    // library take the imbibition curves of region 1; that input class is confined to a quarter of the case decades
    const bool iArraysWithoutImbnum = (idx / 10) % 4 == 0 || g_knownEverywhere;
    if (rng.chance(0.33) && (imbMode != 3 || iArraysWithoutImbnum)) {
        if (imbMode == 3) m.imbnum = m.satnum;              // the imbibition tables of the cells, for the generator only
        bool okEps = genHystEndPoints(rng, m, identical, Ed);
        if (imbMode == 3) m.imbnum.clear();
        if (!okEps) {
            m.endscale = false; m.scalecrsKw = false;
            for (int k = 0; k < E_N; ++k) m.present[k] = m.ipresent[k] = false;
            Ed.clear();
            rep.count("hyst_eps_generator_gave_up");
        }
    }
    const bool eps = m.endscale;
    const std::string dH = deckText(m, true, true), dD = deckText(m, true, false);
    Built bH = build(dH, m.ncell), bD = build(dD, m.ncell);
    coverModel(rep, m, identical ? "hyst-identical-curves" : "hyst");
    rep.cover("family", m.family == 1 ? "I" : "II");
    rep.cover("ehystr_model", std::to_string(m.ehystr) + (carlson ? " (Carlson)" : " (Killough)"));
    rep.cover("ehystr_flag", m.ehFlag);
    static const char* IMBNAME[] = {"own imbibition tables", "IMBNUM = SATNUM", "IMBNUM -> identical copy", "IMBNUM absent", "IMBNUM absent:I-arrays present"};
    const char* const* IMB = IMBNAME;
    if (imbMode == 3 && eps) imbMode = 4;
    rep.cover("imbibition_curves", IMB[imbMode]);
    rep.cover("hysteresis_with_endscale", eps ? "yes (two-point)" : "no");
    Ctx cx(rep);
    cx.witnessHead = "--- deck with hysteresis ---\n" + dH;
    bool ok = !refused(rep, bH, "hyst") & !refused(rep, bD, "hyst_reference");
    long nsteps = 0;
    std::string firstHist;
    if (ok) {
        for (int c = 0; c < m.ncell; ++c) {
            const Tab& t = m.tabs[m.satnum[c] - 1];
            const EndPts E = eps ? Ed[c] : tableEndPts(t);       // the drainage end-points of the cell
            const double swl = E.v[E_SWL];
            Cell ch(*bH.mgr, c, swl), cd(*bD.mgr, c, swl);
            const bool gasSystem = rng.chance(0.5);
            rep.cover("history_system", gasSystem ? "gas-oil (Sw = Swco)" : "oil-water (Sg = 0)");
            const int KRN = gasSystem ? KRG : KROW;
            const int nrev = (int)rng.range(1, 5);
            // inside the tabulated saturation range (beyond it the curves continue constantly, and Carlson's horizontal
            // shift is not unique on a constant stretch); route 3p blends the oil curves within 1e-5 of Swco
            const double lo = gasSystem ? 0.0 : swl + 1e-3, hi = gasSystem ? E.v[E_SGU] : 1.0;
            History h = genHistory(rng, lo, hi, steps, nrev, gasSystem ? t.sg : t.sw);
            rep.cover("history_reversals", std::to_string(std::min(h.reversals, 6)));
            if (firstHist.empty()) {
                std::ostringstream w; w.precision(6);
                w << cellTag(c, m.satnum[c]) << (gasSystem ? " Sg history:" : " Sw history:");
                for (size_t k = 0; k < h.s.size(); k += 5) w << " " << h.s[k];
                firstHist = w.str();
            }
            // wetting saturation x of the two-phase law as function of the history saturation s
            auto X = [&](double s) { return gasSystem ? 1.0 - swl - s : s; };
            auto S = [&](double x) { return gasSystem ? 1.0 - swl - x : x; };
            const double xhi = gasSystem ? 1.0 - swl : 1.0;
            const double krnMax = gasSystem ? E.v[E_KRG] : E.v[E_KRO];
            Trace tr[2];
            double maxSo = -INFINITY, maxSg = -INFINITY;
            const std::string tag = cellTag(c, m.satnum[c]) + (gasSystem ? " gas-oil system" : " oil-water system") + " EHYSTR model " + std::to_string(m.ehystr);
            for (size_t k = 0; k < h.s.size(); ++k) {
                const double s = h.s[k], x = X(s);
                ++nsteps;
                // --- observation before the update of this step
                for (int route = 0; route < 2; ++route) {
                    if (!ch.supported(route, KRN)) continue;
                    Trace& T = tr[route];
                    const double got = ch.eval(route, KRN, s), drain = cd.eval(route, KRN, s);
                    auto where = [&] { std::ostringstream w; w.precision(17);
                                       w << tag << " route " << ROUTE[route] << " step " << k << " S=" << s; return w.str(); };
                    if (!(x > T.xmin - 1e-12)) {
                        // at or beyond the extreme saturation reached so far: the drainage curve
                        cx.closeLazy([] { return std::string("hyst-drainage-until-reversal"); },
                                     [&] { return where() + " non-wetting kr beyond the extreme saturation reached so far (" + num(S(T.xmin)) + ")"; }, got, drain, KR_TOL);
                        rep.count("steps_on_drainage_curve");
                    } else if (x > T.xmin + 1e-12 && !identical) {
                        // on the scanning curve that starts at xmin: monotone with every other observation on it and
                        // not above the value at the reversal point
                        ++cx.comparisons;
                        bool bad = !(got >= -SCAN_SLACK) || !(got <= cd.eval(route, KRN, S(T.xmin)) + KR_TOL);
                        // neighbours closer than 1e-7 carry no information beyond rounding: not compared
                        auto it = T.scan.lower_bound(x + 1e-7);
                        if (it != T.scan.end() && !(it->second <= got + SCAN_SLACK)) bad = true;            // larger x: smaller krn
                        auto lt = T.scan.upper_bound(x - 1e-7);
                        if (lt != T.scan.begin() && !(std::prev(lt)->second >= got - SCAN_SLACK)) bad = true;
                        if (bad) cx.fail("hyst-scanning-monotone", where() + " non-wetting kr " + num(got) + " on the scanning curve from S=" + num(S(T.xmin)) +
                                         " is negative, above the value at the reversal point or not monotone with the earlier observations on this curve");
                        T.scan[x] = got;
                        rep.count("steps_on_scanning_curve");
                    }
                    if (identical) {
                        // Carlson with identical curves changes nothing: every output equals the model without hysteresis
                        for (int cc = 0; cc < NCURVE; ++cc) {
                            if (isGas(cc) != gasSystem || !ch.supported(route, cc) || ch.blendZone(route, cc, s)) continue;
                            if (isPc(cc) && m.ehFlag != "KR") continue;
                            std::vector<double> tx, ty; tableOf(t, cc, PUNIT[m.unit], tx, ty);
                            double tol = isPc(cc) ? pcTol(*std::max_element(ty.begin(), ty.end())) : KR_TOL;
                            cx.closeLazy([&] { return std::string("carlson-identical-curves:") + IMB[imbMode]; },
                                         [&] { return where() + " " + CURVE[cc] + " with identical drainage and imbibition curves vs. no hysteresis"; },
                                         ch.eval(route, cc, s), cd.eval(route, cc, s), tol);
                        }
                    }
                }
                // --- the update of this step through the manager
                {
                    FluidState fs;
                    double Sw = gasSystem ? swl : s, Sg = gasSystem ? s : 0.0;
                    fs.setSaturation(0, Sw); fs.setSaturation(1, 1.0 - Sw - Sg); fs.setSaturation(2, Sg);
                    bool changed = bH.mgr->updateHysteresis(fs, (unsigned)c);
                    rep.count(changed ? "updates_changed" : "updates_unchanged");
                    // the scanning curves start at the reversal point: the extreme non-wetting saturations the manager keeps
                    // (and reports) are the extremes of the history
                    maxSo = std::max(maxSo, 1.0 - Sw - Sg); maxSg = std::max(maxSg, Sg);
                    double soMax = NAN, swMax = NAN, swMin = NAN, sgMax = NAN, shMax = NAN, soMin = NAN;
                    bH.mgr->oilWaterHysteresisParams(soMax, swMax, swMin, (unsigned)c);
                    bH.mgr->gasOilHysteresisParams(sgMax, shMax, soMin, (unsigned)c);
                    auto where = [&] { std::ostringstream w; w.precision(17); w << tag << " after the update of step " << k << " (Sw=" << Sw << ", Sg=" << Sg << ")"; return w.str(); };
                    cx.closeLazy([] { return std::string("hyst-reversal-point:oil-water"); }, [&] { return where() + " largest oil saturation kept by the manager vs. largest of the history"; }, soMax, maxSo, 1e-12);
                    cx.closeLazy([] { return std::string("hyst-reversal-point:gas-oil"); }, [&] { return where() + " largest gas saturation kept by the manager vs. largest of the history"; }, sgMax, maxSg, 1e-12);
                }
                for (int route = 0; route < 2; ++route) if (x < tr[route].xmin) { tr[route].xmin = x; tr[route].scan.clear(); }
                // --- after the update at turning points, at the end and now and then: the whole curve
                if (identical || !(h.turn[k] || k + 1 == h.s.size() || rng.chance(0.03))) continue;
                for (int route = 0; route < 2; ++route) {
                    if (!ch.supported(route, KRN)) continue;
                    const double xm = tr[route].xmin;
                    const double kd = cd.eval(route, KRN, S(xm));
                    std::ostringstream w; w.precision(17);
                    w << tag << " route " << ROUTE[route] << " after step " << k << " (extreme saturation S=" << S(xm) << ", drainage kr there " << kd << ")";
                    // drainage curve below the extreme
                    for (int q = 1; q <= 8; ++q) {
                        const double xlo = gasSystem ? 1.0 - swl - E.v[E_SGU] : swl + 1e-3;
                        double x2 = xm - (xm - xlo) * q / 8.0 * rng.unit();
                        if (!(x2 < xm - 1e-9) || x2 < xlo) continue;
                        cx.close("hyst-drainage-until-reversal", w.str() + " non-wetting kr at S=" + num(S(x2)) + " beyond the extreme", ch.eval(route, KRN, S(x2)), cd.eval(route, KRN, S(x2)), KR_TOL);
                    }
                    if (!(xm + 2e-3 < xhi)) continue;
                    // continuity at the reversal point: approach it from the scanning side on a geometric sequence; the
                    // distance to the drainage value must vanish like the local slope times the distance
                    // (down to 1e-12: a kink of the piecewise linear curve inside the last interval would spoil the slope estimate)
                    double slope = 0, prevv = NAN, prevd = NAN, last = NAN;
                    const double dmin = 1e-12;
                    for (double d = 1e-3; d > 0.5 * dmin; d *= 0.1) {
                        double v = ch.eval(route, KRN, S(xm + d));
                        if (!std::isnan(prevv)) slope = std::max(slope, std::fabs(v - prevv) / (prevd - d));
                        prevv = v; prevd = d; last = v;
                    }
                    ++cx.comparisons;
                    const double jump = std::fabs(last - kd);
                    rep.maxof("max_jump_at_reversal_point", jump);
                    if (!(jump <= KR_TOL + 4 * dmin * slope))
                        cx.fail("hyst-scanning-continuity", w.str() + ": the scanning curve arrives at " + num(last) + " 1e-12 above the reversal point (local slope " + num(slope) + "), jump " + num(jump));
                    // monotone and bounded on a grid from the reversal point to the maximum wetting saturation
                    const int G = 64;
                    double prev = kd;
                    for (int q = 1; q <= G; ++q) {
                        double x2 = xm + (xhi - xm) * q / G;
                        double v = ch.eval(route, KRN, S(x2));
                        ++cx.comparisons;
                        if (!(v <= prev + SCAN_SLACK + (q == 1 ? KR_TOL : 0)) || !(v >= -SCAN_SLACK) || !(v <= krnMax + KR_TOL)) {
                            cx.fail("hyst-scanning-monotone", w.str() + ": scanning curve value " + num(v) + " at S=" + num(S(x2)) + " after " + num(prev) +
                                    " at the previous grid point is not monotone or outside [0, max]");
                        }
                        prev = v;
                    }
                    rep.count("scanning_curves_sampled");
                }
            }
        }
    }
    rep.count("history_steps", nsteps);
    rep.count("comparisons", cx.comparisons);
    rep.count("comparisons_hyst", cx.comparisons);
    if (!(ok && nsteps >= steps)) rep.count("trivial_hyst");
    rep.case_done(vh::fnv(dH), ok && nsteps >= steps);
    if (idx < 10) rep.sample("class hyst, deck of case " + std::to_string(idx) + ":\n" + dH + firstHist, 3, 3500);
    cx.flush();
}

int main(int argc, char** argv) {
    vh::Args args = vh::parse_args(argc, argv);
    vh::Reporter rep(args, "C15");
    const int grid = (int)args.geti("grid", 400);
    const int steps = (int)args.geti("steps", 200);
    const std::string only = args.get("class", "");
    g_checkFlat3pt = args.geti("flat3pt", 1) != 0;
    g_knownEverywhere = args.geti("known_everywhere", 0) != 0;
    const bool imbnumAbsent = args.geti("imbnum_absent", 1) != 0;   // trial runs only: 0 leaves the IMBNUM-less decks out
    rep.run_cases([&](long idx, Rng& rng) {
        int k = (int)(idx % 10);
        std::string cls = k < 3 ? "unscaled" : k < 7 ? "eps" : "hyst";
        if (!only.empty() && only != cls) return;
        if (cls == "unscaled") caseUnscaled(rep, idx, rng, grid);
        else if (cls == "eps") caseEps(rep, idx, rng, grid);
        else caseHyst(rep, idx, rng, steps, imbnumAbsent);
    });
    rep.finish();
    return 0;
}
