// C10 — every summary value written can be read back at its vector and ministep (fast sweep).
//
// Monitor: summary result sets are produced with the library's own low-level writers
// (OutputStream::SummarySpecification for the SMSPEC file, createSummaryFile + EclOutput::write for the
// SEQHDR / MINISTEP / PARAMS records) from values generated here.  The oracle is the knowledge of what
// was fed in: every vector x every ministep is compared with what the three readers return
//   ESmry::loadData() (whole PARAMS), ESmry::loadData(list) / lazy get() (direct seek per element),
//   ESmry::make_esmry_file() -> ExtESmry
// together with key set, units, start date, time axis (dates()), report-step positions
// (get_at_rstep, timestepIdxAtReportstepStart, dates_at_rstep, RSTEP), ministep bookkeeping (TSTEP,
// all_steps_available) and - for runs that continue a base run (RESTART root + step in SMSPEC, nested
// once) - "base history up to the restart step followed by own steps".
//
// Unformatted files carry the float bit patterns: equality is demanded bit for bit.  Formatted files carry
// 8 significant decimal digits: the value demanded is the float nearest to the correctly rounded 8-digit
// decimal of the value written (computed here with snprintf("%.7E") + strtof, independent of the library's
// string surgery); the relative distance to the original value is recorded (max_fmt_rel_dev).
#include <opm/io/eclipse/OutputStream.hpp>
#include <opm/io/eclipse/EclOutput.hpp>
#include <opm/io/eclipse/EclFile.hpp>
#include <opm/io/eclipse/ESmry.hpp>
#include <opm/io/eclipse/ExtESmry.hpp>
#include <opm/common/utility/TimeService.hpp>
#include "common/vh.hpp"
#include <algorithm>
#include <array>
#include <cfloat>
#include <filesystem>
#include <memory>
#include <optional>
#include <sys/mman.h>
#include <sys/wait.h>

namespace fs = std::filesystem;
using vh::Rng;
using namespace Opm::EclIO;
namespace OS = Opm::EclIO::OutputStream;

// ---------------------------------------------------------------------------------------------
// what is written
// ---------------------------------------------------------------------------------------------
struct VecDef {
    std::string kw, wg;
    int num = 0;
    std::string unit;
    std::string key;   // documented lookup key; empty: the slot cannot be addressed (e.g. well vector without well)
};

struct StartDate { int y, m, d, hh, mi, ss; };

static bool g_collapseTailName = false;   // stage argument collapse_tailname=1
static int64_t days_from_civil(int y, int m, int d) {
    y -= m <= 2;
    const int64_t era = (y >= 0 ? y : y - 399) / 400;
    const unsigned yoe = (unsigned)(y - era * 400);
    const unsigned doy = (153 * (m + (m > 2 ? -3 : 9)) + 2) / 5 + d - 1;
    const unsigned doe = yoe * 365 + yoe / 4 - yoe / 100 + doy;
    return era * 146097 + (int64_t)doe - 719468;
}
static int64_t epoch_seconds(const StartDate& s) {
    return days_from_civil(s.y, s.m, s.d) * 86400 + s.hh * 3600 + s.mi * 60 + s.ss;
}

struct RunDef {
    std::string dir, name;
    bool fmt = false, unif = true;
    int uconv = 1;
    std::array<int, 3> dims{1, 1, 1};
    std::vector<VecDef> vecs;             // slot order == PARAMS order
    std::string rstRoot;                  // as written into RESTART
    int rstStep = 0;                      // DIMENS[5]
    int firstReport = 1;
    std::vector<int> reportOf;            // per ministep: report step number
    std::vector<int> ministep;            // per ministep: MINISTEP id
    std::vector<std::vector<float>> data; // [ministep][slot]
    StartDate start{2000, 1, 1, 0, 0, 0};
    int smspecRewrites = 0;
    double timeUnitSeconds = 86400.0;     // TIME is in days (hours in the LAB convention)
    std::string smspecPath() const { return dir + "/" + name + (fmt ? ".FSMSPEC" : ".SMSPEC"); }
    std::string describe() const {
        std::ostringstream o;
        o << "run " << dir << "/" << name << " formatted=" << fmt << " unified=" << unif << " nvec=" << vecs.size()
          << " dims=" << dims[0] << "x" << dims[1] << "x" << dims[2] << " unitconv=" << uconv << " RESTART='" << rstRoot << "' (len "
          << rstRoot.size() << ") rststep=" << rstStep << " start=" << start.y << "-" << start.m << "-" << start.d << " " << start.hh << ":"
          << start.mi << ":" << start.ss << "\n  ministeps (report:ministep-id):";
        for (size_t s = 0; s < reportOf.size(); ++s) o << " " << reportOf[s] << ":" << ministep[s];
        o << "\n";
        return o.str();
    }
};

// the value a reader must return for a value written
static float expectRead(bool formatted, float v) {
    if (!formatted) return v;
    char b[40];
    snprintf(b, sizeof b, "%.7E", (double)v);
    return std::strtof(b, nullptr);
}
static bool sameValue(bool formatted, float got, float exp) {
    if (formatted) return got == exp;            // decimal text has no sign of zero worth demanding
    return vh::bits(got) == vh::bits(exp);
}

// the library's formatted rendering is "0.dddddddd" x 10^e in a 17 character column; used only to classify a
// mismatch of the formatted direct-seek path as the known over-read (field followed by stray digits)
static std::string fieldText(float v) {
    if (v == 0.0f) return "0.00000000E+00";
    char b[40];
    snprintf(b, sizeof b, "%.7E", (double)v);
    std::string s(b);
    const bool neg = s[0] == '-';
    if (neg) s = s.substr(1);
    const int e = atoi(s.substr(10).c_str()) + 1;
    char eb[16];
    snprintf(eb, sizeof eb, "%+03i", e);
    return std::string(neg ? "-" : "") + "0." + s.substr(0, 1) + s.substr(2, 7) + "E" + eb;
}
static bool explainedByTrailingDigits(float got, float written) {
    const std::string f = fieldText(written);
    // one or two stray digits already decide: a third one can only push the exponent further out of range (same inf / 0).
    // A zero is not taken as evidence: zeros are written often, so a value read from a wrong place is the likelier explanation.
    if (got == 0.0f) return false;
    for (int nd = 1; nd <= 2; ++nd)
        for (int d = 0; d < (nd == 1 ? 10 : 100); ++d) {
            char suf[8];
            snprintf(suf, sizeof suf, nd == 1 ? "%d" : "%02d", d);
            if (std::strtof((f + suf).c_str(), nullptr) == got) return true;
        }
    return false;
}

// ---------------------------------------------------------------------------------------------
// generators
// ---------------------------------------------------------------------------------------------
static float genValue(Rng& r) {
    switch (r.below(10)) {
    case 0: return 0.0f;
    case 1: return (float)r.range(-100000, 100000);
    case 2: return (float)r.uniform(-1e4, 1e4);
    case 3: { double m = r.loguniform(1e-30, 1e30); return (float)(r.chance(0.5) ? m : -m); }
    case 4: {   // neighbours of powers of ten: the 8-digit mantissa rounds up/down across the exponent
        float p = (float)std::pow(10.0, (double)r.range(-30, 30));
        int k = (int)r.range(-3, 3);
        for (; k > 0; --k) p = std::nextafterf(p, INFINITY);
        for (; k < 0; ++k) p = std::nextafterf(p, 0.0f);
        return r.chance(0.3) ? -p : p;
    }
    case 5: {
        static const float ext[] = {FLT_MAX, -FLT_MAX, FLT_MIN, 1.4e-45f, 16777216.0f, 16777218.0f, 99999992.0f, 0.99999994f,
                                    1.0f, -1.0f, 1000.0612f, 1023.9999f, 9.9999998e-5f, 123456792.0f, 1e-20f, -1e20f};
        return ext[r.below(sizeof ext / sizeof ext[0])];
    }
    default: return (float)r.uniform(0, 2000);
    }
}

static const char* WKW[] = {"WOPR", "WWPR", "WGPR", "WBHP", "WTHP", "WWCT", "WGOR", "WOPT", "WWIT", "WLPR", "WPI", "WUBHP"};
static const char* GKW[] = {"GOPR", "GWPR", "GGPR", "GOPT", "GWIR", "GPR", "GMWPR", "GUOIL"};
static const char* BKW[] = {"BPR", "BOSAT", "BWSAT", "BGSAT", "BRS", "BVOIL"};
static const char* CKW[] = {"COPR", "CWPR", "CGPR", "CPR", "COFR", "CTFAC", "COPRL", "CWITL"};
static const char* RKW[] = {"RPR", "ROIP", "RWIP", "RGIP", "ROPT", "RORFR", "RHPV"};
static const char* RFKW[] = {"ROFT", "ROFR", "RGFT", "RWFR", "RGFR", "RWFT", "ROFTL", "RGFTG"};
static const char* AKW[] = {"AAQR", "AAQT", "AAQP", "ANQR"};
static const char* SKW[] = {"SOFR", "SGFR", "SWFR", "SPR", "SPRD", "SOFT"};
static const char* WCKW[] = {"WOPRL", "WGPRL", "WWPTL", "WOITL"};
static const char* MKW[] = {"YEARS", "TCPU", "NEWTON", "MLINEARS", "MSUMLINS", "ELAPSED", "TIMESTEP", "DAY", "MONTH", "YEAR", "NLINEARS",
                            "TCPUDAY", "STEPTYPE", "NAIMFRAC", "PERFORMA", "MSUMNEWT", "TELAPLIN", "ZIPEFF"};
static const char* UNITS[] = {"SM3/DAY", "BARSA", "SM3", "", "SM3/SM3", "STB/DAY", "PSIA", "RM3/DAY", "MSCF/DAY", "CP-RM3/D", "KG/SM3", "HOURS", "SECONDS"};
#define PICK(r, A) A[(r).below(sizeof(A) / sizeof(A[0]))]

static std::string ijkText(int num, const std::array<int, 3>& d) {
    int g = num - 1;
    const int i = g % d[0]; g /= d[0];
    const int j = g % d[1];
    const int k = g / d[1];
    return std::to_string(i + 1) + "," + std::to_string(j + 1) + "," + std::to_string(k + 1);
}
static std::string entityName(const char* pfx, long n, int style) {
    switch (style % 4) {
    case 0: return std::string(pfx) + std::to_string(n);
    case 1: return std::string(pfx) + "-" + std::to_string(n) + "H";
    case 2: return std::string(pfx) + "_" + std::to_string(n);
    default: { char b[16]; snprintf(b, sizeof b, "%s%07ld", pfx, n); return b; }   // full 8 characters
    }
}

// a set of nv vector definitions with pairwise distinct lookup keys; slot 0 is TIME
static std::vector<VecDef> genVectors(Rng& r, int nv, const std::array<int, 3>& dims, double deadFraction) {
    std::vector<VecDef> v;
    v.reserve(nv);
    std::set<std::string> used;
    const long ncell = (long)dims[0] * dims[1] * dims[2];
    const int style = (int)r.below(4);
    const long npool = std::max(2L, (long)nv / 6);
    size_t miscNext = 0;
    v.push_back({"TIME", ":+:+:+:+", 0, "DAYS", "TIME"});
    used.insert("TIME");
    long fieldCounter = 0;
    while ((int)v.size() < nv) {
        VecDef d;
        d.unit = PICK(r, UNITS);
        d.wg = ":+:+:+:+";
        const unsigned kind = (unsigned)r.below(100);
        if (kind < 28) {          // well
            d.kw = PICK(r, WKW); d.wg = entityName("W", (long)r.below(npool), style); d.key = d.kw + ":" + d.wg;
        } else if (kind < 36) {   // group / node
            d.kw = PICK(r, GKW); d.wg = entityName("G", (long)r.below(npool), style); d.key = d.kw + ":" + d.wg;
        } else if (kind < 58) {   // block
            d.kw = PICK(r, BKW); d.num = 1 + (int)r.below((uint64_t)ncell); d.key = d.kw + ":" + ijkText(d.num, dims);
        } else if (kind < 68) {   // connection
            d.kw = PICK(r, CKW); d.wg = entityName("W", (long)r.below(npool), style); d.num = 1 + (int)r.below((uint64_t)ncell);
            d.key = d.kw + ":" + d.wg + ":" + ijkText(d.num, dims);
        } else if (kind < 74) {   // region
            d.kw = PICK(r, RKW); d.num = 1 + (int)r.below(400); d.key = d.kw + ":" + std::to_string(d.num);
        } else if (kind < 80) {   // inter-region flow: NUMS = R1 + 32768 * (R2 + 10)
            d.kw = PICK(r, RFKW);
            const int r1 = 1 + (int)r.below(r.chance(0.1) ? 32767 : 120), r2 = 1 + (int)r.below(r.chance(0.1) ? 5000 : 120);
            d.num = r1 + 32768 * (r2 + 10);
            d.key = d.kw + ":" + std::to_string(r1) + "-" + std::to_string(r2);
        } else if (kind < 83) {   // aquifer
            d.kw = PICK(r, AKW); d.num = 1 + (int)r.below(200); d.key = d.kw + ":" + std::to_string(d.num);
        } else if (kind < 88) {   // segment
            d.kw = PICK(r, SKW); d.wg = entityName("W", (long)r.below(npool), style); d.num = 1 + (int)r.below(60);
            d.key = d.kw + ":" + d.wg + ":" + std::to_string(d.num);
        } else if (kind < 91) {   // well completion
            d.kw = PICK(r, WCKW); d.wg = entityName("W", (long)r.below(npool), style); d.num = 1 + (int)r.below(99);
            d.key = d.kw + ":" + d.wg + ":" + std::to_string(d.num);
            if (r.chance(0.5)) { char b[16]; snprintf(b, sizeof b, "%s%s%d", d.kw.c_str(), d.num < 10 ? "__" : "_", d.num); d.kw = b; }
        } else if (kind < 93 && miscNext < sizeof(MKW) / sizeof(MKW[0])) {   // miscellaneous
            d.kw = MKW[miscNext++]; d.key = d.kw;
        } else {                  // field
            static const char* L = "ABCDEFGHIJKLMNOPQRSTUVWXYZ";
            long c = fieldCounter++;
            d.kw = "F";
            do { d.kw += L[c % 26]; c /= 26; } while (c > 0);
            static const char* FSFX[] = {"PR", "PT", "IR", "IT", "R", "X"};
            d.kw += PICK(r, FSFX);
            d.key = d.kw;
        }
        if ((d.kw[0] == 'W' || d.kw[0] == 'G') && r.unit() < deadFraction) { d.wg = ":+:+:+:+"; d.key.clear(); }   // not addressable
        if (!d.key.empty()) {
            if (used.count(d.key)) continue;
            used.insert(d.key);
        }
        v.push_back(d);
    }
    // TIME stays first, everything else in random order (lookup keys are sorted by the readers, slots are not)
    for (size_t i = v.size() - 1; i > 1; --i) std::swap(v[i], v[1 + r.below(i)]);
    return v;
}

static std::array<int, 3> genDims(Rng& r, int nv) {
    if (r.chance(0.3)) return {20, 20, 12};
    std::array<int, 3> d{(int)r.range(1, 40), (int)r.range(1, 40), (int)r.range(1, 15)};
    while ((long)d[0] * d[1] * d[2] < nv) { d[r.below(3)] += (int)r.range(1, 9); }
    return d;
}

// fill step structure and data of a run that writes nrep report steps starting at firstReport
static void genSteps(Rng& r, RunDef& run, int nrep, int maxMini, double& t, int& ministepCounter, bool gaps) {
    for (int k = 0; k < nrep; ++k) {
        const int nm = (int)r.range(1, maxMini);
        for (int m = 0; m < nm; ++m) {
            if (gaps && r.chance(0.3)) ministepCounter += (int)r.range(1, 3);
            t += r.loguniform(0.01, 200.0);
            std::vector<float> p(run.vecs.size());
            p[0] = (float)t;
            for (size_t i = 1; i < p.size(); ++i) p[i] = genValue(r);
            run.reportOf.push_back(run.firstReport + k);
            run.ministep.push_back(ministepCounter++);
            run.data.push_back(std::move(p));
        }
    }
}

// ---------------------------------------------------------------------------------------------
// writing with the library's writers
// ---------------------------------------------------------------------------------------------
static void writeRun(const RunDef& run) {
    fs::create_directories(run.dir);
    OS::ResultSet rset{run.dir, run.name};
    const auto start = Opm::TimeService::from_time_t((std::time_t)epoch_seconds(run.start));
    OS::SummarySpecification spec(rset, OS::Formatted{run.fmt}, (OS::SummarySpecification::UnitConvention)run.uconv, run.dims,
                                  OS::SummarySpecification::RestartSpecification{run.rstRoot, run.rstStep}, start);
    OS::SummarySpecification::Parameters prm;
    for (const auto& v : run.vecs) prm.add(v.kw, v.wg, v.num, v.unit);
    spec.write(prm);
    std::unique_ptr<EclOutput> out;
    int prevReport = -1, rewrites = run.smspecRewrites;
    for (size_t s = 0; s < run.data.size(); ++s) {
        const int rs = run.reportOf[s];
        if (rs != prevReport) {
            if (rewrites > 0) { spec.write(prm); --rewrites; }          // out::Summary rewrites the SMSPEC at every report step
            if (!run.unif || !out) {
                if (out) out->flushStream();
                out = OS::createSummaryFile(rset, rs, OS::Formatted{run.fmt}, OS::Unified{run.unif});
            }
            out->write("SEQHDR", std::vector<int>{rs});
            prevReport = rs;
        }
        out->write("MINISTEP", std::vector<int>{run.ministep[s]});
        out->write("PARAMS", run.data[s]);
    }
    if (out) out->flushStream();
}

// ---------------------------------------------------------------------------------------------
// what must be read: a chain base ... -> run
// ---------------------------------------------------------------------------------------------
struct Chain {
    std::vector<const RunDef*> runs;                     // deepest base first, the run opened last
    std::vector<std::pair<int, int>> steps;              // (index into runs, ministep index in that run)
    std::vector<std::string> keys;                       // sorted union of lookup keys
    std::vector<std::string> topKeys;                    // sorted lookup keys of the run that is opened
    std::map<std::string, std::vector<int>> slot;        // key -> slot per run (-1: the run does not have it)
    std::vector<int> rstep;                              // indices into steps of the last ministep of every report step
    bool allStepsAvailable = true;
    const RunDef& top() const { return *runs.back(); }
};

static Chain makeChain(const std::vector<const RunDef*>& runs) {
    Chain c;
    c.runs = runs;
    for (size_t ri = 0; ri < runs.size(); ++ri) {
        const RunDef& run = *runs[ri];
        const int upTo = ri + 1 < runs.size() ? runs[ri + 1]->rstStep : INT32_MAX;
        for (size_t s = 0; s < run.data.size(); ++s)
            if (run.reportOf[s] <= upTo) c.steps.emplace_back((int)ri, (int)s);
        for (size_t i = 0; i < run.vecs.size(); ++i) {
            const auto& k = run.vecs[i].key;
            if (k.empty()) continue;
            auto& sl = c.slot[k];
            if (sl.empty()) sl.assign(runs.size(), -1);
            sl[ri] = (int)i;
        }
    }
    for (auto& kv : c.slot) { c.keys.push_back(kv.first); if (kv.second.back() >= 0) c.topKeys.push_back(kv.first); }
    for (size_t s = 0; s < c.steps.size(); ++s) {
        const bool last = s + 1 == c.steps.size();
        const auto rep = [&](size_t q) { return c.runs[c.steps[q].first]->reportOf[c.steps[q].second]; };
        if (last || rep(s + 1) != rep(s)) c.rstep.push_back((int)s);
        if (!last) {
            const auto ms = [&](size_t q) { return c.runs[c.steps[q].first]->ministep[c.steps[q].second]; };
            if (ms(s + 1) - ms(s) > 1) c.allStepsAvailable = false;
        }
    }
    return c;
}

// ---------------------------------------------------------------------------------------------
// the monitor
// ---------------------------------------------------------------------------------------------
struct Monitor {
    vh::Reporter& rep;
    std::string caseText;
    std::string ctx;      // context of the observation, part of every key: ":restart", ":layout-differs", ...
    bool ministepIdsKnown = true;
    bool slotOrderKnown = true;           // RunDef::vecs is in PARAMS order
    std::vector<std::string> available;   // sorted keys the reader at hand lists (set by checkStructure)
    std::vector<std::string> listed(const std::vector<std::string>& keys) const {
        std::vector<std::string> v;
        for (const auto& k : keys) if (std::binary_search(available.begin(), available.end(), k)) v.push_back(k);
        return v;
    }
    long mismatches = 0;

    std::string contextKey;   // non-empty: the case belongs to an input class in which every observation (other than those whose
                              // cause is identified by the observation itself) is attributed to this one key
    void viol(const std::string& key, const std::string& what, const std::string& detail, bool causeIdentified = false) {
        ++mismatches;
        const std::string k = (!contextKey.empty() && !causeIdentified) ? contextKey : key;
        rep.violation(k, what, caseText + "--- observation ---\n" + what + "\n" + detail + (k != key ? "(observation class: " + key + ")\n" : ""));
    }

    // series of one reader against the chain; `get` returns the vector for a key
    template <class Get>
    void series(const std::string& reader, const Chain& c, const std::vector<std::string>& keys, Get&& get, bool seekPath) {
        const std::string& sfx = ctx;
        long n = 0;
        bool partialLengthReported = false;
        for (const auto& key : keys) {
            const std::vector<float>& got = get(key);
            const auto& sl = c.slot.at(key);
            if (got.size() != c.steps.size()) {
                std::ostringstream o;
                o << reader << ": series " << key << " has " << got.size() << " entries, " << c.steps.size() << " ministeps were written";
                bool partial = false;
                for (int x : sl) if (x < 0) partial = true;
                if (!partial || !partialLengthReported) viol("series-length:" + reader + (partial ? ":vector-not-in-every-run" : "") + sfx, o.str(), "");
                if (!partial) return;
                partialLengthReported = true;   // a vector some run of the chain does not have: one witness, the other vectors are still compared
                continue;
            }
            for (size_t s = 0; s < c.steps.size(); ++s) {
                const RunDef& run = *c.runs[c.steps[s].first];
                const int slot = sl[c.steps[s].first];
                if (slot < 0) continue;   // the run that wrote this ministep has no such vector: nothing was written, nothing demanded
                const float written = run.data[c.steps[s].second][slot];
                const float exp = expectRead(run.fmt, written);
                ++n;
                if (run.fmt && written != 0.0f) rep.maxof("max_fmt_rel_dev", std::fabs((double)exp - (double)written) / std::fabs((double)written));
                if (sameValue(run.fmt, got[s], exp)) continue;
                std::ostringstream o;
                o.precision(9);
                o << reader << ": " << key << " (slot " << slot << " of " << run.vecs.size() << " in " << run.name << (run.fmt ? ", formatted" : ", unformatted")
                  << (run.unif ? ", unified" : ", separate") << ") ministep index " << s << ": read " << got[s] << ", written " << written;
                if (run.fmt) o << " (8-digit text reads as " << exp << ")";
                std::string key_;
                if (seekPath && run.fmt && explainedByTrailingDigits(got[s], written))
                    key_ = "formatted-loadData-vectList-overread";
                else
                    key_ = "series-value:" + reader + (run.fmt ? ":fmt" : ":bin") + sfx;
                std::ostringstream d;
                d << "vector: KEYWORDS='" << run.vecs[slot].kw << "' WGNAMES='" << run.vecs[slot].wg << "' NUMS=" << run.vecs[slot].num
                  << " field text written: '" << (run.fmt ? fieldText(written) : std::string("(binary)")) << "'\n";
                viol(key_, o.str(), d.str(), key_ == "formatted-loadData-vectList-overread");
                rep.count("values_compared", n);
                return;   // one witness per reader and case
            }
        }
        rep.count("values_compared", n);
        rep.count("series_compared:" + reader, (long)keys.size());
    }
};

static std::vector<std::string> pickKeys(Rng& r, const Chain& c, bool all) {
    if (all || c.keys.size() <= 8) { auto v = c.keys; r.shuffle(v); return v; }
    // slot positions around block boundaries and the ends are always taken, the rest at random
    const RunDef& top = c.top();
    std::set<std::string> sel{"TIME"};
    const int nv = (int)top.vecs.size();
    for (int base = 0; base <= nv; base += 1000)
        for (int d = -3; d <= 3; ++d) {
            const int s = base + d;
            if (s >= 0 && s < nv && !top.vecs[s].key.empty()) sel.insert(top.vecs[s].key);
        }
    const size_t extra = 4 + r.below(60);
    for (size_t i = 0; i < extra; ++i) sel.insert(c.keys[r.below(c.keys.size())]);
    std::vector<std::string> v(sel.begin(), sel.end());
    r.shuffle(v);
    return v;
}

static Opm::time_point tp_of(int64_t epochSec) { return Opm::TimeService::from_time_t((std::time_t)epochSec); }

// number of ministeps and the set of lookup keys; R is ESmry or ExtESmry
template <class R>
static bool checkStructure(Monitor& m, const std::string& reader, R& e, const Chain& c) {
    const std::string& sfx = m.ctx;
    m.rep.count("frame_checks:" + reader);
    if ((size_t)e.numberOfTimeSteps() != c.steps.size()) {
        std::ostringstream o;
        o << reader << ": numberOfTimeSteps() = " << e.numberOfTimeSteps() << ", ministeps to be seen: " << c.steps.size();
        m.viol("nsteps:" + reader + sfx, o.str(), "");
        return false;   // everything else would only repeat this
    }
    std::vector<std::string> got = e.keywordList();
    std::sort(got.begin(), got.end());
    // Every vector of the run that is opened must be there and nothing that no run of the chain wrote.  Whether vectors that
    // only a base run has are listed is left to the reader (ESmry lists them, ExtESmry does not): nothing is demanded of them.
    std::vector<std::string> missing, extra;
    std::set_difference(c.topKeys.begin(), c.topKeys.end(), got.begin(), got.end(), std::back_inserter(missing));
    std::set_difference(got.begin(), got.end(), c.keys.begin(), c.keys.end(), std::back_inserter(extra));
    if (!missing.empty() || !extra.empty()) {
        std::ostringstream o;
        o << reader << ": key list differs from the vectors written: " << missing.size() << " missing, " << extra.size() << " unexpected;";
        for (size_t i = 0; i < missing.size() && i < 4; ++i) o << " missing '" << missing[i] << "'";
        for (size_t i = 0; i < extra.size() && i < 4; ++i) o << " unexpected '" << extra[i] << "'";
        m.viol("keys:" + reader + sfx, o.str(), "");
        return false;
    }
    if ((size_t)e.numberOfVectors() != got.size())
        m.viol("nvectors:" + reader + sfx, reader + ": numberOfVectors() = " + std::to_string(e.numberOfVectors()) + " but keywordList() has " + std::to_string(got.size()) + " entries", "");
    m.available.assign(got.begin(), got.end());
    return true;
}

// units, start date, report step positions, time axis; R is ESmry or ExtESmry
template <class R>
static bool checkFrame(Monitor& m, const std::string& reader, R& e, const Chain& c, bool structureDone = false) {
    const std::string& sfx = m.ctx;
    const RunDef& top = c.top();
    if (!structureDone && !checkStructure(m, reader, e, c)) return false;
    for (const auto& k : m.available) {
        const auto& sl = c.slot.at(k);
        // unit as written by the run that is opened (base runs carry the same unit when they have the vector)
        const int slot = sl.back();
        if (slot < 0) continue;
        const std::string& u = e.get_unit(k);
        if (u != top.vecs[slot].unit) {
            m.viol("units:" + reader + (k == "YEARS" ? ":YEARS" : sfx), reader + ": unit of " + k + " read as '" + u + "', written '" + top.vecs[slot].unit + "'", "", k == "YEARS");
            break;
        }
    }
    m.rep.count("units_compared", (long)c.keys.size());
    {
        const int64_t es = epoch_seconds(top.start);
        const auto want = tp_of(es);
        if (e.startdate() != want) {
            const auto got = Opm::TimeService::to_time_t(e.startdate());
            std::ostringstream o;
            o << reader << ": startdate() is " << (long long)got << " s since epoch, written " << (long long)es << " (" << top.start.y << "-" << top.start.m << "-"
              << top.start.d << " " << top.start.hh << ":" << top.start.mi << ":" << top.start.ss << ")";
            const bool onlySeconds = (long long)got == (long long)(es - top.start.ss);
            m.viol("startdate:" + reader + (onlySeconds ? ":seconds-dropped" : sfx), o.str(), "", onlySeconds);
        }
    }
    // report step positions: value at the last ministep of every report step
    {
        // a vector that every run of the chain has (series of other vectors are judged in series())
        std::string k = "TIME";
        for (size_t q = c.keys.size() / 2; q < c.keys.size(); ++q) {
            const auto& sl = c.slot.at(c.keys[q]);
            if (std::all_of(sl.begin(), sl.end(), [](int x) { return x >= 0; })) { k = c.keys[q]; break; }
        }
        const auto full = e.get(k);   // copy: ExtESmry::get returns a reference into a container that may grow
        const auto at = e.get_at_rstep(k);
        bool ok = at.size() == c.rstep.size() && full.size() == c.steps.size();
        for (size_t i = 0; ok && i < at.size(); ++i) ok = vh::bits(at[i]) == vh::bits(full[c.rstep[i]]) || (std::isnan(at[i]) && std::isnan(full[c.rstep[i]]));
        if (!ok) {
            std::ostringstream o;
            o << reader << ": get_at_rstep(" << k << ") returns " << at.size() << " values, " << c.rstep.size() << " report steps were written (or values not those of the last ministep of each report step)";
            m.viol("rstep-positions:" + reader + sfx, o.str(), "");
        }
        m.rep.count("rstep_positions_compared", (long)c.rstep.size());
    }
    // time axis
    {
        const auto d = e.dates();
        bool ok = d.size() == c.steps.size();
        size_t bad = 0;
        int64_t wantSec = 0, gotSec = 0, baseSec = 0;
        double tBad = 0;
        for (size_t s = 0; ok && s < d.size(); ++s) {
            const RunDef& run = *c.runs[c.steps[s].first];
            const float t = expectRead(run.fmt, run.data[c.steps[s].second][0]);
            // start + TIME days; the readers keep whole seconds -> one second of slack, nothing finer is demanded.  The readers take
            // the start second from their own startdate(): a start-date defect is reported there, not a second time here.
            const double sec = (double)t * run.timeUnitSeconds;
            const int64_t base = std::chrono::duration_cast<std::chrono::seconds>(e.startdate().time_since_epoch()).count();
            baseSec = base;
            tBad = (double)t;
            wantSec = base + (int64_t)sec;
            gotSec = std::chrono::duration_cast<std::chrono::seconds>(d[s].time_since_epoch()).count();
            if (std::llabs(wantSec - gotSec) > 1) { ok = false; bad = s; }
        }
        if (!ok) {
            std::ostringstream o;
            o << reader << ": dates() has " << d.size() << " entries for " << c.steps.size() << " ministeps, or entry " << bad << " is " << gotSec << " s since epoch where start + TIME ("
              << (top.timeUnitSeconds == 86400.0 ? "days" : "hours") << ") gives " << wantSec;
            // a reader that takes TIME for days although the run wrote hours (LAB convention) is one defect whatever the chain looks like
            const bool asDays = top.timeUnitSeconds != 86400.0 && d.size() == c.steps.size() && std::llabs(gotSec - (baseSec + (int64_t)(tBad * 86400.0))) <= 1;
            m.viol(asDays ? "dates-take-hours-for-days:" + reader.substr(0, reader.find_first_of(".(")) : "dates:" + reader + sfx, o.str(), "", asDays);
        }
        m.rep.count("dates_compared", (long)d.size());
    }
    return true;
}

static void checkESmryOnly(Monitor& m, const std::string& reader, ESmry& e, const Chain& c) {
    const std::string& sfx = m.ctx;
    const RunDef& top = c.top();
    const std::vector<int> sv = e.start_v();
    const std::vector<int> want{top.start.d, top.start.m, top.start.y, top.start.hh, top.start.mi, top.start.ss * 1000000};
    if (sv != want) {
        std::ostringstream o;
        o << reader << ": start_v() =";
        for (int x : sv) o << " " << x;
        o << ", written";
        for (int x : want) o << " " << x;
        m.viol("start_v:" + reader, o.str(), "");
    }
    for (size_t r = 1; r <= c.rstep.size(); ++r) {
        const int got = e.timestepIdxAtReportstepStart((int)r);
        if (got != c.rstep[r - 1]) {
            std::ostringstream o;
            o << reader << ": timestepIdxAtReportstepStart(" << r << ") = " << got << ", the last ministep written for that report step has index " << c.rstep[r - 1];
            m.viol("rstep-index:" + reader + sfx, o.str(), "");
            break;
        }
    }
    {
        const auto dr = e.dates_at_rstep();
        const auto d = e.dates();
        bool ok = dr.size() == c.rstep.size();
        for (size_t i = 0; ok && i < dr.size(); ++i) ok = dr[i] == d[c.rstep[i]];
        if (!ok) m.viol("rstep-dates:" + reader + sfx, reader + ": dates_at_rstep() is not dates() at the last ministep of every report step", "");
    }
    {
        bool threw = false;
        try { e.timestepIdxAtReportstepStart((int)c.rstep.size() + 1); } catch (const std::invalid_argument&) { threw = true; }
        if (!threw) m.viol("rstep-index-range:" + reader + sfx, reader + ": report step " + std::to_string(c.rstep.size() + 1) + " accepted although only " + std::to_string(c.rstep.size()) + " were written", "");
    }
    // lookup through SummaryNode (keyword, category, name, number) must lead to the same series as the lookup key
    if (m.slotOrderKnown && c.runs.size() == 1) {
        const auto& nodes = e.summaryNodeList();
        std::vector<const VecDef*> live;
        for (const auto& v : top.vecs) if (!v.key.empty()) live.push_back(&v);
        if (nodes.size() != live.size())
            m.viol("summary-nodes:" + reader + sfx, reader + ": summaryNodeList() has " + std::to_string(nodes.size()) + " entries for " + std::to_string(live.size()) + " addressable vectors", "");
        else {
            const size_t stride = std::max<size_t>(1, nodes.size() / 150);
            for (size_t j = 0; j < nodes.size(); j += stride) {
                std::string why;
                try {
                    if (&e.get(nodes[j]) != &e.get(live[j]->key)) why = "leads to another series than";
                    else if (e.get_unit(nodes[j]) != live[j]->unit) why = "has another unit than";
                } catch (const std::exception& ex) { why = std::string("is refused (") + ex.what() + ") unlike"; }
                m.rep.count("node_lookups");
                if (!why.empty()) {
                    m.viol("node-lookup:" + reader + sfx, reader + ": lookup by SummaryNode for KEYWORDS='" + live[j]->kw + "' WGNAMES='" + live[j]->wg + "' NUMS=" + std::to_string(live[j]->num) + " " + why + " key " + live[j]->key, "");
                    break;
                }
            }
        }
    }
    const bool av = e.all_steps_available();
    if (m.ministepIdsKnown && av != c.allStepsAvailable)
        m.viol("ministep-ids:" + reader + sfx, reader + ": all_steps_available() = " + std::to_string(av) + " but the MINISTEP ids written " + (c.allStepsAvailable ? "are consecutive" : "have gaps"), "");
}

// ---------------------------------------------------------------------------------------------
// reading a written chain back through every reader
// ---------------------------------------------------------------------------------------------
struct ExamineOpts {
    int layoutClass = 0;          // vector layout of the runs of a chain: 0 same, 1 permuted, 2 vectors added/removed
    bool tailName = false;        // a base run's separate files can be mistaken for the opened run's (name is a tail of the other)
    bool allKeys = true;          // direct-seek lists hold every vector / a random subset around the block boundaries
    bool skipFmtSeek = false, noFork = false;
    bool directEsmry = false;     // the writer itself produced <run>.ESMRY for every run: read those instead of converting
    bool ministepIdsKnown = true; // MINISTEP ids in RunDef are what was written (false: chosen by the writer, not compared)
    bool slotOrderKnown = true;   // RunDef::vecs is in PARAMS order (false: order chosen by the writer)
};

// returns true when every reader path ran to its end
static bool examine(vh::Reporter& rep, Rng& rng, Monitor& m, const std::vector<const RunDef*>& all, const ExamineOpts& o) {
    const int depth = (int)all.size() - 1;
    m.ministepIdsKnown = o.ministepIdsKnown;
    m.slotOrderKnown = o.slotOrderKnown;
    const Chain own = makeChain({all.back()});
    const Chain full = makeChain(all);
    const RunDef& top = *all.back();
    const auto ctxOf = [&](bool withBase) {
        std::string c;
        if (withBase) c = std::string(":restart") + (o.layoutClass == 1 ? ":layout-permuted" : o.layoutClass == 2 ? ":layout-differs" : "");
        return c;
    };
    // separate files "<X>CASE.S0001" of another run next to those of the run "CASE" that is opened: one input class, one key
    // (the library defect this key named - substring match in ESmry::checkForMultipleResultFiles - is repaired, /repo 44fdbe039;
    //  with `collapse_tailname=1` every observation of such a case is filed under the one key again, as when the defect was live)
    m.contextKey = (o.tailName && g_collapseTailName) ? "separate-files-of-other-run-picked-up" : "";
    // whether a reader failed while it was being constructed or later, also when it dies in a child process
    static int* const phase = (int*)mmap(nullptr, sizeof(int), PROT_READ | PROT_WRITE, MAP_SHARED | MAP_ANONYMOUS, -1, 0);
    const auto opened = [&] { *phase = 1; };
    int sectionsDone = 0;
    const auto section = [&](const std::string& what, bool withBase, auto&& body, const std::string& ctx = std::string()) {
        m.ctx = ctx.empty() ? ctxOf(withBase) : ctx;
        *phase = 0;
        const auto where = [&] { return *phase == 0 ? what.substr(0, what.find_first_of(".(")) + "(open)" : what; };
        const auto guarded = [&] {
            try {
                body();
                return true;
            } catch (const std::exception& ex) {
                const std::string msg = ex.what();
                m.viol("reader-exception:" + where() + m.ctx, where() + " refused files written by the library's writers: " + msg.substr(0, 300), "");
                return false;
            }
        };
        // Opening a run together with base runs whose vector layout differs is known to index out of bounds in the ESmry
        // constructor, and so does ExtESmry for a nested chain: such sections run in a child process so that the death of
        // the reader is an observation with a stable key and the remaining sections and cases are still examined.  The same
        // holds when files of another run are mistaken for those of the run that is opened (other PARAMS length).
        const bool isolate = ((withBase && (o.layoutClass != 0 || depth > 1)) || o.tailName) && !o.noFork;
        if (!isolate) {
            if (guarded()) ++sectionsDone;
            return;
        }
        fflush(stdout);
        fflush(stderr);
        const pid_t pid = fork();
        if (pid == 0) {
            const long before = rep.violations;
            const bool ok = guarded();
            fflush(stdout);
            _exit((int)std::min(100L, rep.violations - before) + (ok ? 0 : 128));
        }
        int status = 0;
        if (pid < 0 || waitpid(pid, &status, 0) < 0) { if (guarded()) ++sectionsDone; return; }
        if (WIFSIGNALED(status)) {
            m.viol("reader-crash:" + where() + m.ctx, where() + " died with signal " + std::to_string(WTERMSIG(status)) + " (" + strsignal(WTERMSIG(status)) + ") on files written by the library's writers", "");
        } else {
            const int code = WEXITSTATUS(status);
            rep.violations += code & 127;   // witnesses were written by the child under these numbers
            m.mismatches += code & 127;
            if (!(code & 128)) ++sectionsDone;
            rep.count("sections_run_in_child_process");
        }
    };
    // ---- (1) whole-file loading ----------------------------------------------------------
    for (int pass = 0; pass < (depth > 0 ? 2 : 1); ++pass) {
        const bool withBase = depth > 0 && pass == 0;
        const Chain& c = withBase ? full : own;
        const std::string reader = "ESmry.loadData()";
        rep.cover("reader", reader + (withBase ? "+base" : ""));
        section(reader, withBase, [&] {
            ESmry e(top.smspecPath(), withBase);
            opened();
            e.loadData();
            if (!checkFrame(m, reader, e, c)) return;
            checkESmryOnly(m, reader, e, c);
            m.series(reader, c, m.listed(c.keys), [&](const std::string& k) -> const std::vector<float>& { return e.get(k); }, false);
        });
    }
    // ---- (2) conversion to ESMRY (or the ESMRY file the writer produced itself) and the ESMRY reader ---------------
    {
        const std::string reader = o.directEsmry ? "ExtESmry(written)" : "ExtESmry(converted)";
        const std::string esmry = top.dir + "/" + top.name + ".ESMRY";
        bool converted = o.directEsmry;
        if (o.directEsmry) ++sectionsDone;
        else section("make_esmry_file", false, [&] {
            opened();
            for (auto* r : all) {
                ESmry e(r->smspecPath(), false);
                if (!e.make_esmry_file()) m.viol("make_esmry_file-refused" + m.ctx, "make_esmry_file() returned false although no ESMRY file existed for " + r->name, "");
            }
            converted = true;
        });
        rep.cover("reader", reader);
        if (converted) section(reader, false, [&] {
            ExtESmry x(esmry, false);
            opened();
            const unsigned how = (unsigned)rng.below(7);
            auto sel = pickKeys(rng, own, o.allKeys);
            static const char* HOW[] = {"loadData()", "loadData(list)", "lazy get()", "two overlapping lists", "dates() or get() then loadData(list)", "list naming a key twice", "get() then loadData()"};
            if (how == 0) x.loadData();
            else if (how == 1) x.loadData(sel);
            else if (how == 3) {
                std::vector<std::string> a(sel.begin(), sel.begin() + sel.size() / 2), b(sel.begin() + sel.size() / 3, sel.end());
                x.loadData(a);
                x.loadData(b);
            } else if (how == 4) {
                // something is loaded first and a bulk load then names it again ahead of other keys
                if (rng.chance(0.5)) (void)x.dates(); else (void)x.get(sel[rng.below(sel.size())]);
                x.loadData(sel);
            } else if (how == 5) {
                auto twice = sel;
                for (int d = 1 + (int)rng.below(3); d > 0; --d) twice.insert(twice.begin() + rng.below(twice.size() + 1), sel[rng.below(sel.size())]);
                x.loadData(twice);
            } else if (how == 6) {
                (void)x.get(sel[rng.below(sel.size())]);
                x.loadData();
            }
            rep.cover("ExtESmry_load", HOW[how]);
            if (!checkFrame(m, reader, x, own)) return;
            if (m.ministepIdsKnown && x.all_steps_available() != own.allStepsAvailable)
                m.viol("ministep-ids:" + reader + m.ctx, reader + ": all_steps_available() = " + std::to_string(!own.allStepsAvailable) + " but the MINISTEP ids written " + (own.allStepsAvailable ? "are consecutive" : "have gaps"), "");
            m.series(reader, own, (how == 0 || how == 6) ? own.keys : sel, [&](const std::string& k) -> const std::vector<float>& { return x.get(k); }, false);
            // the file itself: RSTEP flags and TSTEP ids
            EclFile f(esmry);
            f.loadData();
            const auto rs = f.get<int>("RSTEP");
            const auto ts = f.get<int>("TSTEP");
            std::vector<int> wantR(own.steps.size(), 0), wantT;
            for (int i : own.rstep) wantR[i] = 1;
            for (auto& s : own.steps) wantT.push_back(top.ministep[s.second]);
            if (rs != wantR) m.viol("esmry-RSTEP" + m.ctx, "ESMRY file: RSTEP flags are not 1 exactly at the last ministep of every report step", "");
            if (m.ministepIdsKnown && ts != wantT) m.viol("esmry-TSTEP" + m.ctx, "ESMRY file: TSTEP does not hold the MINISTEP ids written", "");
        });
        if (converted && depth > 0) {
            rep.cover("reader", reader + "+base");
            // what ExtESmry makes of a chain of three is one question, whatever the layouts
            section(reader, true, [&] {
                ExtESmry x(esmry, true);
                opened();
                if (!o.directEsmry && (size_t)x.numberOfTimeSteps() == own.steps.size() && own.steps.size() != full.steps.size()) {
                    m.viol("esmry-conversion-drops-restart-link",
                           "ExtESmry(loadBaseRunData=true) on ESMRY files converted from a restarted run and from its base run sees only the run's own " + std::to_string(own.steps.size()) +
                               " ministeps, not the " + std::to_string(full.steps.size()) + " of base history + own steps (the converted file carries no RESTART/RSTNUM record)", "", true);
                } else {
                    x.loadData();
                    if (checkFrame(m, reader, x, full)) m.series(reader, full, m.listed(full.keys), [&](const std::string& k) -> const std::vector<float>& { return x.get(k); }, false);
                }
            }, depth > 1 ? ":restart:nested" : "");
        }
    }
    // ---- (3) direct seek per element: loadData(list) and lazy get(); last, because the formatted branch is the one
    //          known to read past its buffer (a sanitizer build dies here) -------------------------------------------
    for (int pass = 0; pass < (depth > 0 ? 2 : 1); ++pass) {
        const bool withBase = depth > 0 && pass == 0;
        const Chain& c = withBase ? full : own;
        bool anyFormatted = false;
        for (auto* r : c.runs) if (r->fmt) anyFormatted = true;
        if (anyFormatted && o.skipFmtSeek) { rep.count("skipped_formatted_seek"); ++sectionsDone; continue; }
        const std::string reader = "ESmry.loadData(list)";
        rep.cover("reader", reader + (withBase ? "+base" : ""));
        section(reader, withBase, [&] {
            ESmry e(top.smspecPath(), withBase);
            opened();
            const auto sel = pickKeys(rng, c, o.allKeys);
            const unsigned how = (unsigned)rng.below(5);
            rep.cover("ESmry_seek", how == 0 ? "one list" : how == 1 ? "two lists" : how == 2 ? "lazy get()" : how == 3 ? "list then loadData()" : "list naming a key twice");
            if (how == 0 || how == 3) e.loadData(sel);
            else if (how == 4) {
                auto twice = sel;
                for (int d = 1 + (int)rng.below(3); d > 0; --d) twice.insert(twice.begin() + rng.below(twice.size() + 1), sel[rng.below(sel.size())]);
                e.loadData(twice);
            }
            else if (how == 1) {
                std::vector<std::string> a(sel.begin(), sel.begin() + sel.size() / 2), b(sel.begin() + sel.size() / 3, sel.end());   // overlapping
                e.loadData(a);
                e.loadData(b);
            }
            if (how == 3) e.loadData();   // vectors already loaded must not be loaded a second time
            if (!checkStructure(m, reader, e, c)) return;
            const long before = m.mismatches;
            m.series(reader, c, m.listed(how == 3 ? c.keys : sel), [&](const std::string& k) -> const std::vector<float>& { return e.get(k); }, true);
            // TIME is part of every list: once it has compared equal, dates() cannot meet the over-read any more
            if (m.mismatches == before) checkFrame(m, reader, e, c, true);
        });
    }
    return sectionsDone == (depth > 0 ? 7 : 4);
}

// ---------------------------------------------------------------------------------------------
// case construction
// ---------------------------------------------------------------------------------------------
static std::vector<int> boundaryCounts() {
    std::vector<int> c;
    for (int base : {0, 1000, 2000, 3000, 4000}) for (int d = -3; d <= 3; ++d) if (base + d >= 2) c.push_back(base + d);
    for (int k : {1, 2, 3, 10, 20, 40}) for (int d = -1; d <= 1; ++d) c.push_back(105 * k + d);   // CHAR records of the SMSPEC: 105 strings
    for (int v : {7, 8, 13, 14, 17, 4497, 4498, 4499, 4500}) c.push_back(v);
    std::sort(c.begin(), c.end());
    c.erase(std::unique(c.begin(), c.end()), c.end());
    return c;
}

static std::string padDirTo(const std::string& dir, size_t totalLen, const std::string& leaf) {
    // extend `dir` by one directory level so that (dir + "/" + sub + "/" + leaf) has exactly totalLen characters, if possible
    const size_t fixed = dir.size() + 1 + 1 + leaf.size();
    if (totalLen <= fixed) return dir;
    return dir + "/" + std::string(totalLen - fixed, 'd');
}

#ifndef C10_NO_MAIN
int main(int argc, char** argv) {
    vh::Args args = vh::parse_args(argc, argv);
    vh::Reporter rep(args, "C10");
    g_collapseTailName = args.geti("collapse_tailname", 0) != 0;
    const std::string scratch = fs::absolute(vh::scratch_dir(args)).string();
    const std::vector<int> counts = boundaryCounts();
    const long nEnum = (long)counts.size() * 4;
    const int maxNv = (int)args.geti("max_nv", 4500);
    const bool skipFmtSeek = args.geti("skip_fmt_seek", 0) != 0;   // own runs only: look beyond the known over-read
    const bool noFork = args.geti("no_fork", 0) != 0;

    rep.run_cases([&](long idx, Rng& rng) {
        const std::string cdir = scratch + "/c" + std::to_string(idx);
        fs::remove_all(cdir);
        fs::create_directories(cdir);

        // ---- configuration -------------------------------------------------------------------
        int nv;
        bool fmt, unif;
        int depth = 0;   // number of base runs
        if (idx < nEnum) {
            nv = counts[idx / 4];
            fmt = (idx & 1) != 0;
            unif = (idx & 2) == 0;
        } else {
            const unsigned c = (unsigned)rng.below(100);
            if (c < 30) nv = (int)rng.range(2, 40);
            else if (c < 55) nv = (int)(1000 * rng.range(1, 4) + rng.range(-3, 3));
            else if (c < 65) nv = (int)(105 * rng.range(1, 42) + rng.range(-1, 1));
            else if (c < 85) nv = (int)rng.range(2, 1200);
            else nv = (int)rng.range(2, 4500);
            fmt = rng.chance(0.5);
            unif = rng.chance(0.5);
            const unsigned rc = (unsigned)rng.below(100);
            depth = rc < 60 ? 0 : (rc < 88 ? 1 : 2);
        }
        nv = std::max(2, std::min(nv, maxNv));
        const std::array<int, 3> dims = genDims(rng, nv);
        StartDate sd{(int)rng.range(1970, 2060), (int)rng.range(1, 12), (int)rng.range(1, 28), 0, 0, 0};
        if (rng.chance(0.4)) { sd.hh = (int)rng.range(0, 23); sd.mi = (int)rng.range(0, 59); }
        const bool withSeconds = rng.chance(0.25);
        if (withSeconds) sd.ss = (int)rng.range(1, 59);
        const int uconv = (int)rng.range(1, 4);
        const bool gaps = rng.chance(0.15);
        const double dead = rng.chance(0.3) ? 0.05 : 0.0;

        // names: a name that is the tail of another run's name in the same directory is a legal, realistic choice
        static const char* NAMES[][3] = {{"BASE", "MID", "CASE"}, {"RUN_A", "RUN_B", "RUN_C"}, {"HIST", "PRED", "PRED2"}, {"M1", "M1_RST", "M1_RST2"}, {"A_CASE", "B_CASE", "CASE"}};
        const size_t nameSet = rng.below(5);
        const auto& names = NAMES[nameSet];
        // where the runs live and how each names its base: 0 bare name (same directory), 1 relative path, 2 absolute path,
        // 3 absolute path of a chosen length 66..132 (9 or 17 eight-character words in RESTART)
        std::vector<std::string> dirs(depth + 1), roots(depth + 1), runNames(depth + 1);
        std::vector<int> style(depth + 1, 0);
        for (int level = 0; level <= depth; ++level) runNames[level] = level == depth ? names[2] : names[level];
        for (int level = 1; level <= depth; ++level) {
            const unsigned pc = (unsigned)rng.below(100);
            style[level] = pc < 40 ? 0 : pc < 55 ? 1 : pc < 70 ? 2 : 3;
        }
        for (int level = 1; level < depth; ++level) if (style[level + 1] == 3 && style[level] < 2) style[level] = 2;   // its directory gets re-homed
        for (int level = 0; level <= depth; ++level) {
            if (level == 0) dirs[0] = cdir;
            else if (style[level] == 0) dirs[level] = dirs[level - 1];
            else if (style[level] == 1) dirs[level] = dirs[level - 1] + "/sub" + std::to_string(level);
            else dirs[level] = cdir + "/elsewhere" + std::to_string(level);
            if (level < depth && style[level + 1] == 3) dirs[level] = padDirTo(dirs[level], (size_t)rng.range(66, 132), runNames[level]);
            if (level > 0) {
                roots[level] = style[level] == 0 ? runNames[level - 1] : style[level] == 1 ? "../" + runNames[level - 1] : dirs[level - 1] + "/" + runNames[level - 1];
                if (roots[level].size() > 132) { roots[level] = runNames[level - 1]; dirs[level] = dirs[level - 1]; style[level] = 0; }   // longer roots are truncated by the writer: outside the domain
            }
        }

        std::vector<std::unique_ptr<RunDef>> runs;   // deepest base first
        double t = 0.0;
        int ministepCounter = 0;
        int layoutClass = 0;
        int prevLast = 0;
        std::set<std::string> everUsed;
        for (int level = 0; level <= depth; ++level) {
            auto run = std::make_unique<RunDef>();
            const bool isTop = level == depth;
            run->name = runNames[level];
            run->dir = dirs[level];
            run->rstRoot = roots[level];
            run->fmt = fmt;
            run->unif = unif;
            // base runs may use another output convention than the run that continues them
            if (!isTop && rng.chance(0.3)) run->fmt = !fmt;
            if (!isTop && rng.chance(0.3)) run->unif = !unif;
            run->uconv = uconv;
            run->dims = dims;
            run->start = sd;
            run->smspecRewrites = rng.chance(0.5) ? 99 : 0;
            if (level == 0) run->vecs = genVectors(rng, nv, dims, dead);
            else {
                const RunDef& prev = *runs.back();
                run->vecs = prev.vecs;
                const unsigned lc = (unsigned)rng.below(100);
                if (lc < 50) { /* identical vector layout */ }
                else if (lc < 75) {   // same vectors, other slots
                    layoutClass = std::max(layoutClass, 1);
                    for (size_t i = run->vecs.size() - 1; i > 1; --i) std::swap(run->vecs[i], run->vecs[1 + rng.below(i)]);
                } else {              // vectors added and removed
                    layoutClass = 2;
                    auto fresh = genVectors(rng, (int)run->vecs.size() + 8, dims, dead);
                    const size_t nrem = rng.below(4);
                    for (size_t q = 0; q < nrem && run->vecs.size() > 2; ++q) run->vecs.erase(run->vecs.begin() + 1 + rng.below(run->vecs.size() - 1));
                    const size_t nadd = 1 + rng.below(5);
                    size_t added = 0;
                    for (auto& v : fresh) {
                        if (added >= nadd) break;
                        if (v.key.empty() || everUsed.count(v.key)) continue;
                        run->vecs.insert(run->vecs.begin() + 1 + rng.below(run->vecs.size()), v);
                        everUsed.insert(v.key);
                        ++added;
                    }
                }
            }
            for (auto& v : run->vecs) everUsed.insert(v.key);
            const int nrep = (int)rng.range(1, 6);
            if (level > 0) {
                // continue from report step rst of the previous run, at its time and ministep id
                const RunDef& prev = *runs.back();
                const int rst = (int)rng.range(prev.firstReport, prevLast);
                run->rstStep = rst;
                run->firstReport = rst + 1;
                for (size_t s = 0; s < prev.data.size(); ++s)
                    if (prev.reportOf[s] <= rst) { t = prev.data[s][0]; ministepCounter = prev.ministep[s] + 1; }
            }
            genSteps(rng, *run, nrep, 4, t, ministepCounter, gaps);
            prevLast = run->firstReport + nrep - 1;
            runs.push_back(std::move(run));
        }
        for (auto& r : runs) writeRun(*r);

        std::vector<const RunDef*> all;
        for (auto& r : runs) all.push_back(r.get());
        const Chain own = makeChain({all.back()});
        const Chain full = makeChain(all);
        const RunDef& top = *all.back();

        Monitor m{rep, ""};
        {
            std::ostringstream o;
            o << "case " << idx << ": " << (depth == 0 ? "single run" : depth == 1 ? "run continuing a base run" : "run continuing a run that continues a base run")
              << ", vector layout class " << layoutClass << " (0 same, 1 permuted, 2 added/removed)\n";
            for (auto* r : all) o << r->describe();
            m.caseText = o.str();
        }
        if (idx < 2 || (depth > 0 && idx < nEnum + 40)) rep.sample(m.caseText, 3, 1200);
        rep.journal_note(m.caseText);

        // ---- coverage --------------------------------------------------------------------------
        rep.cover("output", std::string(top.fmt ? "formatted" : "unformatted") + (top.unif ? "+unified" : "+separate"));
        rep.cover("nvec_class", nv < 10 ? "2-9" : nv < 105 ? "10-104" : nv < 997 ? "105-996" : nv <= 1003 ? "997-1003" : nv < 1997 ? "1004-1996" : nv <= 2003 ? "1997-2003"
                                : nv < 2997 ? "2004-2996" : nv <= 3003 ? "2997-3003" : nv < 3997 ? "3004-3996" : nv <= 4003 ? "3997-4003" : "4004-4500");
        rep.cover("chain", depth == 0 ? "single" : depth == 1 ? "base+run" : "base+base+run");
        if (depth > 0) {
            rep.cover("restart_layout", layoutClass == 0 ? "same" : layoutClass == 1 ? "permuted" : "added/removed");
            rep.cover("restart_root", top.rstRoot[0] == '/' ? (top.rstRoot.size() > 72 ? "absolute>72" : "absolute<=72") : top.rstRoot.rfind("../", 0) == 0 ? "relative-path" : "name");
            bool mixed = false;
            for (auto* r : all) if (r->fmt != top.fmt || r->unif != top.unif) mixed = true;
            rep.cover("restart_conventions", mixed ? "base differs in FMT/UNIF" : "same");
        }
        rep.cover("report_steps", std::to_string(full.rstep.size() > 9 ? 10 : full.rstep.size()) + (full.rstep.size() > 9 ? "+" : ""));
        rep.cover("ministep_ids", gaps ? "with gaps" : "consecutive");
        rep.cover("start_date", withSeconds ? "with seconds" : (sd.hh || sd.mi) ? "with time of day" : "midnight");
        rep.cover("unit_convention", std::to_string(uconv));
        rep.maxof("max_vectors", (double)nv);
        rep.maxof("max_ministeps_in_chain", (double)full.steps.size());
        uint64_t h = vh::fnv(m.caseText);
        for (auto* r : all) for (auto& p : r->data) h = vh::fnv(p.data(), p.size() * 4, h);
        const bool allKeys = idx < nEnum || rng.chance(0.5);
        // a run whose separate files "<X>CASE.S0001" live next to those of the run "CASE" that is opened
        bool tailName = false;
        if (nameSet == 4) for (int level = 0; level < depth; ++level) if (dirs[level] == dirs[depth] && !all[level]->unif && all[level]->fmt == top.fmt) tailName = true;
        if (tailName) rep.cover("restart_names", "base name ends in the run's name, same directory, separate files");
        ExamineOpts opts;
        opts.layoutClass = layoutClass;
        opts.tailName = tailName;
        opts.allKeys = allKeys;
        opts.skipFmtSeek = skipFmtSeek;
        opts.noFork = noFork;
        const bool finished = examine(rep, rng, m, all, opts);
        rep.case_done(h, finished && full.steps.size() >= 2);
        std::error_code ec;
        fs::remove_all(cdir, ec);
    });
    rep.finish();
    return 0;
}
#endif
