// C05 — a restarted run continues from the same dynamic state and the same schedule.
//
// Relational monitor.  One case = one generated model (G-DECK: grid with inactive cells, several wells and groups, MSW,
// UDQ, ACTIONX, network in stated fractions) in one unit system (METRIC / FIELD / LAB / PVT-M).  The harness plays the
// simulator: for every report step n = 1..N it builds a random, schedule-consistent dynamic state from
// sched.getWells(n-1) (Flow's convention: the restart file of report step n describes schedule state n-1), runs the real
// out::Summary::eval, UDQConfig::eval and Action::State::add_run, and writes the restart file with RestartIO::save in
// several of the eight file flavours (FMTOUT x UNIFOUT x write_double).
//
//  part 1 (dynamic state)  RestartIO::load + Action::State::load_rst + UDQState::load_rst on that file; every quantity
//          the loader restores is compared with what was handed to save.
//  part 2 (schedule)       RstState::load + Schedule(deck + RESTART [+ SKIPREST], ..., &rst); the restarted schedule is
//          compared with the original one at step n and every later step with an own field-wise, float tolerant
//          comparison through public getters (upstream Schedule::cmp throws on unequal UDAValue and compares reals
//          exactly although they travel through REAL arrays).
//
// Every exclusion from the compared field list is marked "EXCLUDED:" below together with its reason and is repeated in
// vp/props.d/C05.py (not_decided).
#include <config.h>
#include <opm/input/eclipse/Parser/Parser.hpp>
#include <opm/input/eclipse/Deck/Deck.hpp>
#include <opm/input/eclipse/Deck/DeckKeyword.hpp>
#include <opm/input/eclipse/Deck/DeckRecord.hpp>
#include <opm/input/eclipse/Deck/DeckItem.hpp>
#include <opm/input/eclipse/Deck/UDAValue.hpp>
#include <opm/input/eclipse/EclipseState/EclipseState.hpp>
#include <opm/input/eclipse/EclipseState/Grid/EclipseGrid.hpp>
#include <opm/input/eclipse/EclipseState/Grid/RegionSetMatcher.hpp>
#include <opm/input/eclipse/EclipseState/Grid/FIPRegionStatistics.hpp>
#include <opm/input/eclipse/EclipseState/IOConfig/IOConfig.hpp>
#include <opm/input/eclipse/EclipseState/SummaryConfig/SummaryConfig.hpp>
#include <opm/input/eclipse/Schedule/Schedule.hpp>
#include <opm/input/eclipse/Schedule/ScheduleState.hpp>
#include <opm/input/eclipse/Schedule/SummaryState.hpp>
#include <opm/input/eclipse/Schedule/Action/State.hpp>
#include <opm/input/eclipse/Schedule/Action/Actions.hpp>
#include <opm/input/eclipse/Schedule/Action/ActionX.hpp>
#include <opm/input/eclipse/Schedule/Action/ActionResult.hpp>
#include <opm/input/eclipse/Schedule/Action/Condition.hpp>
#include <opm/input/eclipse/Schedule/UDQ/UDQState.hpp>
#include <opm/input/eclipse/Schedule/UDQ/UDQConfig.hpp>
#include <opm/input/eclipse/Schedule/UDQ/UDQDefine.hpp>
#include <opm/input/eclipse/Schedule/UDQ/UDQAssign.hpp>
#include <opm/input/eclipse/Schedule/UDQ/UDQInput.hpp>
#include <opm/input/eclipse/Schedule/UDQ/UDQSet.hpp>
#include <opm/input/eclipse/Schedule/UDQ/UDQToken.hpp>
#include <opm/input/eclipse/Schedule/MSW/SegmentMatcher.hpp>
#include <opm/input/eclipse/Schedule/MSW/WellSegments.hpp>
#include <opm/input/eclipse/Schedule/MSW/Segment.hpp>
#include <opm/input/eclipse/Schedule/Well/Well.hpp>
#include <opm/input/eclipse/Schedule/Well/WellEconProductionLimits.hpp>
#include <opm/input/eclipse/Schedule/Well/WellConnections.hpp>
#include <opm/input/eclipse/Schedule/Well/Connection.hpp>
#include <opm/input/eclipse/Schedule/Well/WellTestState.hpp>
#include <opm/input/eclipse/Schedule/Well/WListManager.hpp>
#include <opm/input/eclipse/Schedule/Well/WList.hpp>
#include <opm/input/eclipse/Schedule/Well/WellMatcher.hpp>
#include <opm/input/eclipse/Schedule/Group/Group.hpp>
#include <opm/input/eclipse/Schedule/Network/ExtNetwork.hpp>
#include <opm/input/eclipse/Schedule/Network/Node.hpp>
#include <opm/input/eclipse/Schedule/Network/Branch.hpp>
#include <opm/input/eclipse/Python/Python.hpp>
#include <opm/input/eclipse/Units/UnitSystem.hpp>
#include <opm/output/eclipse/Summary.hpp>
#include <opm/output/eclipse/Inplace.hpp>
#include <opm/output/eclipse/RestartIO.hpp>
#include <opm/output/eclipse/RestartValue.hpp>
#include <opm/output/eclipse/AggregateAquiferData.hpp>
#include <opm/output/data/Wells.hpp>
#include <opm/output/data/Groups.hpp>
#include <opm/output/data/Solution.hpp>
#include <opm/output/data/Cells.hpp>
#include <opm/io/eclipse/OutputStream.hpp>
#include <opm/io/eclipse/ERst.hpp>
#include <opm/io/eclipse/RestartFileView.hpp>
#include <opm/io/eclipse/rst/state.hpp>
#include <opm/common/utility/TimeService.hpp>
#include "common/vh.hpp"
#include "common/gdeck.hpp"
#include <filesystem>
#include <cfloat>

using namespace Opm;
namespace fs = std::filesystem;
using vh::Rng;
using M = UnitSystem::measure;
using ROpt = data::Rates::opt;

// ------------------------------------------------------------------------------------------------------------------
// tolerances
// ------------------------------------------------------------------------------------------------------------------
// one unit in the last place of the single precision number nearest to |x|
static double ulpF(double x) {
    float f = (float)std::fabs(x);
    if (!std::isfinite(f)) return INFINITY;
    if (f < FLT_MIN) return (double)FLT_MIN * FLT_EPSILON;
    return (double)std::nextafterf(f, INFINITY) - (double)f;
}
// "equal to single precision": |a-b| <= 2 ulp(float) of the larger magnitude.  A value stored in a REAL array is off by
// at most half an ulp; the second ulp absorbs the double roundings of the two unit conversions.
static bool eqF(double a, double b) {
    if (a == b) return true;
    if (!std::isfinite(a) || !std::isfinite(b)) return false;   // inf <= tol * inf would pass
    // 2^-22 relative = 2 ulp(float) at the top of a binade.  The rounding happens in output units, the comparison in SI, so the
    // tolerance must not depend on the binade: rounding to REAL (<= 2^-24) + 8 significant decimal digits of a formatted
    // REAL (<= 5e-8) + rounding of that decimal back to REAL (<= 2^-24) = 1.7e-7 < 2^-22 = 2.4e-7.
    return std::fabs(a - b) <= std::ldexp(1.0, -22) * std::max(std::fabs(a), std::fabs(b));
}
static bool eqRel(double a, double b, double tol) {
    if (a == b) return true;
    if (!std::isfinite(a) || !std::isfinite(b)) return false;
    return std::fabs(a - b) <= tol * std::max(std::fabs(a), std::fabs(b));
}
static std::string num(double v) { char b[40]; snprintf(b, sizeof b, "%.17g", v); return b; }

// collector of differences: key = stable field identifier, text = entity + values
struct Diff {
    std::vector<std::pair<std::string, std::string>> items;
    long ncmp = 0;
    std::string ctx;          // current entity ("well W1", ...)
    std::string usfx;         // ":FIELD" ... appended to the keys of real valued fields (a unit error is a different defect per system)
    long udaDefinednessDiffers = 0;
    bool ambiguousUda = false;
    std::map<std::string, long> feat;   // what the compared schedules contained (evidence)
    void add(const std::string& key, const std::string& text) { items.emplace_back(key, ctx + ": " + key + " " + text); }
    void real(const std::string& key, double a, double b, bool unitInKey = true) { ++ncmp; if (!eqF(a, b)) add(key + (unitInKey ? usfx : std::string()), "original " + num(a) + " restarted " + num(b) + " (SI)"); }
    template <class T> void exact(const std::string& key, const T& a, const T& b) {
        ++ncmp;
        if (!(a == b)) { std::ostringstream o; o << "original " << a << " restarted " << b; add(key, o.str()); }
    }
    template <class E> void enm(const std::string& key, E a, E b) { exact(key, (long)a, (long)b); }
    void str(const std::string& key, const std::string& a, const std::string& b) { ++ncmp; if (a != b) add(key, "original '" + a + "' restarted '" + b + "'"); }
    // UDA: same kind (number / UDQ name); numbers equal to single precision in SI, names equal
    bool uda(const std::string& key, const UDAValue& a, const UDAValue& b, bool nameOnly = false) {
        const size_t before = items.size();
        udaImpl(key, a, b, nameOnly);
        return items.size() > before;
    }
    void udaImpl(const std::string& key, const UDAValue& a, const UDAValue& b, bool nameOnly) {
        ++ncmp;
        // WELTARG with a number on an item that held a UDQ name leaves both in the UDAValue (update_value does not clear the name):
        // the original run evaluates the number, the file records the UDQ as active and the restarted run evaluates the UDQ.
        if (a.is<std::string>() && a.is<double>()) { ambiguousUda = true; add(key + ".number-and-udq-name", "original holds the number " + num(a.get<double>()) + " and the UDQ name " + a.get<std::string>() + "; restarted " + (b.is<std::string>() ? "UDQ " + b.get<std::string>() : std::string("number"))); return; }
        const bool sa = a.is<std::string>(), sb = b.is<std::string>();
        if (sa != sb) { ambiguousUda = true; add(key + ".kind", std::string("original ") + (sa ? "UDQ " + a.get<std::string>() : "number") + " restarted " + (sb ? "UDQ " + b.get<std::string>() : "number")); return; }
        if (sa) { if (a.get<std::string>() != b.get<std::string>()) add(key, "original " + a.get<std::string>() + " restarted " + b.get<std::string>()); return; }
        // A UDA that holds no number on one side only (the constructors from the restart file fill in zeros / defaults where the
        // keyword handlers leave the item unset) is a difference of representation: what the simulator reads are the evaluated
        // controls, which are compared separately.
        const bool na = a.is<double>(), nb = b.is<double>();
        if (na != nb) { ++udaDefinednessDiffers; return; }
        if (na && !nameOnly) {
            double x = a.getSI(), y = b.getSI();
            // same number in the item but another SI value: the two items carry different dimensions (e.g. WELTARG keeps the METRIC
            // dimension of a defaulted WCONPROD item in a FIELD deck while the restarted well uses the deck's units)
            if (!eqF(x, y)) add(key + (eqF(a.get<double>(), b.get<double>()) ? ".dimension" : "") + usfx, "original " + num(x) + " restarted " + num(y) + " (SI); raw numbers " + num(a.get<double>()) + " and " + num(b.get<double>()));
        }
    }
};

// ------------------------------------------------------------------------------------------------------------------
// the model
// ------------------------------------------------------------------------------------------------------------------
static const char* USYS[] = {"METRIC", "FIELD", "LAB", "PVT-M"};

// Keywords of the generator that stay in the schedule.  The restart-supported set of the statement: wells, connections,
// segments, group tree, controls/limits/targets, efficiency factors, well lists, UDQ, ACTIONX, network.  Keywords whose
// effect is outside the compared field list stay (harmless context).  A keyword instance for which this function returns a
// reason is removed from the generated schedule: the unchanged tree cannot carry it through a restart file, see C05.py.
static bool g_allKeywords = false;   // harness development: let keyword kinds through that have not been validated
static std::string excludedKeyword(const gdeck::KwInst& kw) {
    // The shared generator grows; only the keyword kinds this check has been validated with on the unchanged tree stay in.
    static const std::set<std::string> validated = {
        "WELSPECS", "COMPDAT", "WCONPROD", "WCONINJE", "WCONHIST", "WCONINJH", "GRUPTREE", "WELSEGS", "COMPSEGS", "WELOPEN", "WELTARG",
        "WEFAC", "GEFAC", "GCONPROD", "GCONINJE", "WTEST", "WECON", "WLIST", "WPIMULT", "WTMULT", "TUNING", "NEXTSTEP", "RPTRST", "RPTSCHED",
        "UDQ", "ACTIONX", "GUIDERAT", "WGRUPCON", "LIFTOPT", "WLIFTOPT", "GLIFTOPT", "VFPPROD", "BRANPROP", "NETBALAN", "DRSDT", "WRFTPLT",
        "WPAVE", "WWPAVE", "COMPLUMP", "COMPORD", "GCONSUMP", "GECON", "WINJMULT", "WHISTCTL",
        // second batch (generator extension), validated with 800 cases x 4 unit systems
        "CSKIN", "WDFAC", "WDFACCOR", "WELPI", "WINJTEMP", "WTEMP", "WPAVEDEP", "WRFT", "WSEGITER", "WSEGSICD", "WSEGVALV", "WVFPDP", "WVFPEXP",
        "VFPINJ", "NUPCOL", "MESSAGES", "SUMTHIN", "RPTONLY", "SAVE"};
    // observed on the unchanged tree and left out (outside the statement's list; reported):
    if (kw.name == "DRVDT" || kw.name == "DRSDTR" || kw.name == "VAPPARS") return "save-throws-without-DRSDT:" + kw.name;   // RestartIO::save: "Only valid if DRSDT is active"
    if (kw.name == "GPMAINT" || kw.name == "GCONSALE") return "group-type-not-restored:" + kw.name;                     // injection group flag without GCONINJE is lost
    if (kw.name == "FBHPDEF") return "FBHPDEF";                                                                          // default BHP limits are not stored (documented in Well.cpp)
    if (!g_allKeywords && !validated.count(kw.name)) return "not-in-validated-set:" + kw.name;
    if (kw.name == "GCONPROD" && kw.text.find("'FLD'") != std::string::npos)
        return "GCONPROD-mode-FLD";      // IGRP encodes FLD as 0 (= NONE) with exceed action 4: comes back as NONE / RATE
    if (kw.name == "WHISTCTL")
        return "WHISTCTL";               // handleWHISTCTL calls Well::updateProduction on every well, which turns each injector into a
                                         // producer without control mode (separate defect, reported); not a state a simulator can be in
    return "";
}

struct Built {
    std::string text;                 // complete deck
    std::unique_ptr<Deck> deck;
    std::unique_ptr<EclipseState> es;
    std::unique_ptr<Schedule> sched;
};

static std::string errClass(const std::string& w) {
    std::string l = w.substr(0, w.find('\n'));
    std::string o; for (char c : l) if (!std::isdigit((unsigned char)c)) o += c;
    return o.substr(0, 80);
}

// ------------------------------------------------------------------------------------------------------------------
// dynamic state ("the simulator")
// ------------------------------------------------------------------------------------------------------------------
struct SolArr { std::string name; M dim; bool isInt; data::TargetType target; std::vector<double> v; std::vector<int> iv; };
struct ExtraArr { std::string name; M dim; std::vector<double> v; };

struct StepState {
    data::Wells wells;
    std::vector<SolArr> sol;
    std::vector<ExtraArr> extra;
    std::set<std::string> activeCtrlDiffers;    // wells whose active control is not the requested control of the schedule
    std::set<std::string> notFlowing;           // wells written as shut although the schedule has them open / stopped
};

static bool hasOpenConn(const Well& w) { for (const auto& c : w.getConnections()) if (c.state() == Connection::State::OPEN) return true; return false; }

// controls the well may run on (those of its schedule definition); the requested one first
static std::vector<Well::ProducerCMode> prodModes(const Well& w, const SummaryState& st) {
    std::vector<Well::ProducerCMode> v;
    const auto c = w.productionControls(st);
    v.push_back(c.cmode);
    for (auto m : {Well::ProducerCMode::ORAT, Well::ProducerCMode::WRAT, Well::ProducerCMode::GRAT, Well::ProducerCMode::LRAT, Well::ProducerCMode::RESV, Well::ProducerCMode::BHP, Well::ProducerCMode::THP})
        if (m != c.cmode && c.hasControl(m)) v.push_back(m);
    return v;
}
static std::vector<Well::InjectorCMode> injModes(const Well& w, const SummaryState& st) {
    std::vector<Well::InjectorCMode> v;
    const auto c = w.injectionControls(st);
    v.push_back(c.cmode);
    for (auto m : {Well::InjectorCMode::RATE, Well::InjectorCMode::RESV, Well::InjectorCMode::BHP, Well::InjectorCMode::THP})
        if (m != c.cmode && c.hasControl(m)) v.push_back(m);
    return v;
}

static StepState makeState(const Schedule& sched, const EclipseGrid& grid, size_t simStep, const SummaryState& st, Rng& rng, double pOtherCtrl) {
    StepState S;
    auto U = [&](double a, double b) { return rng.uniform(a, b); };
    for (const auto& w : sched.getWells(simStep)) {
        auto& xw = S.wells[w.name()];
        const bool producer = w.isProducer();
        const auto status = w.getStatus();
        // a well flows if the schedule has it open and it has an open connection; a stopped well has cross flow through its
        // open connections (that is what distinguishes STOP from SHUT in the file)
        const bool canFlow = hasOpenConn(w);
        const bool open = status == Well::Status::OPEN && canFlow;
        const bool stop = status == Well::Status::STOP && canFlow;
        xw.dynamicStatus = open ? Well::Status::OPEN : (stop ? Well::Status::STOP : Well::Status::SHUT);
        if ((status == Well::Status::OPEN || status == Well::Status::STOP || status == Well::Status::AUTO) && !open && !stop) S.notFlowing.insert(w.name());
        xw.current_control.isProducer = producer;
        if (producer) {
            auto modes = prodModes(w, st);
            size_t pick = (modes.size() > 1 && rng.chance(pOtherCtrl)) ? 1 + rng.below(modes.size() - 1) : 0;
            xw.current_control.prod = modes[pick];
            if (pick) S.activeCtrlDiffers.insert(w.name());
        } else {
            auto modes = injModes(w, st);
            size_t pick = (modes.size() > 1 && rng.chance(pOtherCtrl)) ? 1 + rng.below(modes.size() - 1) : 0;
            xw.current_control.inj = modes[pick];
            if (pick) S.activeCtrlDiffers.insert(w.name());
        }
        // surface rates in SI (m3/s); Flow's sign convention: production negative, injection positive
        double o = 0, wa = 0, g = 0;
        if (open) {
            if (producer) { o = -U(1, 500) / 86400; wa = -U(1, 500) / 86400; g = -U(100, 1e5) / 86400; }
            else {
                const auto it = w.injectorType();
                if (it == InjectorType::WATER) wa = U(1, 800) / 86400;
                else if (it == InjectorType::GAS) g = U(100, 1e5) / 86400;
                else if (it == InjectorType::OIL) o = U(1, 500) / 86400;
                else { wa = U(1, 800) / 86400; g = U(100, 1e5) / 86400; }
            }
        }
        xw.rates.set(ROpt::oil, o).set(ROpt::wat, wa).set(ROpt::gas, g);
        xw.rates.set(ROpt::reservoir_oil, o * 1.2).set(ROpt::reservoir_water, wa * 1.01).set(ROpt::reservoir_gas, g * 0.01);
        xw.bhp = U(5e6, 4e7); xw.thp = U(1e5, 5e6); xw.temperature = U(300, 400);
        int nOpen = 0;
        for (const auto& c : w.getConnections()) if (c.state() == Connection::State::OPEN) ++nOpen;
        // random split of the well rates over the open connections
        std::vector<double> share;
        double tot = 0;
        for (int q = 0; q < nOpen; ++q) { share.push_back(U(0.2, 1)); tot += share.back(); }
        int qi = 0;
        for (const auto& c : w.getConnections()) {
            data::Connection xc;
            xc.index = c.global_index();
            const bool copen = c.state() == Connection::State::OPEN;
            double f = (copen && open) ? share[qi] / tot : 0.0;
            if (copen) ++qi;
            double co = o * f, cw = wa * f, cg = g * f;
            if (stop && copen) {
                // cross flow: in through one connection, out through another, no surface flow
                double q = U(1, 50) / 86400 * ((qi % 2) ? 1 : -1);
                co = 0; cw = q; cg = 0;
            }
            xc.rates.set(ROpt::oil, co).set(ROpt::wat, cw).set(ROpt::gas, cg);
            xc.rates.set(ROpt::reservoir_oil, co * 1.2).set(ROpt::reservoir_water, cw * 1.01).set(ROpt::reservoir_gas, cg * 0.01);
            xc.pressure = U(5e6, 4e7); xc.reservoir_rate = (co * 1.2 + cw * 1.01 + cg * 0.01);
            xc.cell_pressure = U(5e6, 4e7); xc.cell_saturation_water = U(0, 0.5); xc.cell_saturation_gas = U(0, 0.5);
            xc.effective_Kh = c.Kh(); xc.trans_factor = c.CF();
            xw.connections.push_back(xc);
        }
        if (w.isMultiSegment()) {
            const auto& segs = w.getSegments();
            for (size_t s = 0; s < segs.size(); ++s) {
                data::Segment xs;
                xs.segNumber = segs[s].segmentNumber();
                double so = 0, sw = 0, sg = 0;
                if (open) { so = -U(1, 500) / 86400; sw = -U(1, 500) / 86400; sg = -U(100, 1e5) / 86400; }
                xs.rates.set(ROpt::oil, so).set(ROpt::wat, sw).set(ROpt::gas, sg);
                xs.pressures[data::SegmentPressures::Value::Pressure] = U(5e6, 4e7);
                xw.segments[xs.segNumber] = xs;
            }
        }
    }
    // solution and extra arrays
    const size_t na = grid.getNumActive();
    auto darr = [&](const std::string& n, M dim, double lo, double hi, data::TargetType t) {
        SolArr a{n, dim, false, t, {}, {}};
        a.v.resize(na);
        for (auto& x : a.v) x = U(lo, hi);
        if (na > 3) { a.v[rng.below(na)] = 0.0; a.v[rng.below(na)] = lo; }
        S.sol.push_back(a);
    };
    darr("PRESSURE", M::pressure, 1e5, 6e7, data::TargetType::RESTART_SOLUTION);
    darr("SWAT", M::identity, 0, 1, data::TargetType::RESTART_SOLUTION);
    darr("SGAS", M::identity, 0, 1, data::TargetType::RESTART_SOLUTION);
    darr("RS", M::gas_oil_ratio, 0, 300, data::TargetType::RESTART_SOLUTION);
    if (rng.chance(0.5)) darr("RV", M::oil_gas_ratio, 0, 1e-3, data::TargetType::RESTART_SOLUTION);
    if (rng.chance(0.5)) darr("TEMP", M::temperature, 280, 420, data::TargetType::RESTART_SOLUTION);
    if (rng.chance(0.3)) darr("FIPOIL", M::liquid_surface_volume, 0, 1e6, data::TargetType::RESTART_SOLUTION);
    if (rng.chance(0.5)) darr("SOMAX", M::identity, 0, 1, data::TargetType::RESTART_OPM_EXTENDED);
    if (rng.chance(0.5)) darr("PCSWM_OW", M::identity, 0.1, 2, data::TargetType::RESTART_AUXILIARY);
    if (rng.chance(0.5)) {
        SolArr a{"IPHASE", M::identity, true, data::TargetType::RESTART_SOLUTION, {}, {}};
        a.iv.resize(na);
        for (auto& x : a.iv) x = (int)rng.range(-5, 2000000000L);
        if (na > 1) a.iv[0] = INT32_MIN + 1;
        S.sol.push_back(a);
    }
    {
        ExtraArr e{"EXTRA", M::pressure, {}};
        e.v.resize(1 + rng.below(9)); for (auto& x : e.v) x = U(-5e7, 5e7);
        S.extra.push_back(e);
    }
    if (rng.chance(0.7)) S.extra.push_back(ExtraArr{"OPMEXTRA", M::identity, {U(0.1, 30) * 86400}});   // suggested next step (s)
    if (rng.chance(0.3)) { ExtraArr e{"FLOGASN+", M::gas_surface_rate, {}}; e.v.resize(na); for (auto& x : e.v) x = U(-1, 1); S.extra.push_back(e); }
    return S;
}

static std::string stateText(const StepState& S) {
    std::ostringstream o; o.precision(17);
    for (const auto& [n, w] : S.wells) {
        o << "well " << n << " dynamicStatus " << (int)w.dynamicStatus << " ctrl " << (w.current_control.isProducer ? "P" + std::to_string((int)w.current_control.prod) : "I" + std::to_string((int)w.current_control.inj))
          << " oil " << w.rates.get(ROpt::oil, 0) << " wat " << w.rates.get(ROpt::wat, 0) << " gas " << w.rates.get(ROpt::gas, 0) << " bhp " << w.bhp << " thp " << w.thp << "\n";
        for (const auto& c : w.connections) o << "   conn " << c.index << " oil " << c.rates.get(ROpt::oil, 0) << " wat " << c.rates.get(ROpt::wat, 0) << " gas " << c.rates.get(ROpt::gas, 0) << " p " << c.pressure << "\n";
        for (const auto& [sn, s] : w.segments) o << "   seg " << sn << " oil " << s.rates.get(ROpt::oil, 0) << " wat " << s.rates.get(ROpt::wat, 0) << " gas " << s.rates.get(ROpt::gas, 0) << " p " << s.pressures[data::SegmentPressures::Value::Pressure] << "\n";
    }
    return o.str();
}

// ------------------------------------------------------------------------------------------------------------------
// part 2: field-wise comparison of two schedules at one report step
// ------------------------------------------------------------------------------------------------------------------
struct SchedCmpOpts {
    std::set<std::string> activeCtrlDiffers, notFlowing;
    const SummaryState* st = nullptr;
    std::vector<std::string> rstWells, rstGroups;   // entities present in the restart file
    const UDQState* udq = nullptr;                  // UDQ values at the time the file was written
};

static std::string kwText(const DeckKeyword& kw) {
    // canonical text of a keyword stored in an ACTIONX: name, then per record the items; numbers to 6 significant digits
    // (the keyword travels through 8 character string chunks of ZLACT as the text the user wrote)
    std::ostringstream o;
    o << kw.name() << "{";
    for (const auto& rec : kw) {
        o << "[";
        for (const auto& item : rec) {
            for (size_t i = 0; i < item.data_size(); ++i) {
                if (!item.hasValue(i)) { o << "*,"; continue; }
                switch (item.getType()) {
                case type_tag::integer: o << item.get<int>(i); break;
                case type_tag::string: o << item.get<std::string>(i); break;
                case type_tag::raw_string: o << item.get<RawString>(i); break;
                // DeckItem keeps doubles in deck units or in SI and converts lazily in place (applying the action converts the stored
                // keyword): always read SI
                case type_tag::fdouble: { char b[32]; double v; try { v = item.getSIDouble(i); } catch (const std::exception&) { v = item.get<double>(i); } snprintf(b, sizeof b, "%.6g", v); o << b; break; }
                case type_tag::uda: { const auto u = item.get<UDAValue>(i); if (u.is<std::string>()) o << u.get<std::string>(); else if (u.is<double>()) { char b[32]; double v; try { v = u.getSI(); } catch (const std::exception&) { v = u.get<double>(); } snprintf(b, sizeof b, "%.6g", v); o << b; } else o << "?"; break; }
                default: o << "?";
                }
                o << ",";
            }
            o << ";";
        }
        o << "]";
    }
    o << "}";
    return o.str();
}

static void cmpWell(const Well& a, const Well& b, const SchedCmpOpts& opt, Diff& d) {
    d.ctx = "well " + a.name();
    d.str("well.group", a.groupName(), b.groupName());
    d.exact("well.headI", a.getHeadI(), b.getHeadI());
    d.exact("well.headJ", a.getHeadJ(), b.getHeadJ());
    d.exact("well.hasRefDepth", a.hasRefDepth(), b.hasRefDepth());
    if (a.hasRefDepth() && b.hasRefDepth()) d.real("well.refDepth", a.getRefDepth(), b.getRefDepth());
    d.exact("well.isProducer", a.isProducer(), b.isProducer());
    if (a.isInjector() && b.isInjector()) d.enm("well.injectorType", a.injectorType(), b.injectorType());
    if (a.isProducer()) d.enm("well.preferredPhase", a.getPreferredPhase(), b.getPreferredPhase());
    d.exact("well.seqIndex", a.seqIndex(), b.seqIndex());
    if (!opt.notFlowing.count(a.name())) d.enm("well.status", a.getStatus(), b.getStatus());
    d.real("well.efficiencyFactor", a.getEfficiencyFactor(), b.getEfficiencyFactor());
    d.exact("well.availableForGroupControl", a.isAvailableForGroupControl(), b.isAvailableForGroupControl());
    d.real("well.guideRate", a.getGuideRate(), b.getGuideRate());
    d.enm("well.guideRatePhase", a.getGuideRatePhase(), b.getGuideRatePhase());
    d.real("well.guideRateScaling", a.getGuideRateScalingFactor(), b.getGuideRateScalingFactor());
    d.exact("well.predictionMode", a.predictionMode(), b.predictionMode());
    d.exact("well.allowCrossFlow", a.getAllowCrossFlow(), b.getAllowCrossFlow());
    d.real("well.drainageRadius", a.getDrainageRadius(), b.getDrainageRadius());
    d.exact("well.isMultiSegment", a.isMultiSegment(), b.isMultiSegment());
    const bool ctrlFree = opt.activeCtrlDiffers.count(a.name()) > 0;
    d.feat[std::string("well:") + (a.isProducer() ? "producer" : "injector") + (a.predictionMode() ? ":prediction" : ":history")]++;
    d.feat[std::string("well status:") + WellStatus2String(a.getStatus())]++;
    if (a.getEfficiencyFactor() != 1.0) d.feat["well:efficiency factor != 1"]++;
    if (a.getGuideRate() >= 0) d.feat["well:WGRUPCON guide rate"]++;
    if (!a.isAvailableForGroupControl()) d.feat["well:not available for group control"]++;
    if (ctrlFree) d.feat["well:active control differs from requested (control mode not compared)"]++;
    if (opt.notFlowing.count(a.name())) d.feat["well:open without open connection (status not compared)"]++;
    const bool open = a.getStatus() == Well::Status::OPEN;
    d.ambiguousUda = false;
    if (a.isProducer() && b.isProducer()) {
        const auto& p = a.getProductionProperties();
        const auto& q = b.getProductionProperties();
        for (const UDAValue* u : {&p.OilRate, &p.WaterRate, &p.GasRate, &p.LiquidRate, &p.ResVRate, &p.BHPTarget, &p.THPTarget}) if (u->is<std::string>()) d.feat["well:UDA in production control"]++;
        if (p.VFPTableNumber > 0) d.feat["well:VFP table"]++;
        // (a limit whose stored item already differs is not reported a second time through the evaluated controls)
        const bool rOil = d.uda("well.prod.OilRate", p.OilRate, q.OilRate);
        const bool rWat = d.uda("well.prod.WaterRate", p.WaterRate, q.WaterRate);
        const bool rGas = d.uda("well.prod.GasRate", p.GasRate, q.GasRate);
        const bool rLiq = d.uda("well.prod.LiquidRate", p.LiquidRate, q.LiquidRate);
        const bool rResv = d.uda("well.prod.ResVRate", p.ResVRate, q.ResVRate);
        const bool rBhp = d.uda("well.prod.BHPTarget", p.BHPTarget, q.BHPTarget);
        const bool rThp = d.uda("well.prod.THPTarget", p.THPTarget, q.THPTarget);
        const bool rAlq = d.uda("well.prod.ALQValue", p.ALQValue, q.ALQValue);
        d.exact("well.prod.VFPTableNumber", p.VFPTableNumber, q.VFPTableNumber);
        d.exact("well.prod.predictionMode", p.predictionMode, q.predictionMode);
        if (!p.predictionMode) {
            d.real("well.prod.bhp_hist_limit", p.bhp_hist_limit, q.bhp_hist_limit);
            d.real("well.prod.thp_hist_limit", p.thp_hist_limit, q.thp_hist_limit);
        }
        // the GRUP bit is derived from the WGRUPCON availability when the well is built from the file, while the keyword handlers
        // leave a stale bit behind after WGRUPCON 'NO': availability is compared above, the bit is masked here
        // a producer no WCONPROD / WCONHIST has been entered for yet (control mode undefined): its own key, so that the finding recorded
        // for that situation (the file has no way to say "no control set"; the restarted well gets BHP control at 1 atm) does not hide
        // a difference for wells that do have controls
        const std::string nk = p.controlMode == Well::ProducerCMode::CMODE_UNDEFINED ? ":no-control-keyword-yet" : "";
        if (!ctrlFree) d.exact("well.prod.controls" + nk, p.productionControls() & ~(int)Well::ProducerCMode::GRUP, q.productionControls() & ~(int)Well::ProducerCMode::GRUP);
        if (open && !ctrlFree) d.enm("well.prod.controlMode", p.controlMode, q.controlMode);
        d.enm("well.prod.whistctl_cmode", p.whistctl_cmode, q.whistctl_cmode);
        // what the simulator sees: limits evaluated against the summary state (skipped when a UDA of this well has been reported as
        // holding a number and a name, or as a number on one side and a UDQ on the other: the evaluated values differ as a consequence)
        if (opt.st && !d.ambiguousUda) {
            try {
                const auto ca = a.productionControls(*opt.st), cb = b.productionControls(*opt.st);
                // a limit counts when its control is part of the well's control set (a value left over from an earlier keyword whose
                // control has been dropped is not written); history wells: the observed rates always count
                using PM = Well::ProducerCMode;
                const bool hist = !ca.prediction_mode;
                if (!rOil && (hist || ca.hasControl(PM::ORAT))) d.real("well.prodctl.oil_rate", ca.oil_rate, cb.oil_rate);
                if (!rWat && (hist || ca.hasControl(PM::WRAT))) d.real("well.prodctl.water_rate", ca.water_rate, cb.water_rate);
                if (!rGas && (hist || ca.hasControl(PM::GRAT))) d.real("well.prodctl.gas_rate", ca.gas_rate, cb.gas_rate);
                if (!rLiq && ca.hasControl(PM::LRAT)) d.real("well.prodctl.liquid_rate", ca.liquid_rate, cb.liquid_rate);
                if (!rResv && !hist && ca.hasControl(PM::RESV)) d.real("well.prodctl.resv_rate", ca.resv_rate, cb.resv_rate);
                if (!rBhp) d.real("well.prodctl.bhp_limit" + nk, ca.bhp_limit, cb.bhp_limit);
                if (!rThp && ca.hasControl(PM::THP)) d.real("well.prodctl.thp_limit", ca.thp_limit, cb.thp_limit);
                if (!rAlq) d.real("well.prodctl.alq_value", ca.alq_value, cb.alq_value);
                d.exact("well.prodctl.vfp_table", ca.vfp_table_number, cb.vfp_table_number);
            } catch (const std::exception& e) { d.add("well.prodctl.throws", e.what()); }
        }
    }
    if (a.isInjector() && b.isInjector()) {
        const auto& p = a.getInjectionProperties();
        const auto& q = b.getInjectionProperties();
        d.uda("well.inj.surfaceInjectionRate", p.surfaceInjectionRate, q.surfaceInjectionRate);
        d.uda("well.inj.reservoirInjectionRate", p.reservoirInjectionRate, q.reservoirInjectionRate);
        d.uda("well.inj.BHPTarget", p.BHPTarget, q.BHPTarget);
        d.uda("well.inj.THPTarget", p.THPTarget, q.THPTarget);
        d.exact("well.inj.VFPTableNumber", p.VFPTableNumber, q.VFPTableNumber);
        d.exact("well.inj.predictionMode", p.predictionMode, q.predictionMode);
        if (!p.predictionMode) {
            d.real("well.inj.bhp_hist_limit", p.bhp_hist_limit, q.bhp_hist_limit);
            d.real("well.inj.thp_hist_limit", p.thp_hist_limit, q.thp_hist_limit);
        }
        if (!ctrlFree) d.exact("well.inj.controls", p.injectionControls & ~(int)Well::InjectorCMode::GRUP, q.injectionControls & ~(int)Well::InjectorCMode::GRUP);
        d.enm("well.inj.injectorType", p.injectorType, q.injectorType);
        if (open && !ctrlFree) d.enm("well.inj.controlMode", p.controlMode, q.controlMode);
        if (opt.st && !d.ambiguousUda) {
            try {
                const auto ca = a.injectionControls(*opt.st), cb = b.injectionControls(*opt.st);
                using IM = Well::InjectorCMode;
                if (ca.hasControl(IM::RATE)) d.real("well.injctl.surface_rate", ca.surface_rate, cb.surface_rate);
                if (ca.hasControl(IM::RESV)) d.real("well.injctl.reservoir_rate", ca.reservoir_rate, cb.reservoir_rate);
                d.real("well.injctl.bhp_limit", ca.bhp_limit, cb.bhp_limit);
                if (ca.hasControl(IM::THP)) d.real("well.injctl.thp_limit", ca.thp_limit, cb.thp_limit);
                d.exact("well.injctl.vfp_table", ca.vfp_table_number, cb.vfp_table_number);
            } catch (const std::exception& e) { d.add("well.injctl.throws", e.what()); }
        }
    }
    // connections
    const auto& ca = a.getConnections();
    const auto& cb = b.getConnections();
    d.exact("conn.count", ca.size(), cb.size());
    d.enm("conn.ordering", ca.ordering(), cb.ordering());
    for (size_t i = 0; i < ca.size() && i < cb.size(); ++i) {
        const auto& x = ca[i];
        const auto& y = cb[i];
        d.ctx = "well " + a.name() + " connection " + std::to_string(i) + " (" + std::to_string(x.getI() + 1) + "," + std::to_string(x.getJ() + 1) + "," + std::to_string(x.getK() + 1) + ")";
        d.exact("conn.I", x.getI(), y.getI());
        d.exact("conn.J", x.getJ(), y.getJ());
        d.exact("conn.K", x.getK(), y.getK());
        d.exact("conn.global_index", x.global_index(), y.global_index());
        d.feat[std::string("connection:") + Connection::State2String(x.state())]++;
        if (x.complnum() != (int)i + 1) d.feat["connection:COMPLUMP"]++;
        d.enm("conn.state", x.state(), y.state());
        d.enm("conn.dir", x.dir(), y.dir());
        d.exact("conn.complnum", x.complnum(), y.complnum());
        d.exact("conn.segment", x.segment(), y.segment());
        d.enm("conn.kind", x.kind(), y.kind());
        d.exact("conn.sort_value", x.sort_value(), y.sort_value());
        d.real("conn.CF", x.CF(), y.CF());
        d.real("conn.Kh", x.Kh(), y.Kh());
        d.real("conn.rw", x.rw(), y.rw());
        // (for a multi-segment well the depth is a matter of which value is taken, not of units: one key for all unit systems)
        if (a.isMultiSegment()) d.real("conn.depth.msw", x.depth(), y.depth(), false); else d.real("conn.depth", x.depth(), y.depth());
        d.real("conn.skinFactor", x.skinFactor(), y.skinFactor());
    }
    // economic limits (WECON): the items the file carries (SWEL/IWEL slots read by RstWell)
    {
        const auto& ea = a.getEconLimits();
        const auto& eb = b.getEconLimits();
        if (ea.onAnyEffectiveLimit()) d.feat["well:WECON limit"]++;
        d.real("well.econ.minOilRate", ea.minOilRate(), eb.minOilRate());
        d.real("well.econ.minGasRate", ea.minGasRate(), eb.minGasRate());
        d.real("well.econ.maxWaterCut", ea.maxWaterCut(), eb.maxWaterCut(), false);
        d.real("well.econ.maxGasOilRatio", ea.maxGasOilRatio(), eb.maxGasOilRatio());
        d.real("well.econ.maxWaterGasRatio", ea.maxWaterGasRatio(), eb.maxWaterGasRatio());
        d.real("well.econ.minLiquidRate", ea.minLiquidRate(), eb.minLiquidRate());
        d.real("well.econ.secondaryMaxWaterCut", ea.maxSecondaryMaxWaterCut(), eb.maxSecondaryMaxWaterCut(), false);
        d.enm("well.econ.workover", ea.workover(), eb.workover());
        d.enm("well.econ.workoverSecondary", ea.workoverSecondary(), eb.workoverSecondary());
        d.exact("well.econ.endRun", ea.endRun(), eb.endRun());
        d.enm("well.econ.quantityLimit", ea.quantityLimit(), eb.quantityLimit());
    }
    if (a.isMultiSegment() && b.isMultiSegment()) {
        const auto& sa = a.getSegments();
        const auto& sb = b.getSegments();
        d.ctx = "well " + a.name();
        d.feat["well:multi-segment"]++;
        d.exact("seg.count", sa.size(), sb.size());
        d.enm("seg.compPressureDrop", sa.compPressureDrop(), sb.compPressureDrop());
        // Segments are matched by NUMBER.  The position inside WellSegments is a representation: the original orders the segments
        // branch by branch (WellSegments::orderSegments), the restarted one takes them in the order of the file (by number); both keep
        // every outlet ahead of its inlets and every user goes through segmentNumberToIndex().  A different order is counted only.
        bool sameOrder = true;
        for (size_t i = 0; i < (size_t)sa.size() && i < (size_t)sb.size(); ++i) if (sa[i].segmentNumber() != sb[i].segmentNumber()) sameOrder = false;
        if (!sameOrder) d.feat["well:segment storage order differs between original and restarted (matched by number)"]++;
        for (size_t i = 0; i < (size_t)sa.size(); ++i) {
            const auto& x = sa[i];
            d.ctx = "well " + a.name() + " segment " + std::to_string(x.segmentNumber());
            if (sb.segmentNumberToIndex(x.segmentNumber()) < 0) { d.add("seg.missing", "segment " + std::to_string(x.segmentNumber()) + " of the original is not in the restarted well"); continue; }
            const auto& y = sb.getFromSegmentNumber(x.segmentNumber());
            d.exact("seg.number", x.segmentNumber(), y.segmentNumber());
            d.exact("seg.branch", x.branchNumber(), y.branchNumber());
            d.exact("seg.outlet", x.outletSegment(), y.outletSegment());
            d.real("seg.totalLength", x.totalLength(), y.totalLength());
            d.real("seg.depth", x.depth(), y.depth());
            if (i > 0) {
                d.real("seg.internalDiameter", x.internalDiameter(), y.internalDiameter());
                d.real("seg.roughness", x.roughness(), y.roughness());
                d.real("seg.crossArea", x.crossArea(), y.crossArea());
            }
            d.real("seg.volume", x.volume(), y.volume());
        }
    }
}

static void cmpGroup(const Group& a, const Group& b, const SchedCmpOpts& opt, Diff& d) {
    d.ctx = "group " + a.name();
    d.exact("group.insert_index", a.insert_index(), b.insert_index());
    d.str("group.parent", a.parent(), b.parent());
    {
        // children as sets: their order inside the parent follows the order of the GRUPTREE / WELSPECS records in the original and
        // the index order of the file in the restarted schedule; nothing reads a meaning from it
        auto wa = a.wells(), wb = b.wells();
        std::sort(wa.begin(), wa.end()); std::sort(wb.begin(), wb.end());
        std::string sa, sb; for (auto& w : wa) sa += w + " "; for (auto& w : wb) sb += w + " ";
        d.str("group.wells", sa, sb);
        auto ga = a.groups(), gb = b.groups();
        std::sort(ga.begin(), ga.end()); std::sort(gb.begin(), gb.end());
        sa.clear(); sb.clear(); for (auto& w : ga) sa += w + " "; for (auto& w : gb) sb += w + " ";
        d.str("group.groups", sa, sb);
    }
    if (a.getGroupEfficiencyFactor() != 1.0) d.feat["group:GEFAC != 1"]++;
    if (a.parent() != "FIELD" && a.name() != "FIELD") d.feat["group:below a node group"]++;
    d.real("group.gefac", a.getGroupEfficiencyFactor(), b.getGroupEfficiencyFactor());
    d.exact("group.transfer_gefac", a.getTransferGroupEfficiencyFactor(), b.getTransferGroupEfficiencyFactor());
    d.exact("group.isProductionGroup", a.isProductionGroup(), b.isProductionGroup());
    d.exact("group.isInjectionGroup", a.isInjectionGroup(), b.isInjectionGroup());
    if (a.isProductionGroup() && b.isProductionGroup()) {
        const auto& p = a.productionProperties();
        const auto& q = b.productionProperties();
        d.feat["group:production control " + Group::ProductionCMode2String(p.cmode)]++;
        if (p.oil_target.is<std::string>()) d.feat["group:UDA in production target"]++;
        d.enm("group.prod.cmode", p.cmode, q.cmode);
        d.enm("group.prod.action.allRates", p.group_limit_action.allRates, q.group_limit_action.allRates);
        // EXCLUDED: group_limit_action.water/gas/liquid (GCONPROD items 11-13): IGRP has a single exceed-action slot, the per phase
        // actions are never written.
        d.uda("group.prod.oil_target", p.oil_target, q.oil_target);
        d.uda("group.prod.water_target", p.water_target, q.water_target);
        d.uda("group.prod.gas_target", p.gas_target, q.gas_target);
        d.uda("group.prod.liquid_target", p.liquid_target, q.liquid_target);
        // EXCLUDED: resv_target, guide_rate (value) and available_group_control (GCONPROD items 14, 9, 8): Group(RstGroup) does not
        // restore them (SGRP carries no slot that rst::RstGroup reads for them).
        d.enm("group.prod.guide_rate_def", p.guide_rate_def, q.guide_rate_def);
        // with exceed action NONE the keyword handler registers the active mode only, the file nevertheless carries all four limits
        // and Group(RstGroup) sets a bit for each: without an action the extra bits have no effect, so the sets are compared only
        // when an action makes them matter
        if (p.group_limit_action.allRates != Group::ExceedAction::NONE) d.exact("group.prod.controls", p.production_controls, q.production_controls);
        if (opt.st) {
            try {
                const auto ca = a.productionControls(*opt.st), cb = b.productionControls(*opt.st);
                d.real("group.prodctl.oil_target", ca.oil_target, cb.oil_target);
                d.real("group.prodctl.water_target", ca.water_target, cb.water_target);
                d.real("group.prodctl.gas_target", ca.gas_target, cb.gas_target);
                d.real("group.prodctl.liquid_target", ca.liquid_target, cb.liquid_target);
            } catch (const std::exception& e) { d.add("group.prodctl.throws", e.what()); }
        }
    }
    if (a.isInjectionGroup() && b.isInjectionGroup()) {
        for (Phase ph : {Phase::WATER, Phase::GAS, Phase::OIL}) {
            const bool ha = a.hasInjectionControl(ph), hb = b.hasInjectionControl(ph);
            const std::string pn = ph == Phase::WATER ? "water" : (ph == Phase::GAS ? "gas" : "oil");
            d.exact("group.inj.has:" + pn, ha, hb);
            if (!(ha && hb)) continue;
            const auto& p = a.injectionProperties(ph);
            const auto& q = b.injectionProperties(ph);
            d.feat["group:injection control " + pn + " " + Group::InjectionCMode2String(p.cmode)]++;
            d.enm("group.inj.cmode", p.cmode, q.cmode);
            // The raw UDA items of GCONINJE carry no usable dimension (the surface rate unit depends on the phase and is applied when
            // the controls are evaluated): names are compared here, numbers through the evaluated controls.
            d.uda("group.inj.surface_max_rate", p.surface_max_rate, q.surface_max_rate, true);
            d.uda("group.inj.resv_max_rate", p.resv_max_rate, q.resv_max_rate, true);
            d.uda("group.inj.target_reinj_fraction", p.target_reinj_fraction, q.target_reinj_fraction, true);
            d.uda("group.inj.target_void_fraction", p.target_void_fraction, q.target_void_fraction, true);
            d.str("group.inj.voidage_group", p.voidage_group.value_or(a.name()), q.voidage_group.value_or(b.name()));
            // EXCLUDED: reinj_group and available_group_control (GCONINJE items 11, 8): not restored by Group(RstGroup).
            d.exact("group.inj.controls", p.injection_controls, q.injection_controls);
            d.real("group.inj.guide_rate", p.guide_rate, q.guide_rate);
            d.enm("group.inj.guide_rate_def", p.guide_rate_def, q.guide_rate_def);
            if (opt.st) {
                try {
                    const auto ca = a.injectionControls(ph, *opt.st), cb = b.injectionControls(ph, *opt.st);
                    d.real("group.injctl.surface_max_rate", ca.surface_max_rate, cb.surface_max_rate);
                    d.real("group.injctl.resv_max_rate", ca.resv_max_rate, cb.resv_max_rate);
                    d.real("group.injctl.target_reinj_fraction", ca.target_reinj_fraction, cb.target_reinj_fraction);
                    d.real("group.injctl.target_void_fraction", ca.target_void_fraction, cb.target_void_fraction);
                } catch (const std::exception& e) { d.add("group.injctl.throws", e.what()); }
            }
        }
    }
}

static std::string tokensText(const UDQDefine& def) {
    std::string s;
    for (const auto& t : def.tokens()) {
        s += t.str();
        for (const auto& sel : t.selector()) s += " " + sel;
        s += " ";
    }
    return s;
}

static void cmpUDQ(const Schedule& A, const Schedule& B, size_t k, const SchedCmpOpts& opt, Diff& d) {
    const auto& ua = A.getUDQConfig(k);
    const auto& ub = B.getUDQConfig(k);
    d.ctx = "UDQ";
    d.exact("udq.size", ua.size(), ub.size());
    const auto ia = ua.input();
    const auto ib = ub.input();
    d.exact("udq.input.count", ia.size(), ib.size());
    for (size_t i = 0; i < ia.size() && i < ib.size(); ++i) {
        d.ctx = "UDQ " + ia[i].keyword();
        d.str("udq.keyword", ia[i].keyword(), ib[i].keyword());
        if (ia[i].keyword() != ib[i].keyword()) continue;
        d.enm("udq.var_type", ia[i].var_type(), ib[i].var_type());
        d.str("udq.unit", ia[i].unit(), ib[i].unit());
        const bool da = ia[i].is<UDQDefine>(), db = ib[i].is<UDQDefine>();
        d.exact("udq.is_define", da, db);
        if (da && db) {
            const auto& x = ia[i].get<UDQDefine>();
            const auto& y = ib[i].get<UDQDefine>();
            d.feat["udq:DEFINE"]++;
            d.str("udq.define.tokens", tokensText(x), tokensText(y));
            // EXCLUDED: UPDATE NEXT.  IUDQ item 1 is written as 2 for ON and 0 otherwise, NEXT comes back as OFF.
            d.exact("udq.define.update_on", x.status().first == UDQUpdate::ON, y.status().first == UDQUpdate::ON);
        } else if (!da && !db) {
            const auto& x = ia[i].get<UDQAssign>();
            const auto& y = ib[i].get<UDQAssign>();
            // the meaning of an assignment: the values it gives to the wells / groups / field
            try {
                UDQSet sa = UDQSet::scalar("x", 0.0), sb = sa;
                const auto vt = x.var_type();
                // An assignment is carried as the values it gave to the wells / groups that existed when the file was written (it is
                // evaluated once, when it is entered, and never for a well defined later): compare it on that set.
                if (vt == UDQVarType::WELL_VAR) { sa = x.eval(opt.rstWells); sb = y.eval(opt.rstWells); }
                else if (vt == UDQVarType::GROUP_VAR) { sa = x.eval(opt.rstGroups); sb = y.eval(opt.rstGroups); }
                else if (vt == UDQVarType::FIELD_VAR || vt == UDQVarType::SCALAR) { sa = x.eval(); sb = y.eval(); }
                else continue;
                d.feat["udq:ASSIGN"]++;
                d.exact("udq.assign.size", sa.size(), sb.size());
                for (size_t q = 0; q < sa.size() && q < sb.size(); ++q) {
                    // ... and only where the run had assigned a value (a well defined after the ASSIGN has none although the original
                    // assignment names all wells)
                    if (opt.udq && vt == UDQVarType::WELL_VAR && !(opt.udq->has_well_var(opt.rstWells[q], x.keyword()) && opt.udq->get_well_var(opt.rstWells[q], x.keyword()) != opt.udq->undefined_value())) continue;
                    if (opt.udq && vt == UDQVarType::GROUP_VAR && !(opt.udq->has_group_var(opt.rstGroups[q], x.keyword()) && opt.udq->get_group_var(opt.rstGroups[q], x.keyword()) != opt.udq->undefined_value())) continue;
                    d.exact("udq.assign.defined", sa[q].defined(), sb[q].defined());
                    if (sa[q].defined() && sb[q].defined()) d.exact("udq.assign.value", sa[q].get(), sb[q].get());
                }
            } catch (const std::exception& e) { d.add("udq.assign.throws", e.what()); }
        }
    }
}

static std::string quantityText(const Action::Quantity& q) {
    std::string s = q.quantity;
    for (const auto& a : q.args) s += " " + a;
    return s;
}

static void cmpActions(const Schedule& A, const Schedule& B, size_t k, Diff& d) {
    const auto& aa = A[k].actions();
    const auto& ab = B[k].actions();
    d.ctx = "ACTIONX";
    d.exact("action.count", aa.ecl_size(), ab.ecl_size());
    for (const auto& x : aa) {
        d.ctx = "ACTIONX " + x.name();
        d.exact("action.present", true, ab.has(x.name()));
        if (!ab.has(x.name())) continue;
        const auto& y = ab[x.name()];
        d.feat["action:" + std::to_string(x.conditions().size()) + " conditions"]++;
        d.exact("action.max_run", x.max_run(), y.max_run());
        d.real("action.min_wait", x.min_wait(), y.min_wait());
        // conditions
        d.exact("action.conditions.count", x.conditions().size(), y.conditions().size());
        for (size_t i = 0; i < x.conditions().size() && i < y.conditions().size(); ++i) {
            const auto& cx = x.conditions()[i];
            const auto& cy = y.conditions()[i];
            d.str("action.cond.lhs", quantityText(cx.lhs), quantityText(cy.lhs));
            // the right hand side is a number (stored as double in SACN) or a quantity
            {
                const std::string ra = quantityText(cx.rhs), rb = quantityText(cy.rhs);
                char* ea = nullptr; char* eb = nullptr;
                double va = strtod(ra.c_str(), &ea), vb = strtod(rb.c_str(), &eb);
                if (ea != ra.c_str() && *ea == 0 && eb != rb.c_str() && *eb == 0) d.real("action.cond.rhs", va, vb);
                else d.str("action.cond.rhs", ra, rb);
            }
            d.enm("action.cond.logic", cx.logic, cy.logic);
            d.enm("action.cond.cmp", cx.cmp, cy.cmp);
            d.exact("action.cond.left_paren", cx.left_paren, cy.left_paren);
            d.exact("action.cond.right_paren", cx.right_paren, cy.right_paren);
        }
        // keywords
        std::vector<std::string> ka, kb;
        for (const auto& kw : x) ka.push_back(kwText(kw));
        for (const auto& kw : y) kb.push_back(kwText(kw));
        for (const auto& kw : x) d.feat["action keyword:" + kw.name()]++;
        d.exact("action.keywords.count", ka.size(), kb.size());
        // (values are rendered in SI: a keyword that comes back in another unit system differs here, hence the unit in the key)
        for (size_t i = 0; i < ka.size() && i < kb.size(); ++i) d.str("action.keyword" + d.usfx, ka[i], kb[i]);
    }
}

static void cmpWlists(const Schedule& A, const Schedule& B, size_t k, Diff& d) {
    const auto& wa = A[k].wlist_manager();
    const auto& wb = B[k].wlist_manager();
    d.ctx = "WLIST";
    // EXCLUDED: well lists without wells (after WLIST ... DEL / MOV): IWLS / ZWLS store the lists per member well, an empty list
    // leaves no trace in the file.
    // The lists are found through the per-well index of both sides; what is compared is the content of each list (the per-well
    // index of the original is not: WLIST DEL leaves the list name behind in it although the well is gone from the list).
    std::set<std::string> names;
    for (const auto& w : A.wellNames(k)) {
        if (wa.hasWList(w)) for (const auto& l : wa.getWListNames(w)) names.insert(l);
        if (B.hasWell(w, k) && wb.hasWList(w)) for (const auto& l : wb.getWListNames(w)) names.insert(l);
    }
    for (const auto& l : names) {
        d.ctx = "WLIST " + l;
        std::string sa, sb;
        if (wa.hasList(l)) for (const auto& w : wa.getList(l).wells()) sa += w + " ";
        if (wb.hasList(l)) for (const auto& w : wb.getList(l).wells()) sb += w + " ";
        if (!sa.empty()) d.feat["wlist:non-empty list"]++;
        // Known defect of the ORIGINAL's bookkeeping: WListManager keeps, per well, the names of its lists in fixed slots plus a
        // counter; a well that leaves a list and joins it again is not counted again, and the next time it leaves, the counter
        // reaches zero and ALL its slots are cleared although it still is a member of other lists.  The restart writer goes by the
        // per-well slots.  That situation (a member of the list whose own slots do not name the list) gets its own key.
        bool slotsLost = false;
        if (wa.hasList(l)) for (const auto& w : wa.getList(l).wells()) {
            bool named = false;
            if (wa.hasWList(w)) for (const auto& n : wa.getWListNames(w)) if (n == l) named = true;
            if (!named) slotsLost = true;
        }
        d.str(slotsLost ? "wlist.wells:member-whose-own-slots-lost-the-list" : "wlist.wells", sa, sb);
    }
}

static void cmpNetwork(const Schedule& A, const Schedule& B, size_t k, Diff& d) {
    const auto& na = A[k].network();
    const auto& nb = B[k].network();
    d.ctx = "network";
    d.exact("network.active", na.active(), nb.active());
    if (!na.active() || !nb.active()) return;
    auto an = na.node_names(), bn = nb.node_names();
    std::sort(an.begin(), an.end()); std::sort(bn.begin(), bn.end());
    std::string sa, sb; for (auto& n : an) sa += n + " "; for (auto& n : bn) sb += n + " ";
    d.feat["network:active"]++;
    d.str("network.nodes", sa, sb);
    for (const auto& n : an) {
        if (!nb.has_node(n)) continue;
        d.ctx = "network node " + n;
        const auto& x = na.node(n);
        const auto& y = nb.node(n);
        d.exact("network.node.has_terminal_pressure", x.terminal_pressure().has_value(), y.terminal_pressure().has_value());
        if (x.terminal_pressure() && y.terminal_pressure()) d.real("network.node.terminal_pressure", *x.terminal_pressure(), *y.terminal_pressure());
        d.exact("network.node.as_choke", x.as_choke(), y.as_choke());
        d.exact("network.node.add_gas_lift_gas", x.add_gas_lift_gas(), y.add_gas_lift_gas());
        const auto ua = na.uptree_branch(n), ub = nb.uptree_branch(n);
        d.exact("network.branch.has_uptree", ua.has_value(), ub.has_value());
        if (ua && ub) {
            d.str("network.branch.uptree_node", ua->uptree_node(), ub->uptree_node());
            d.exact("network.branch.vfp_table", ua->vfp_table().value_or(-1), ub->vfp_table().value_or(-1));
        }
    }
}

static void cmpSchedule(const Schedule& A, const Schedule& B, size_t k, const SchedCmpOpts& opt, Diff& d) {
    d.ctx = "schedule";
    d.exact("step.start_time", (long long)TimeService::to_time_t(A[k].start_time()), (long long)TimeService::to_time_t(B[k].start_time()));
    {
        std::string sa, sb;
        for (auto& w : A.wellNames(k)) sa += w + " ";
        for (auto& w : B.wellNames(k)) sb += w + " ";
        d.str("wells.names", sa, sb);
        sa.clear(); sb.clear();
        for (auto& g : A.groupNames(k)) sa += g + " ";
        for (auto& g : B.groupNames(k)) sb += g + " ";
        d.str("groups.names", sa, sb);
    }
    for (const auto& wn : A.wellNames(k)) {
        if (!B.hasWell(wn, k)) continue;
        cmpWell(A.getWell(wn, k), B.getWell(wn, k), opt, d);
    }
    for (const auto& gn : A.groupNames(k)) {
        if (!B[k].groups.has(gn)) continue;
        cmpGroup(A.getGroup(gn, k), B.getGroup(gn, k), opt, d);
    }
    cmpWlists(A, B, k, d);
    cmpUDQ(A, B, k, opt, d);
    cmpActions(A, B, k, d);
    cmpNetwork(A, B, k, d);
}

// ------------------------------------------------------------------------------------------------------------------
// file flavours
// ------------------------------------------------------------------------------------------------------------------
struct Flavour { bool fmt, unif, dbl; std::string tag() const { return std::string(fmt ? "formatted" : "binary") + (unif ? "/unified" : "/separate") + (dbl ? "/double" : "/float"); } };

static std::string rstFileName(const std::string& dir, const std::string& base, int step, const Flavour& f) {
    char ext[16];
    if (f.unif) snprintf(ext, sizeof ext, "%s", f.fmt ? "FUNRST" : "UNRST");
    else snprintf(ext, sizeof ext, "%c%04d", f.fmt ? 'F' : 'X', step);
    return dir + "/" + base + "." + ext;
}

struct Expected {
    StepState state;
    SummaryState st;
    UDQState udq;
    Action::State as;
    Expected(const StepState& s, const SummaryState& a, const UDQState& u, const Action::State& x) : state(s), st(a), udq(u), as(x) {}
};

int main(int argc, char** argv) {
    vh::Args args = vh::parse_args(argc, argv);
    vh::Reporter rep(args, "C05");
    Parser parser;
    auto python = std::make_shared<Python>();
    const std::string scratch = vh::scratch_dir(args);
    const bool thorough = args.tier == "thorough";
    const int flavoursPerStep = (int)args.geti("flavours", thorough ? 8 : 3);
    const double pOtherCtrl = args.getd("other_ctrl", 0.25);
    const double pApply = args.getd("apply", 0.5);
    const bool explore = args.geti("explore", 0) != 0;
    g_allKeywords = args.geti("all_keywords", 0) != 0;
    const std::string skipKeys = args.get("skip", "");   // harness development only: comma separated key prefixes not reported

    auto report = [&](const std::string& key, const std::string& what, const std::string& witness) {
        if (!skipKeys.empty()) {
            std::istringstream is(skipKeys); std::string p;
            while (std::getline(is, p, ',')) if (!p.empty() && key.compare(0, p.size(), p) == 0) { rep.count("skipped_by_development_filter"); return; }
        }
        if (explore) { rep.cover("explore_diff", key); return; }
        rep.violation(key, what, witness);
    };

    rep.run_cases([&](long idx, Rng& rng) {
        // ---------------------------------------------------------------- model
        const int us = (int)(idx % 4);
        gdeck::Opts o;
        o.geoModifiers = false;
        o.minSteps = 3; o.maxSteps = 6;
        o.maxKwPerStep = 9;      // about half of the generator's keyword kinds are outside the validated set and are dropped below
        o.unitSystem = us < 3 ? us : 0;
        o.msw = rng.chance(0.6); o.udq = rng.chance(0.6); o.actions = rng.chance(0.6); o.network = rng.chance(0.5);
        gdeck::Generator gen(rng, o);
        gdeck::Model m = gen.generate();
        if (us == 3) {
            m.units = "PVT-M";
            // the VFP keywords accept METRIC / FIELD / LAB as units string only: default the item (= deck units)
            for (auto& st : m.steps) for (auto& kw : st.kws) if (kw.name == "VFPPROD" || kw.name == "VFPINJ") { size_t p = kw.text.find("'METRIC'"); if (p != std::string::npos) kw.text.replace(p, 8, "1*"); }
        }
        // VFPINJ refuses the units string 'LAB' ("Deck units are not equal VFPINJ table units") although VFPPROD accepts it: default it
        for (auto& st : m.steps) for (auto& kw : st.kws) if (kw.name == "VFPINJ") { size_t p = kw.text.find("'LAB' 'BHP'"); if (p != std::string::npos) kw.text.replace(p, 5, "1*"); }
        if (m.actnum.empty() && rng.chance(0.8)) {   // the statement wants inactive cells
            m.actnum.assign((size_t)m.nx * m.ny * m.nz, 1);
            // only cells no well passes through may be switched off afterwards
            std::set<std::pair<int, int>> used;
            for (auto& w : m.wells) used.insert({w.i, w.j});
            for (int k = 0; k < m.nz; ++k) for (int j = 0; j < m.ny; ++j) for (int i = 0; i < m.nx; ++i)
                if (!used.count({i + 1, j + 1}) && rng.chance(0.15)) m.actnum[(size_t)k * m.nx * m.ny + (size_t)j * m.nx + i] = 0;
        }
        // COMPSEGS of the generator measures the perforation range from 0 while its WELSEGS uses absolute lengths from 1990: every
        // connection would sit on the top segment.  Shift the ranges so that the connections are spread over the segments; with
        // shift 1995 the centre of a perforation coincides with a segment node, otherwise it lies between two nodes.
        const double segShift = 1990.0 + (rng.chance(0.6) ? 5.0 : 2.5 * (double)rng.below(4));
        for (auto& st : m.steps) for (auto& kw : st.kws) if (kw.name == "COMPSEGS") {
            std::istringstream is(kw.text); std::string line, out; int ln = 0;
            while (std::getline(is, line)) {
                int i, j, k, br; double a, b;
                if (ln >= 2 && sscanf(line.c_str(), " %d %d %d %d %lf %lf", &i, &j, &k, &br, &a, &b) == 6) {
                    std::ostringstream o; o << " " << i << " " << j << " " << k << " " << br << " " << gdeck::fmtd(a + segShift) << " " << gdeck::fmtd(b + segShift) << " /";
                    line = o.str();
                }
                out += line + "\n"; ++ln;
            }
            kw.text = out;
        }
        // The generator writes a two line ACTIONX condition as ONE record ("FOPR > 100 AND <newline> WWCT 'W*' < 0.9 /").  ACTIONX wants
        // one record per comparison; the library accepts the run-on record for evaluation but keeps only its first comparison in
        // the per-condition list the restart writer uses.  Terminate each comparison properly.
        for (auto& st : m.steps) for (auto& kw : st.kws) if (kw.name == "ACTIONX") {
            for (const char* op : {" AND\n", " OR\n"}) { size_t p = 0; const std::string o = op; while ((p = kw.text.find(o, p)) != std::string::npos) { kw.text.replace(p, o.size(), o.substr(0, o.size() - 1) + " /\n"); p += o.size() + 2; } }
        }
        // user defined arguments: the generator defines UDQs but never uses one as a control value.  After an ASSIGN of a well or
        // field level UDQ, give a producer defined earlier an oil rate target (and a group an oil target) that names it.
        if (rng.chance(0.5)) {
            std::map<std::string, size_t> wellStep;
            for (size_t q = 0; q < m.steps.size(); ++q) for (auto& kw : m.steps[q].kws) if (kw.name == "WELSPECS") { size_t a = kw.text.find('\''), b = kw.text.find('\'', a + 1); if (a != std::string::npos && b != std::string::npos) wellStep.emplace(kw.text.substr(a + 1, b - a - 1), q); }
            bool done = false;
            for (size_t q = 0; q < m.steps.size() && !done; ++q) {
                auto& kws = m.steps[q].kws;
                for (size_t z = 0; z < kws.size() && !done; ++z) {
                    if (kws[z].name != "UDQ") continue;
                    size_t a = kws[z].text.find("ASSIGN ");
                    if (a == std::string::npos) continue;
                    std::istringstream is(kws[z].text.substr(a + 7)); std::string uname; is >> uname;
                    if (uname.size() < 3 || (uname[0] != 'W' && uname[0] != 'F')) continue;
                    std::vector<const gdeck::WellM*> cand;
                    for (auto& w : m.wells) if (w.producer && !w.hist) { auto it = wellStep.find(w.name); if (it != wellStep.end() && it->second <= q) cand.push_back(&w); }
                    if (cand.empty()) continue;
                    const auto* w = cand[rng.below(cand.size())];
                    std::string t = "WCONPROD\n '" + w->name + "' 'OPEN' 'ORAT' '" + uname + "' 700 800 900 1000 90 /\n/\n";
                    if (uname[0] == 'F' && rng.chance(0.5)) t += "GCONPROD\n '" + w->group + "' 'ORAT' '" + uname + "' 3* 'RATE' /\n/\n";
                    kws.insert(kws.begin() + z + 1, gdeck::KwInst{"WCONPROD", t});
                    rep.count("cases_with_uda");
                    // ... and an action that takes the user defined argument away again: applied at run time after a file has been
                    // written with the argument in use, the later files must no longer list that use.
                    if (rng.chance(0.6)) {
                        std::string a2 = "ACTIONX\n 'UDAOFF' 3 0 /\n FOPR > 0 /\n/\n";
                        if (rng.chance(0.5)) a2 += "WCONPROD\n '" + w->name + "' 'OPEN' 'ORAT' 450 700 800 900 1000 90 /\n/\n";
                        else a2 += "WELTARG\n '" + w->name + "' 'ORAT' 450 /\n/\n";
                        a2 += "ENDACTIO\n";
                        const size_t q2 = q + rng.below(std::min<size_t>(2, m.steps.size() - q));
                        if (q2 == q) kws.insert(kws.begin() + z + 2, gdeck::KwInst{"ACTIONX", a2}); else m.steps[q2].kws.push_back(gdeck::KwInst{"ACTIONX", a2});
                        rep.count("cases_with_action_removing_uda");
                    }
                    done = true;
                }
            }
        }
        // a well that is declared and completed but not yet given any control (common in real decks, never produced by the generator)
        if (!m.wells.empty() && rng.chance(0.15)) {
            const auto& w0 = m.wells[rng.below(m.wells.size())];
            if (!w0.ks.empty()) {
                const size_t at = rng.below(m.steps.size());
                std::ostringstream o;
                o << "WELSPECS\n 'WBARE' '" << w0.group << "' " << w0.i << " " << w0.j << " 1* '" << (rng.chance(0.7) ? "OIL" : "WATER") << "' /\n/\nCOMPDAT\n 'WBARE' " << w0.i << " " << w0.j << " " << w0.ks.front() << " " << w0.ks.front() << " 'OPEN' 1* 1* 0.3 /\n/\n";
                // must come after the definition of the group's first well in the same step: append
                m.steps[at].kws.push_back({"WELSPECS", o.str()});
                rep.count("cases_with_uncontrolled_well");
            }
        }
        for (auto& st : m.steps) {
            std::vector<gdeck::KwInst> keep;
            for (auto& kw : st.kws) { const std::string why = excludedKeyword(kw); if (!why.empty()) rep.cover("excluded_keyword", why); else keep.push_back(kw); }
            st.kws = keep;
        }
        const std::string base = "C05CASE";
        // the generator's WELLDIMS leaves item 11 (well lists per well) at its default 1 although it puts wells into up to three lists
        auto staticPart = [&]() { std::string sp = m.staticPart(); const std::string wd = "WELLDIMS\n 30 20 15 30 /"; auto p = sp.find(wd); if (p != std::string::npos) sp.replace(p, wd.size(), "WELLDIMS\n 30 20 15 30 6* 8 8 /"); return sp; };
        const std::string text = staticPart() + "SCHEDULE\n" + m.scheduleText();
        const uint64_t caseHash = vh::fnv(text);
        Built F;
        try {
            F.deck = std::make_unique<Deck>(parser.parseString(text));
            F.es = std::make_unique<EclipseState>(*F.deck);
            F.es->getIOConfig().setEclCompatibleRST(false);
            F.sched = std::make_unique<Schedule>(*F.deck, *F.es, python);
        } catch (const std::exception& e) {
            rep.count("base_refused"); rep.cover("base_refused_why", errClass(e.what()));
            if (args.replaying) fprintf(stderr, "REFUSED: %s\n%s\n", e.what(), text.c_str());
            rep.case_done(caseHash, false);
            return;
        }
        Schedule& sched = *F.sched;
        const EclipseState& es = *F.es;
        const auto& grid = es.getInputGrid();
        const auto& units = es.getUnits();
        const size_t N = sched.size() - 1;
        if (N != m.steps.size()) { rep.count("step_count_mismatch"); rep.case_done(caseHash, false); return; }
        for (auto& st : m.steps) for (auto& kw : st.kws) rep.cover("schedule_keyword", kw.name);
        rep.cover("unit_system", USYS[us]);

        const std::string dir = scratch + "/case";
        std::error_code ec; fs::remove_all(dir, ec); fs::create_directories(dir);
        std::unique_ptr<SummaryConfig> scfg;
        std::unique_ptr<out::Summary> summary;
        try {
            scfg = std::make_unique<SummaryConfig>(*F.deck, sched, es.fieldProps(), es.aquifer());
            summary = std::make_unique<out::Summary>(*scfg, es, grid, sched, dir + "/" + base);
        } catch (const std::exception& e) { rep.count("summary_refused"); rep.cover("summary_refused_why", errClass(e.what())); rep.case_done(caseHash, false); return; }

        const double undef = sched.getUDQConfig(0).params().undefinedValue();
        SummaryState st(TimeService::from_time_t(sched.getStartTime()), undef);
        UDQState udq_state(undef);
        Action::State action_state;
        WellTestState wtest;
        const std::time_t start = sched.getStartTime();

        std::ostringstream trace;
        trace << "unit system " << USYS[us] << "\n";
        long nDyn = 0, nSched = 0, nFlowing = 0;
        bool sawMsw = false, sawUdq = false, sawAct = false, sawInactive = grid.getNumActive() < grid.getCartesianSize();
        std::set<std::string> flavoursUsed;
        std::vector<std::unique_ptr<Expected>> expected(N + 1);
        std::map<std::string, std::vector<int>> unifiedWritten;    // flavour tag -> steps in the file

        try { summary->eval(st, 0, 0.0, {}, {}, {}, {}, {}, {}); } catch (const std::exception& e) { rep.count("summary_eval0_refused"); rep.case_done(caseHash, false); return; }

        // compare one loaded file against what was saved
        auto checkDynamic = [&](int n, const Flavour& fl, const Expected& X, const std::string& fname, const std::string& tag) {
            const size_t simStep = n - 1;
            SummaryState st2(TimeService::from_time_t(sched.getStartTime()), undef);
            Action::State as2;
            std::vector<RestartKey> keys, ekeys;
            for (const auto& a : X.state.sol) if (!a.isInt) keys.emplace_back(a.name, a.dim, true);
            for (const auto& e : X.state.extra) ekeys.emplace_back(e.name, e.dim, true);
            RestartValue rv;
            try { rv = RestartIO::load(fname, n, as2, st2, keys, es, grid, sched, ekeys); }
            catch (const std::exception& e) { report("dyn:load-throws", tag + "RestartIO::load threw: " + e.what(), trace.str() + text); return; }
            Diff d;
            auto outTol = [&](const std::string& key, M dim, double saved, double got, bool floatStored) {
                ++d.ncmp;
                // reference: what the file holds (saved value in output units, rounded to the stored precision) back in SI
                const double so = units.from_si(dim, saved);
                const double go = units.from_si(dim, got);
                if (floatStored) {
                    // single precision in output units: <= 2 ulp(float)
                    if (!(std::fabs(go - so) <= 2.0 * ulpF(so) || got == saved)) d.add(key, "saved " + num(saved) + " loaded " + num(got) + " (SI); in output units " + num(so) + " vs " + num(go));
                    rep.maxof("max_float_err_ulp", ulpF(so) > 0 ? std::fabs(go - so) / ulpF(so) : 0.0);
                } else if (fl.fmt) {
                    // formatted DOUB is a decimal number with 14 significant digits (0.dddddddddddddd D+ee): relative error <= 5e-14 in
                    // output units; 1e-13 leaves room for the two unit conversions
                    if (!(std::fabs(go - so) <= 1e-13 * std::fabs(so) || got == saved)) d.add(key, "saved " + num(saved) + " loaded " + num(got) + " (SI); in output units " + num(so) + " vs " + num(go));
                    rep.maxof("max_formatted_doub_rel_err", so != 0 ? std::fabs(go - so) / std::fabs(so) : 0.0);
                } else {
                    const double ref = units.to_si(dim, so);
                    if (!(got == ref)) d.add(key, "saved " + num(saved) + " loaded " + num(got) + " expected exactly " + num(ref) + " (= to_si(from_si(saved)))");
                }
            };
            // a number that travels through a DOUB array without unit conversion on either side (summary state, UDQ values)
            auto sameDoub = [&](double a, double b) { return a == b || (fl.fmt && std::fabs(a - b) <= 1e-13 * std::fabs(a)); };
            // ---- solution arrays
            for (const auto& a : X.state.sol) {
                d.ctx = tag + "solution " + a.name;
                // EXCLUDED: integer solution arrays.  They are written (INTE) but RestartIO::load only looks for REAL / DOUB arrays, a
                // requested INTE array is reported as missing; no simulator restarts from one.  The array stays in the file as context.
                if (a.isInt) continue;
                if (!rv.solution.has(a.name)) { d.add("dyn:solution.missing:" + a.name, "not restored"); continue; }
                const auto& got = rv.solution.data<double>(a.name);
                const size_t want = a.isInt ? a.iv.size() : a.v.size();
                if (got.size() != want) { d.add("dyn:solution.size:" + a.name, std::to_string(got.size()) + " vs " + std::to_string(want)); continue; }
                int bad = 0;
                for (size_t i = 0; i < want && bad < 3; ++i) {
                    size_t before = d.items.size();
                    if (a.isInt) { ++d.ncmp; if (got[i] != (double)a.iv[i]) d.add("dyn:solution.int:" + a.name, "cell " + std::to_string(i) + " saved " + std::to_string(a.iv[i]) + " loaded " + num(got[i])); }
                    else outTol(std::string("dyn:solution.") + (fl.dbl ? "double:" : "float:") + a.name + ":" + USYS[us], a.dim, a.v[i], got[i], !fl.dbl);
                    if (d.items.size() > before) { d.items.back().second += " [active cell " + std::to_string(i) + "]"; ++bad; }
                }
            }
            // ---- extra arrays (always DOUB)
            for (const auto& e : X.state.extra) {
                d.ctx = tag + "extra " + e.name;
                if (!rv.hasExtra(e.name)) { d.add("dyn:extra.missing:" + e.name, "not restored"); continue; }
                const auto& got = rv.getExtra(e.name);
                if (got.size() != e.v.size()) { d.add("dyn:extra.size:" + e.name, std::to_string(got.size()) + " vs " + std::to_string(e.v.size())); continue; }
                int bad = 0;
                for (size_t i = 0; i < e.v.size() && bad < 3; ++i) { size_t before = d.items.size(); outTol("dyn:extra:" + e.name + ":" + USYS[us], e.dim, e.v[i], got[i], false); if (d.items.size() > before) ++bad; }
            }
            // ---- wells
            const auto& wells = sched.getWells(simStep);
            for (const auto& w : wells) {
                const auto& xw = X.state.wells.at(w.name());
                d.ctx = tag + "well " + w.name();
                auto it = rv.wells.find(w.name());
                if (it == rv.wells.end()) { d.add("dyn:well.missing", "not restored"); continue; }
                const auto& yw = it->second;
                // Guard: only flowing wells are compared (statement)
                if (xw.dynamicStatus != Well::Status::OPEN) continue;
                ++nFlowing;
                const std::string U_ = std::string(":") + USYS[us];
                // XWEL / XCON / RSEG are DOUB arrays: what comes back differs from what was saved by the roundings of the two unit
                // conversions (binary, 1e-14) or by the 14 significant digits of a formatted DOUB (2e-13), far inside the single
                // precision the statement asks for
                const double dtol = fl.fmt ? 2e-13 : 1e-14;
                auto eqD = [&](double a, double b) { return eqRel(a, b, dtol); };
                // rates, bhp, thp travel through DOUB XWEL in output units
                for (auto [p, nm, dim] : {std::tuple{ROpt::oil, "oil", M::liquid_surface_rate}, std::tuple{ROpt::wat, "wat", M::liquid_surface_rate}, std::tuple{ROpt::gas, "gas", M::gas_surface_rate}}) {
                    ++d.ncmp;
                    const double a = xw.rates.get(p, 0.0), b = yw.rates.get(p, 0.0);
                    if (!eqD(a, b)) d.add(std::string("dyn:well.rate.") + nm + U_, "saved " + num(a) + " loaded " + num(b));
                    else rep.maxof("max_rel_err_well_rate", a != 0 ? std::fabs(a - b) / std::fabs(a) : 0);
                }
                ++d.ncmp; if (!eqD(xw.bhp, yw.bhp)) d.add("dyn:well.bhp" + U_, "saved " + num(xw.bhp) + " loaded " + num(yw.bhp));
                ++d.ncmp; if (!eqD(xw.thp, yw.thp)) d.add("dyn:well.thp" + U_, "saved " + num(xw.thp) + " loaded " + num(yw.thp));
                ++d.ncmp;
                if (!(yw.current_control == xw.current_control)) {
                    std::ostringstream q; q << "saved " << (xw.current_control.isProducer ? "producer " + std::to_string((int)xw.current_control.prod) : "injector " + std::to_string((int)xw.current_control.inj))
                                            << " loaded " << (yw.current_control.isProducer ? "producer " + std::to_string((int)yw.current_control.prod) : "injector " + std::to_string((int)yw.current_control.inj));
                    d.add(std::string("dyn:well.active_control:") + (xw.current_control.isProducer ? "producer" : "injector"), q.str());
                }
                rep.cover("active_control", xw.current_control.isProducer ? "producer:" + std::to_string((int)xw.current_control.prod) : "injector:" + std::to_string((int)xw.current_control.inj));
                for (const auto& xc : xw.connections) {
                    const auto* yc = yw.find_connection(xc.index);
                    ++d.ncmp;
                    if (!yc) { d.add("dyn:conn.missing", "connection in cell " + std::to_string(xc.index) + " not restored"); continue; }
                    for (auto [p, nm] : {std::pair{ROpt::oil, "oil"}, std::pair{ROpt::wat, "wat"}, std::pair{ROpt::gas, "gas"}}) {
                        ++d.ncmp;
                        const double a = xc.rates.get(p, 0.0), b = yc->rates.get(p, 0.0);
                        if (!eqD(a, b)) d.add(std::string("dyn:conn.rate.") + nm + U_, "cell " + std::to_string(xc.index) + " saved " + num(a) + " loaded " + num(b));
                    }
                    ++d.ncmp; if (!eqD(xc.pressure, yc->pressure)) d.add("dyn:conn.pressure" + U_, "cell " + std::to_string(xc.index) + " saved " + num(xc.pressure) + " loaded " + num(yc->pressure));
                }
                if (w.isMultiSegment()) {
                    sawMsw = true;
                    for (const auto& [sn, xs] : xw.segments) {
                        auto sit = yw.segments.find(sn);
                        ++d.ncmp;
                        if (sit == yw.segments.end()) { d.add("dyn:segment.missing", "segment " + std::to_string(sn) + " not restored"); continue; }
                        const auto& ys = sit->second;
                        const double pa = xs.pressures[data::SegmentPressures::Value::Pressure], pb = ys.pressures[data::SegmentPressures::Value::Pressure];
                        ++d.ncmp; if (!eqD(pa, pb)) d.add("dyn:segment.pressure" + U_, "segment " + std::to_string(sn) + " saved " + num(pa) + " loaded " + num(pb));
                        // phase rates are stored as total flow and two fractions (all DOUB) and recombined by the loader (oil by
                        // difference): 1e-9 relative - the design allowed 1e-5, the largest error seen in the validation runs is 6e-13
                        // (reported as max_rel_err_segment_rate; the generated phase rates are within a factor 1e3 of each other)
                        for (auto [p, nm, dim] : {std::tuple{ROpt::oil, "oil", M::liquid_surface_rate}, std::tuple{ROpt::wat, "wat", M::liquid_surface_rate}, std::tuple{ROpt::gas, "gas", M::gas_surface_rate}}) {
                            ++d.ncmp;
                            const double a = xs.rates.get(p, 0.0), b = ys.rates.get(p, 0.0);
                            if (a != 0 && std::fabs(a - b) <= 1e-9 * std::fabs(a)) rep.maxof("max_rel_err_segment_rate", std::fabs(a - b) / std::fabs(a));
                            if (!(std::fabs(a - b) <= 1e-9 * std::fabs(a) || a == b)) d.add(std::string("dyn:segment.rate.") + nm + U_, "segment " + std::to_string(sn) + " saved " + num(a) + " loaded " + num(b));
                        }
                    }
                }
            }
            // ---- cumulative totals (DOUB XWEL / XGRP, summary state in output units on both sides: exact)
            static const char* wtot[] = {"WOPT", "WWPT", "WGPT", "WVPT", "WWIT", "WGIT", "WVIT", "WOPTH", "WWPTH", "WGPTH", "WWITH", "WGITH", "WOPTS", "WGPTS"};
            static const char* gtot[] = {"OPT", "WPT", "GPT", "VPT", "WIT", "GIT", "VIT", "OPTH", "WPTH", "GPTH", "WITH", "GITH", "OPTS", "GPTS"};
            for (const auto& wn : sched.wellNames(simStep))
                for (const char* k : wtot) if (X.st.has_well_var(wn, k)) {
                    ++d.ncmp; d.ctx = tag + "well " + wn;
                    const double a = X.st.get_well_var(wn, k);
                    if (!st2.has_well_var(wn, k)) d.add(std::string("dyn:total.well.missing:") + k, "saved " + num(a));
                    else if (!sameDoub(a, st2.get_well_var(wn, k))) d.add(std::string("dyn:total.well:") + k, "saved " + num(a) + " loaded " + num(st2.get_well_var(wn, k)));
                }
            for (const auto& gn : sched.groupNames(simStep))
                for (const char* k : gtot) {
                    const bool field = gn == "FIELD";
                    const std::string key = std::string(field ? "F" : "G") + k;
                    const bool has = field ? X.st.has(key) : X.st.has_group_var(gn, key);
                    if (!has) continue;
                    ++d.ncmp; d.ctx = tag + "group " + gn;
                    const double a = field ? X.st.get(key) : X.st.get_group_var(gn, key);
                    const bool has2 = field ? st2.has(key) : st2.has_group_var(gn, key);
                    if (!has2) d.add("dyn:total.group.missing:" + key, "saved " + num(a));
                    else { const double b = field ? st2.get(key) : st2.get_group_var(gn, key); if (!sameDoub(a, b)) d.add("dyn:total.group:" + key, "saved " + num(a) + " loaded " + num(b)); }
                }
            // ---- UDQ values as the loader puts them into the summary state (DUDW / DUDF are DOUB, no unit conversion)
            for (const auto& in : sched.getUDQConfig(simStep).input()) {
                const std::string& k = in.keyword();
                const auto vt = in.var_type();
                d.ctx = tag + "UDQ " + k;
                auto one = [&](bool savedHas, double saved, bool has2, double got, const std::string& who) {
                    ++d.ncmp;
                    const bool savedDef = savedHas && saved != undef;
                    if (savedDef && !has2) d.add("dyn:udq.summary.missing", who + " saved " + num(saved));
                    else if (savedDef && !sameDoub(saved, got)) d.add("dyn:udq.summary.value", who + " saved " + num(saved) + " loaded " + num(got));
                    else if (!savedDef && has2 && got != undef) d.add("dyn:udq.summary.value-for-undefined", who + " loaded " + num(got));
                };
                if (vt == UDQVarType::WELL_VAR) {
                    for (const auto& wn : sched.wellNames(simStep)) {
                        const bool h = X.udq.has_well_var(wn, k), h2 = st2.has_well_var(wn, k);
                        one(h, h ? X.udq.get_well_var(wn, k) : undef, h2, h2 ? st2.get_well_var(wn, k) : undef, "well " + wn);
                    }
                } else if (vt == UDQVarType::FIELD_VAR || vt == UDQVarType::SCALAR) {
                    const bool h = X.udq.has(k), h2 = st2.has(k);
                    one(h, h ? X.udq.get(k) : undef, h2, h2 ? st2.get(k) : undef, "field");
                }
            }
            nDyn += d.ncmp;
            rep.count("dynamic_comparisons", d.ncmp);
            std::set<std::string> seen;
            for (auto& it : d.items) if (seen.insert(it.first).second) report(it.first, it.second, trace.str() + "--- state saved at report step " + std::to_string(n) + " ---\n" + stateText(X.state) + "--- deck ---\n" + text);
        };

        // ---------------------------------------------------------------- the run
        for (int n = 1; n <= (int)N; ++n) {
            const size_t simStep = n - 1;
            StepState S;
            try {
                S = makeState(sched, grid, simStep, st, rng, pOtherCtrl);
                summary->eval(st, n, sched.seconds(n), S.wells, {}, {}, {}, {}, {});
                auto segF = [&]() { return std::make_unique<SegmentMatcher>(sched[simStep]); };
                auto regF = []() { return std::make_unique<RegionSetMatcher>(FIPRegionStatistics{}); };
                sched.getUDQConfig(simStep).eval(simStep, sched.wellMatcher(simStep), segF, regF, st, udq_state);
            } catch (const std::exception& e) {
                rep.count("simulator_step_refused"); rep.cover("simulator_step_refused_why", errClass(e.what()));
                if (args.replaying) fprintf(stderr, "step %d refused: %s\n", n, e.what());
                break;
            }
            if (sched.getUDQConfig(simStep).size() > 0) sawUdq = true;
            if (sched[simStep].actions().ecl_size() > 0) sawAct = true;
            expected[n] = std::make_unique<Expected>(S, st, udq_state, action_state);
            const Expected& X = *expected[n];
            trace << "report step " << n << ": " << S.wells.size() << " wells, UDQs " << sched.getUDQConfig(simStep).size() << ", actions " << sched[simStep].actions().ecl_size() << "\n";

            // flavours for this step: a rotating subset so that all eight are met over steps and cases
            std::vector<Flavour> fls;
            for (int q = 0; q < 8 && (int)fls.size() < flavoursPerStep; ++q) { int c = (int)((idx / 4 + n * 3 + q * 3) % 8); Flavour f{(c & 1) != 0, (c & 2) != 0, (c & 4) != 0}; bool dup = false; for (auto& g : fls) if (g.fmt == f.fmt && g.unif == f.unif && g.dbl == f.dbl) dup = true; if (!dup) fls.push_back(f); }
            bool schedDone = false;
            for (const auto& fl : fls) {
                const std::string fbase = base + (fl.dbl ? "D" : "S");      // double / single files do not share a unified file
                const std::string tag = "[" + std::string(USYS[us]) + " " + fl.tag() + " report step " + std::to_string(n) + "] ";
                flavoursUsed.insert(fl.tag());
                rep.cover("flavour", fl.tag());
                data::Solution sol;
                for (const auto& a : S.sol) { if (a.isInt) sol.insert(a.name, a.iv, a.target); else sol.insert(a.name, a.dim, a.v, a.target); }
                RestartValue value(sol, S.wells, {}, {});
                for (const auto& e : S.extra) value.addExtra(e.name, e.dim, e.v);
                try {
                    EclIO::OutputStream::Restart rstFile{EclIO::OutputStream::ResultSet{dir, fbase}, n, EclIO::OutputStream::Formatted{fl.fmt}, EclIO::OutputStream::Unified{fl.unif}};
                    std::optional<RestartIO::Helpers::AggregateAquiferData> aq;
                    RestartIO::save(rstFile, n, sched.seconds(n), value, es, grid, sched, action_state, wtest, st, udq_state, aq, fl.dbl);
                } catch (const std::exception& e) {
                    report("dyn:save-throws", tag + "RestartIO::save threw: " + e.what(), trace.str() + text);
                    continue;
                }
                rep.count("files_written");
                if (fl.unif) unifiedWritten[fl.tag()].push_back(n);
                const std::string fname = rstFileName(dir, fbase, n, fl);
                checkDynamic(n, fl, X, fname, tag);

                // ---- UDQ values and ACTIONX run records + the restarted schedule: once per step (they do not depend on write_double;
                //      the flavour rotates with the step)
                if (schedDone) continue;
                schedDone = true;
                const bool skiprest = rng.chance(0.7);
                // with SKIPREST the complete schedule section is given and the reader skips to the restart date; without it the section
                // must start at the restart date (ScheduleDeck puts its first keyword into the block of the restart step), so only the
                // steps n.. are given, preceded by the tables the skipped part had defined (SKIPREST keeps exactly those too)
                std::string t2;
                if (skiprest) t2 = staticPart() + "SCHEDULE\nSKIPREST\n" + m.scheduleText();
                else {
                    t2 = staticPart() + "SCHEDULE\n";
                    for (size_t q = 0; q < (size_t)n && q < m.steps.size(); ++q) for (auto& kw : m.steps[q].kws) if (kw.name == "VFPPROD") t2 += kw.text;
                    for (size_t q = n; q < m.steps.size(); ++q) { for (auto& kw : m.steps[q].kws) t2 += kw.text; t2 += m.steps[q].timeKw; }
                }
                { auto p = t2.find("SOLUTION\n"); t2.insert(p + 9, "RESTART\n '" + dir + "/" + fbase + "' " + std::to_string(n) + " /\n"); }
                { auto p = t2.find("UNIFOUT\nUNIFIN\n"); t2.replace(p, 15, std::string(fl.unif ? "UNIFOUT\nUNIFIN\n" : "") + (fl.fmt ? "FMTOUT\nFMTIN\n" : "")); }
                rep.cover("skiprest", skiprest ? "yes" : "no");
                std::unique_ptr<Schedule> rsched;
                std::unique_ptr<RestartIO::RstState> rst;
                try {
                    auto deck2 = parser.parseString(t2);
                    EclipseState es2(deck2);
                    auto rst_file = std::make_shared<EclIO::ERst>(fname);
                    auto rst_view = std::make_shared<EclIO::RestartFileView>(std::move(rst_file), n);
                    rst = std::make_unique<RestartIO::RstState>(RestartIO::RstState::load(std::move(rst_view), es2.runspec(), parser));
                    rsched = std::make_unique<Schedule>(deck2, es2, python, false, false, true, std::nullopt, rst.get());
                } catch (const std::exception& e) {
                    const std::string msg = e.what();
                    // the restart date is taken from year / month / day of INTEHEAD only: a report step that is not at midnight cannot be
                    // found again in the schedule section
                    const bool timeOfDay = std::fmod(sched.seconds(n), 86400.0) != 0.0 && msg.find("SKIPREST") != std::string::npos;
                    // documented exclusion (a UDA the keyword handlers leave as a placeholder is unset in the restarted well): WTMULT on a
                    // limit that is not in the well's control set multiplies the placeholder in the original and is refused after restart
                    if (msg.find("Problem with keyword WTMULT") != std::string::npos) { rep.count("restart_refused_wtmult_on_unset_limit"); continue; }
                    // documented exclusion (empty well lists leave no trace in the file): a later WLIST ADD to such a list is refused
                    if (msg.find("Invalid well list") != std::string::npos) {
                        bool emptyList = false;
                        for (const char* l : {"*L1", "*L2", "*L3", "*AL0", "*AL1", "*AL2", "*QL0", "*QL1"}) if (sched[simStep].wlist_manager().hasList(l) && sched[simStep].wlist_manager().getList(l).size() == 0) emptyList = true;
                        if (emptyList) { rep.count("restart_refused_because_of_empty_well_list"); continue; }
                    }
                    const bool noCtrl = msg.find("Cannot convert integer value -10 to") != std::string::npos;   // -10 = WMCtlUnk, a well that has no control mode yet
                    report(timeOfDay ? "sched:restart-time-of-day-lost" : (noCtrl ? "sched:restart-refused:well-without-control-mode" : "sched:restart-construction-throws:" + errClass(msg)), tag + "building the restarted schedule threw: " + msg, trace.str() + "--- deck ---\n" + text + "--- restart deck ---\n" + t2);
                    continue;
                }
                rep.count("restarted_schedules");
                // UDQ values and action state as the simulator restores them
                {
                    Diff d;
                    auto sameDoub = [&](double a, double b) { return a == b || (fl.fmt && std::fabs(a - b) <= 1e-13 * std::fabs(a)); };
                    UDQState udq2(undef);
                    Action::State as3;
                    try {
                        udq2.load_rst(*rst);
                        as3.load_rst((*rsched)[simStep].actions(), *rst);
                    } catch (const std::exception& e) { d.ctx = tag; d.add("dyn:state-load_rst-throws", e.what()); }
                    const auto& ucfg = sched.getUDQConfig(simStep);
                    for (const auto& in : ucfg.input()) {
                        const std::string& k = in.keyword();
                        const auto vt = in.var_type();
                        d.ctx = tag + "UDQ " + k;
                        if (vt == UDQVarType::WELL_VAR) {
                            for (const auto& wn : sched.wellNames(simStep)) {
                                if (!X.udq.has_well_var(wn, k)) continue;
                                const double a = X.udq.get_well_var(wn, k);
                                ++d.ncmp;
                                const bool h = udq2.has_well_var(wn, k);
                                if (!h) d.add("dyn:udq.well.missing", "well " + wn + " saved " + num(a));
                                else if (!sameDoub(a, udq2.get_well_var(wn, k))) d.add("dyn:udq.well.value", "well " + wn + " saved " + num(a) + " loaded " + num(udq2.get_well_var(wn, k)));
                                rep.count("udq_values_compared");
                            }
                        } else if (vt == UDQVarType::FIELD_VAR || vt == UDQVarType::SCALAR) {
                            if (!X.udq.has(k)) continue;
                            const double a = X.udq.get(k);
                            ++d.ncmp;
                            if (!udq2.has(k)) d.add("dyn:udq.field.missing", "saved " + num(a));
                            else if (!sameDoub(a, udq2.get(k))) d.add("dyn:udq.field.value", "saved " + num(a) + " loaded " + num(udq2.get(k)));
                            rep.count("udq_values_compared");
                        }
                    }
                    const double t_now = sched.seconds(n);
                    for (const auto& act : sched[simStep].actions()) {
                        d.ctx = tag + "ACTIONX " + act.name();
                        const auto& ract = (*rsched)[simStep].actions();
                        ++d.ncmp;
                        if (!ract.has(act.name())) { d.add("dyn:action.missing", "not in the restarted schedule at the restart step"); continue; }
                        const auto& a2 = ract[act.name()];
                        const size_t ca = X.as.run_count(act), cb = as3.run_count(a2);
                        if (ca != cb) d.add("dyn:action.run_count", "saved " + std::to_string(ca) + " loaded " + std::to_string(cb));
                        rep.count("action_records_compared");
                        if (ca > 0 && cb > 0) {
                            // run time: elapsed time stored in a REAL (SACT) in the deck's time unit
                            const double ta = (double)(X.as.run_time(act) - start), tb = (double)(as3.run_time(a2) - start);
                            ++d.ncmp;
                            const double ua = units.from_si(M::time, ta);
                            const double tolS = units.to_si(M::time, 2.0 * ulpF(ua)) + 1.0;   // + 1 s: time_t truncation
                            if (std::fabs(ta - tb) > tolS) d.add("dyn:action.run_time", "saved " + num(ta) + " s after start, loaded " + num(tb) + " (now " + num(t_now) + ")");
                        }
                    }
                    nDyn += d.ncmp;
                    rep.count("dynamic_comparisons", d.ncmp);
                    std::set<std::string> seen;
                    for (auto& it : d.items) if (seen.insert(it.first).second) report(it.first, it.second, trace.str() + "--- deck ---\n" + text);
                }
                // ---- part 2
                {
                    SchedCmpOpts so;
                    so.activeCtrlDiffers = S.activeCtrlDiffers; so.notFlowing = S.notFlowing; so.st = &st;
                    so.rstWells = sched.wellNames(simStep); so.rstGroups = sched.groupNames(simStep); so.udq = &udq_state;
                    Diff d;
                    if (rsched->size() != sched.size()) { d.ctx = tag; d.add("sched:size", std::to_string(sched.size()) + " vs " + std::to_string(rsched->size())); }
                    else for (size_t k = n; k < sched.size(); ++k) {
                        Diff dk;
                        dk.usfx = std::string(":") + USYS[us];
                        try { cmpSchedule(sched, *rsched, k, so, dk); }
                        catch (const std::exception& e) { dk.add("getter-throws:" + errClass(e.what()), std::string("a getter of the original or the restarted schedule threw: ") + e.what()); }
                        rep.count("uda_set_on_one_side_only", dk.udaDefinednessDiffers);
                        d.ncmp += dk.ncmp;
                        for (auto& f : dk.feat) rep.cover("compared_schedule_content", f.first, f.second);
                        for (auto& it : dk.items) d.items.emplace_back("sched:" + it.first, tag + "at report step " + std::to_string(k) + ": " + it.second);
                        rep.count("schedule_states_compared");
                    }
                    nSched += d.ncmp;
                    rep.count("schedule_field_comparisons", d.ncmp);
                    // one defect, one key: without SKIPREST the lost time of day shows as shifted report step times
                    if (std::fmod(sched.seconds(n), 86400.0) != 0.0) for (auto& it : d.items) if (it.first == "sched:step.start_time" || it.first == "sched:size") it.first = "sched:restart-time-of-day-lost";
                    std::set<std::string> seen;
                    for (auto& it : d.items) if (seen.insert(it.first).second) report(it.first, it.second, trace.str() + "--- all differences ---\n" + [&] { std::string s; int c = 0; for (auto& q : d.items) if (c++ < 40) s += q.second + "\n"; return s; }() + "--- deck ---\n" + text);
                }
            }

            // ---- actions that trigger at the end of this report step (recorded after the file of this step is written)
            {
                const std::time_t now = start + (std::time_t)sched.seconds(n);
                const auto pend = sched[simStep].actions().pending(action_state, now);
                for (const auto* act : pend) {
                    if (!rng.chance(0.5)) continue;
                    std::vector<std::string> ws;
                    for (const auto& wn : sched.wellNames(simStep)) if (rng.chance(0.5)) ws.push_back(wn);
                    auto res = Action::Result{true}.wells(ws);
                    action_state.add_run(*act, now, res);
                    rep.count("action_runs_recorded");
                    trace << "   ACTIONX " << act->name() << " recorded as run at the end of report step " << n << "\n";
                    if (pApply > 0 && rng.chance(pApply) && (size_t)n < sched.size()) {
                        try { sched.applyAction(n, *act, res.matches(), std::unordered_map<std::string, double>{}); rep.count("actions_applied"); trace << "      and applied to the schedule from report step " << n << "\n"; }
                        catch (const std::exception& e) { rep.count("apply_refused"); }
                    }
                }
            }
        }

        // ---- a complete unified file: reload an earlier step from a file that holds later steps as well
        for (const auto& [ftag, steps] : unifiedWritten) {
            if (steps.size() < 2) continue;
            const int n = steps[rng.below(steps.size() - 1)];
            if (!expected[n]) continue;
            Flavour fl{ftag.find("formatted") == 0, true, ftag.find("double") != std::string::npos};
            const std::string fbase = base + (fl.dbl ? "D" : "S");
            checkDynamic(n, fl, *expected[n], rstFileName(dir, fbase, n, fl), "[" + std::string(USYS[us]) + " " + ftag + " report step " + std::to_string(n) + " re-read from the complete file] ");
            rep.count("rereads_from_complete_unified_file");
        }

        if (sawMsw) rep.count("cases_with_msw");
        if (sawUdq) rep.count("cases_with_udq");
        if (sawAct) rep.count("cases_with_actionx");
        if (sawInactive) rep.count("cases_with_inactive_cells");
        rep.maxof("max_wells", (double)sched.numWells());
        const bool nontrivial = nFlowing >= 2 && nDyn > 0 && nSched > 0;
        rep.case_done(caseHash ^ (uint64_t)us, nontrivial);
        if (idx < 2) rep.sample(trace.str() + text.substr(text.find("SCHEDULE")));
        fs::remove_all(dir, ec);
    });
    rep.finish();
    return 0;
}
