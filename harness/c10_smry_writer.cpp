// C10 — every summary value written can be read back (the real writer: Opm::out::Summary).
//
// A small deck (grid up to 20x20x12, wells, groups, SUMMARY section with BPR for up to ~4500 cells plus well /
// group / field vectors, FMTOUT x UNIFOUT, four unit systems, START with time of day, optionally RESTART from a
// base run, nested once) is parsed, out::Summary is driven through eval / add_timestep / write with generated
// block pressures and well rates, and the values the SummaryState held at every add_timestep are the oracle for
// what ESmry (whole file, direct seek), the SMSPEC->ESMRY conversion and the ESMRY file written by out::Summary
// itself (ExtSmryOutput) must return.  The monitor (chains, readers, comparisons, keys) is the one of
// c10_smry.cpp, which is included.
#include <config.h>
#include <opm/input/eclipse/Parser/Parser.hpp>
#include <opm/input/eclipse/Deck/Deck.hpp>
#include <opm/input/eclipse/EclipseState/EclipseState.hpp>
#include <opm/input/eclipse/EclipseState/IOConfig/IOConfig.hpp>
#include <opm/input/eclipse/EclipseState/SummaryConfig/SummaryConfig.hpp>
#include <opm/input/eclipse/Schedule/Schedule.hpp>
#include <opm/input/eclipse/Schedule/SummaryState.hpp>
#include <opm/input/eclipse/Schedule/Well/Well.hpp>
#include <opm/input/eclipse/Python/Python.hpp>
#include <opm/output/eclipse/Summary.hpp>
#include <opm/output/eclipse/Inplace.hpp>
#include <opm/output/data/Wells.hpp>
#include <opm/output/data/Groups.hpp>
#include <opm/output/data/Aquifer.hpp>
#define C10_NO_MAIN
#include "c10_smry.cpp"

namespace {

struct UnitNames { const char* deck; double timeSeconds; };
// TIME is in days, in the LAB convention in hours
const UnitNames USYS[] = {{"METRIC", 86400.0}, {"FIELD", 86400.0}, {"LAB", 3600.0}, {"PVT-M", 86400.0}};
const char* MONTHS[] = {"JAN", "FEB", "MAR", "APR", "MAY", "JUN", "JLY", "AUG", "SEP", "OCT", "NOV", "DEC"};

struct VecSpec {           // one requested vector: how it is named in the SummaryState, by the readers and in the SMSPEC arrays
    std::string stKey, readKey, kw, wg;
    int num;
};

struct Model {             // what all runs of a case share
    std::array<int, 3> dims;
    int nw, ng, usys;
    StartDate start;
    bool fmt, unif;
    int nsteps;            // TSTEP entries
    std::vector<int> wellGroup;
};

struct RunPlan {
    std::string dir, name, rstRoot;
    int rstStep = 0, lastReport = 0;
    std::vector<int> bprCells;            // global indices (1-based) in SUMMARY order
    std::vector<std::string> wellKw;      // well keywords requested for all wells
    bool fieldFirst = false;
};

std::string deckText(const Model& md, const RunPlan& rp) {
    std::ostringstream s;
    const long nc = (long)md.dims[0] * md.dims[1] * md.dims[2];
    s << "RUNSPEC\nTITLE\n C10\nDIMENS\n " << md.dims[0] << " " << md.dims[1] << " " << md.dims[2] << " /\nOIL\nGAS\nWATER\n" << USYS[md.usys].deck << "\n";
    s << "START\n " << md.start.d << " '" << MONTHS[md.start.m - 1] << "' " << md.start.y;
    if (md.start.hh || md.start.mi || md.start.ss) {
        char b[16];
        snprintf(b, sizeof b, "%02d:%02d:%02d", md.start.hh, md.start.mi, md.start.ss);
        s << " '" << b << "'";
    }
    s << " /\nWELLDIMS\n " << md.nw + 1 << " 5 " << md.ng + 1 << " " << md.nw + 1 << " /\n";
    if (md.fmt) s << "FMTOUT\n";
    if (md.unif) s << "UNIFOUT\n";
    s << "GRID\nDX\n " << nc << "*100 /\nDY\n " << nc << "*100 /\nDZ\n " << nc << "*10 /\nTOPS\n " << md.dims[0] * md.dims[1] << "*2000 /\n";
    s << "PERMX\n " << nc << "*100 /\nPERMY\n " << nc << "*100 /\nPERMZ\n " << nc << "*10 /\nPORO\n " << nc << "*0.2 /\n";
    s << "SOLUTION\n";
    if (!rp.rstRoot.empty()) s << "RESTART\n '" << rp.rstRoot << "' " << rp.rstStep << " /\n";
    s << "SUMMARY\n";
    if (rp.fieldFirst) s << "FOPR\nFOPT\n";
    if (!rp.bprCells.empty()) {
        s << "BPR\n";
        for (int g : rp.bprCells) {
            int q = g - 1;
            const int i = q % md.dims[0]; q /= md.dims[0];
            s << " " << i + 1 << " " << q % md.dims[1] + 1 << " " << q / md.dims[1] + 1 << " /\n";
        }
        s << "/\n";
    }
    for (const auto& kw : rp.wellKw) s << kw << "\n/\n";
    s << "GOPR\n/\n";
    if (!rp.fieldFirst) s << "FOPR\nFOPT\n";
    s << "SCHEDULE\nGRUPTREE\n";
    for (int g = 0; g < md.ng; ++g) s << " 'G" << g + 1 << "' 'FIELD' /\n";
    s << "/\nWELSPECS\n";
    for (int w = 0; w < md.nw; ++w) s << " 'W" << w + 1 << "' 'G" << md.wellGroup[w] + 1 << "' " << w % md.dims[0] + 1 << " " << w % md.dims[1] + 1 << " 1* OIL /\n";
    s << "/\nCOMPDAT\n";
    for (int w = 0; w < md.nw; ++w) s << " 'W" << w + 1 << "' 0 0 1 1 OPEN /\n";
    s << "/\nWCONPROD\n";
    for (int w = 0; w < md.nw; ++w) s << " 'W" << w + 1 << "' OPEN ORAT 100 /\n";
    s << "/\nTSTEP\n " << md.nsteps << "*10 /\n";
    return s.str();
}

std::vector<VecSpec> expectedVectors(const Model& md, const RunPlan& rp) {
    std::vector<VecSpec> v;
    v.push_back({"TIME", "TIME", "TIME", "", 0});
    v.push_back({"YEARS", "YEARS", "YEARS", "", 0});
    for (int g : rp.bprCells) v.push_back({"BPR:" + std::to_string(g), "BPR:" + ijkText(g, md.dims), "BPR", "", g});
    for (const auto& kw : rp.wellKw)
        for (int w = 0; w < md.nw; ++w) {
            const std::string wn = "W" + std::to_string(w + 1);
            v.push_back({kw + ":" + wn, kw + ":" + wn, kw, wn, 0});
        }
    // groups that have no well are still listed by "GOPR /"
    for (int g = 0; g < md.ng; ++g) v.push_back({"GOPR:G" + std::to_string(g + 1), "GOPR:G" + std::to_string(g + 1), "GOPR", "G" + std::to_string(g + 1), 0});
    v.push_back({"FOPR", "FOPR", "FOPR", "", 0});
    v.push_back({"FOPT", "FOPT", "FOPT", "", 0});
    return v;
}

// The unit strings the writer put into the SMSPEC file are taken from its raw UNITS array (generic array reader EclFile,
// not the summary readers under observation), matched by KEYWORDS / WGNAMES / NUMS.
std::string unitsFromSmspec(RunDef& run) {
    EclFile f(run.smspecPath());
    f.loadData();
    const auto kw = f.get<std::string>("KEYWORDS"), wg = f.get<std::string>("WGNAMES"), un = f.get<std::string>("UNITS");
    const auto num = f.get<int>("NUMS");
    std::map<std::tuple<std::string, std::string, int>, size_t> where;
    for (size_t j = 0; j < kw.size(); ++j) {
        const bool named = kw[j][0] == 'W' || kw[j][0] == 'G';
        where[{kw[j], named ? wg[j] : std::string(), num[j]}] = j;
    }
    for (auto& v : run.vecs) {
        const auto it = where.find({v.kw, v.wg, v.num});
        if (it == where.end()) return "SMSPEC of " + run.name + " has no entry KEYWORDS='" + v.kw + "' WGNAMES='" + v.wg + "' NUMS=" + std::to_string(v.num);
        v.unit = un[it->second];
    }
    return "";
}

}   // namespace

int main(int argc, char** argv) {
    vh::Args args = vh::parse_args(argc, argv);
    vh::Reporter rep(args, "C10");
    g_collapseTailName = args.geti("collapse_tailname", 0) != 0;
    const std::string scratch = fs::absolute(vh::scratch_dir(args)).string();
    const bool skipFmtSeek = args.geti("skip_fmt_seek", 0) != 0;
    const bool noFork = args.geti("no_fork", 0) != 0;
    const int maxBpr = (int)args.geti("max_bpr", 4490);
    Opm::Parser parser;
    auto python = std::make_shared<Opm::Python>();

    rep.run_cases([&](long idx, Rng& rng) {
        const std::string cdir = scratch + "/w" + std::to_string(idx);
        fs::remove_all(cdir);
        fs::create_directories(cdir);

        // ---- the model ---------------------------------------------------------------------------
        Model md;
        md.usys = (int)rng.below(4);
        md.fmt = (idx & 1) != 0;
        md.unif = (idx & 2) == 0;
        md.nw = (int)rng.range(1, 6);
        md.ng = (int)rng.range(1, 3);
        for (int w = 0; w < md.nw; ++w) md.wellGroup.push_back((int)rng.below((uint64_t)md.ng));
        md.start = StartDate{(int)rng.range(1975, 2050), (int)rng.range(1, 12), (int)rng.range(1, 28), 0, 0, 0};
        if (rng.chance(0.5)) { md.start.hh = (int)rng.range(0, 23); md.start.mi = (int)rng.range(0, 59); }
        const bool withSeconds = rng.chance(0.3);
        if (withSeconds) md.start.ss = (int)rng.range(1, 59);
        const unsigned rc = (unsigned)rng.below(100);
        int depth = rc < 55 ? 0 : (rc < 88 ? 1 : 2);
        // total number of vectors wanted: small, or at the record boundaries of the readers
        int want;
        {
            const unsigned c = (unsigned)rng.below(100);
            if (c < 35) want = (int)rng.range(12, 60);
            else if (c < 70) want = (int)(1000 * rng.range(1, 4) + rng.range(-3, 3));
            else if (c < 80) want = (int)(105 * rng.range(1, 40) + rng.range(-1, 1));
            else want = (int)rng.range(12, 4500);
        }
        std::vector<std::string> wkw{"WOPR", "WBHP"};
        if (rng.chance(0.5)) wkw.push_back("WOPT");
        if (rng.chance(0.3)) wkw.push_back("WWPR");
        const int others = 2 + (int)wkw.size() * md.nw + md.ng + 2;
        int nbpr = std::max(1, std::min(want - others, maxBpr));
        md.dims = nbpr > 1500 || rng.chance(0.2) ? std::array<int, 3>{20, 20, 12} : genDims(rng, nbpr);
        const long ncell = (long)md.dims[0] * md.dims[1] * md.dims[2];
        nbpr = (int)std::min<long>(nbpr, ncell);
        md.nsteps = 0;

        // ---- the runs ----------------------------------------------------------------------------
        static const char* NAMES[][3] = {{"BASE", "MID", "CASE"}, {"RUN_A", "RUN_B", "RUN_C"}, {"HIST", "PRED", "PRED2"}};
        const auto& names = NAMES[rng.below(3)];
        std::vector<RunPlan> plans(depth + 1);
        std::vector<int> nrep(depth + 1);
        int layoutClass = 0;
        {
            // distinct cells in random order
            std::vector<int> cells;
            {
                std::set<int> seen;
                const long stride = 1 + (long)rng.below((uint64_t)ncell);
                long c = (long)rng.below((uint64_t)ncell);
                while ((int)cells.size() < nbpr) {
                    if (seen.insert((int)c).second) cells.push_back((int)c + 1);
                    c = (c + stride) % ncell;
                    if (seen.count((int)c)) c = (c + 1) % ncell;
                }
            }
            int prevLast = 0;
            for (int level = 0; level <= depth; ++level) {
                RunPlan& rp = plans[level];
                rp.name = level == depth ? names[2] : names[level];
                rp.dir = level == 0 || rng.chance(0.5) ? cdir : cdir + "/run" + std::to_string(level);
                rp.wellKw = wkw;
                nrep[level] = (int)rng.range(1, 5);
                if (level == 0) { rp.bprCells = cells; rp.fieldFirst = rng.chance(0.3); }
                else {
                    const RunPlan& prev = plans[level - 1];
                    rp.bprCells = prev.bprCells;
                    rp.fieldFirst = prev.fieldFirst;
                    const unsigned lc = (unsigned)rng.below(100);
                    if (lc < 60) {}
                    else if (lc < 80) { layoutClass = std::max(layoutClass, 1); rng.shuffle(rp.bprCells); rp.fieldFirst = !rp.fieldFirst; }
                    else {
                        layoutClass = 2;
                        if (rp.bprCells.size() > 2 && rng.chance(0.5)) rp.bprCells.erase(rp.bprCells.begin() + rng.below(rp.bprCells.size()));
                        std::set<int> have(rp.bprCells.begin(), rp.bprCells.end());
                        for (int q = 0; q < 3; ++q) {
                            const int g = 1 + (int)rng.below((uint64_t)ncell);
                            bool everUsed = false;
                            for (int l2 = 0; l2 < level; ++l2) for (int x : plans[l2].bprCells) if (x == g) everUsed = true;
                            if (!everUsed && have.insert(g).second) rp.bprCells.insert(rp.bprCells.begin() + rng.below(rp.bprCells.size() + 1), g);
                        }
                        if (rng.chance(0.5) && std::find(rp.wellKw.begin(), rp.wellKw.end(), "WGPR") == rp.wellKw.end()) rp.wellKw.insert(rp.wellKw.begin(), "WGPR");
                    }
                    const int first = level == 1 ? 1 : plans[level - 1].rstStep + 1;
                    rp.rstStep = (int)rng.range(first, prevLast);
                    rp.rstRoot = prev.dir + "/" + prev.name;   // absolute: a deck parsed from a string has no input path
                }
                rp.lastReport = rp.rstStep + nrep[level];
                prevLast = rp.lastReport;
                md.nsteps = std::max(md.nsteps, rp.lastReport);
            }
            bool tooLong = false;   // RESTART holds at most 132 characters in the SMSPEC file
            for (auto& rp : plans) if (rp.rstRoot.size() > 132) tooLong = true;
            if (tooLong) {
                RunPlan only = plans.back();
                only.rstRoot.clear();
                only.rstStep = 0;
                only.lastReport = nrep.back();
                plans = {only};
                depth = 0;
                layoutClass = 0;
                md.nsteps = only.lastReport;
            }
        }
        const bool writeEsmry = !md.fmt && rng.chance(0.6);
        const unsigned flush = (unsigned)rng.below(3);   // write() after every ministep / every report step / once at the end

        // ---- drive the writer -----------------------------------------------------------------------
        std::vector<std::unique_ptr<RunDef>> runs;
        std::string failure;
        try {
            for (int level = 0; level <= depth; ++level) {
                const RunPlan& rp = plans[level];
                fs::create_directories(rp.dir);
                if (level > 0) {
                    // the parser insists on a restart file of the base run: existence is all it looks at
                    const RunPlan& prev = plans[level - 1];
                    char b[16];
                    snprintf(b, sizeof b, "%04d", rp.rstStep);
                    for (const std::string& ext : {std::string(".X") + b, std::string(".F") + b, std::string(".UNRST"), std::string(".FUNRST")})
                        vh::write_file(prev.dir + "/" + prev.name + ext, "");
                }
                const std::string text = deckText(md, rp);
                const auto deck = parser.parseString(text);
                Opm::EclipseState es(deck);
                es.getIOConfig().setOutputDir(rp.dir);
                es.getIOConfig().setBaseName(rp.name);
                Opm::Schedule sched(deck, es, python);
                Opm::SummaryConfig cfg(deck, sched, es.fieldProps(), es.aquifer());
                Opm::out::Summary writer(cfg, es, es.getInputGrid(), sched, "", writeEsmry);
                Opm::SummaryState st(Opm::TimeService::from_time_t(sched.getStartTime()), 0.0);

                auto run = std::make_unique<RunDef>();
                run->dir = rp.dir; run->name = rp.name; run->fmt = md.fmt; run->unif = md.unif; run->uconv = md.usys + 1; run->dims = md.dims;
                run->rstRoot = rp.rstRoot; run->rstStep = rp.rstStep; run->firstReport = rp.rstStep + 1; run->start = md.start;
                run->timeUnitSeconds = USYS[md.usys].timeSeconds;
                const auto specs = expectedVectors(md, rp);
                for (const auto& sp : specs) run->vecs.push_back({sp.kw, sp.wg, sp.num, "", sp.readKey});
                double t = sched.seconds(rp.rstStep);
                if (level > 0) st.update_elapsed(t);
                int ms = 0;
                for (int rs = rp.rstStep + 1; rs <= rp.lastReport; ++rs) {
                    const int nm = (int)rng.range(1, 4);
                    const double t0 = sched.seconds(rs - 1), t1 = sched.seconds(rs);
                    for (int m = 0; m < nm; ++m) {
                        t = m == nm - 1 ? t1 : t0 + (t1 - t0) * (m + 1) / nm;
                        Opm::data::Wells wells;
                        for (int w = 0; w < md.nw; ++w) {
                            auto& xw = wells["W" + std::to_string(w + 1)];
                            xw.rates.set(Opm::data::Rates::opt::oil, -rng.loguniform(1e-6, 1e-1))
                                .set(Opm::data::Rates::opt::wat, -rng.loguniform(1e-6, 1e-1))
                                .set(Opm::data::Rates::opt::gas, -rng.loguniform(1e-4, 10.0));
                            xw.bhp = rng.uniform(1e6, 5e7);
                            xw.dynamicStatus = Opm::Well::Status::OPEN;
                            xw.current_control.isProducer = true;
                        }
                        Opm::out::Summary::BlockValues bv;
                        for (int g : rp.bprCells) bv[{"BPR", g}] = rng.chance(0.1) ? (double)rng.range(1, 500) * 1e5 : rng.uniform(1e5, 6e7);
                        writer.eval(st, rs, t, wells, {}, {}, {}, {}, {}, {}, bv);
                        // the oracle: what the SummaryState holds when the ministep is handed to the writer
                        std::vector<float> p(specs.size());
                        for (size_t i = 0; i < specs.size(); ++i) {
                            if (!st.has(specs[i].stKey)) { failure = "SummaryState lacks " + specs[i].stKey + " after eval"; break; }
                            p[i] = (float)st.get(specs[i].stKey);
                        }
                        if (!failure.empty()) break;
                        writer.add_timestep(st, rs, m != nm - 1);
                        run->reportOf.push_back(rs);
                        run->ministep.push_back(ms++);
                        run->data.push_back(std::move(p));
                        const bool lastOfRun = rs == rp.lastReport && m == nm - 1;
                        if (lastOfRun) writer.write(true);
                        else if (flush == 0 || (flush == 1 && m == nm - 1)) writer.write(false);
                    }
                    if (!failure.empty()) break;
                }
                if (!failure.empty()) break;
                failure = unitsFromSmspec(*run);
                if (!failure.empty()) break;
                runs.push_back(std::move(run));
            }
        } catch (const std::exception& ex) {
            failure = std::string("deck / writer refused the generated model: ") + ex.what();
        }
        if (!failure.empty()) {
            // not an observation about reading back: the generator left the domain of the writer
            rep.count("generator_refused");
            if (rep.counters["generator_refused"] <= 3) fprintf(stderr, "c10_smry_writer case %ld: %s\n", idx, failure.substr(0, 400).c_str());
            rep.case_done(0, false);
            std::error_code ec;
            fs::remove_all(cdir, ec);
            return;
        }

        std::vector<const RunDef*> all;
        for (auto& r : runs) all.push_back(r.get());
        Monitor m{rep, ""};
        {
            std::ostringstream o;
            o << "case " << idx << " (out::Summary): " << (depth == 0 ? "single run" : depth == 1 ? "run continuing a base run" : "run continuing a run that continues a base run")
              << ", vector layout class " << layoutClass << " (0 same, 1 permuted, 2 added/removed), unit system " << USYS[md.usys].deck << ", " << md.nw << " wells, " << md.ng
              << " groups, ESMRY written by the writer: " << writeEsmry << ", write() " << (flush == 0 ? "after every ministep" : flush == 1 ? "after every report step" : "once at the end") << "\n";
            for (size_t i = 0; i < all.size(); ++i) o << all[i]->describe() << "  BPR cells requested: " << plans[i].bprCells.size() << ", well keywords:" << [&] { std::string s; for (auto& k : plans[i].wellKw) s += " " + k; return s; }() << "\n";
            m.caseText = o.str();
        }
        if (idx < 2) rep.sample(m.caseText, 3, 1200);
        rep.journal_note(m.caseText);
        const RunDef& top = *all.back();
        const int nv = (int)top.vecs.size();
        rep.cover("output", std::string(md.fmt ? "formatted" : "unformatted") + (md.unif ? "+unified" : "+separate"));
        rep.cover("nvec_class", nv < 105 ? "12-104" : nv < 997 ? "105-996" : nv <= 1003 ? "997-1003" : nv < 1997 ? "1004-1996" : nv <= 2003 ? "1997-2003"
                                : nv < 2997 ? "2004-2996" : nv <= 3003 ? "2997-3003" : nv < 3997 ? "3004-3996" : nv <= 4003 ? "3997-4003" : "4004-4500");
        rep.cover("chain", depth == 0 ? "single" : depth == 1 ? "base+run" : "base+base+run");
        if (depth > 0) rep.cover("restart_layout", layoutClass == 0 ? "same" : layoutClass == 1 ? "permuted" : "added/removed");
        rep.cover("unit_system", USYS[md.usys].deck);
        rep.cover("esmry", writeEsmry ? "written by out::Summary" : "converted");
        rep.cover("write_calls", flush == 0 ? "every ministep" : flush == 1 ? "every report step" : "once");
        rep.cover("start_date", withSeconds ? "with seconds" : (md.start.hh || md.start.mi) ? "with time of day" : "midnight");
        rep.maxof("max_vectors", (double)nv);
        uint64_t h = vh::fnv(m.caseText);
        for (auto* r : all) for (auto& p : r->data) h = vh::fnv(p.data(), p.size() * 4, h);

        ExamineOpts opts;
        opts.layoutClass = layoutClass;
        opts.allKeys = rng.chance(0.5);
        opts.skipFmtSeek = skipFmtSeek;
        opts.noFork = noFork;
        opts.directEsmry = writeEsmry;
        opts.ministepIdsKnown = false;
        opts.slotOrderKnown = false;
        const bool finished = examine(rep, rng, m, all, opts);
        size_t nsteps = 0;
        for (auto* r : all) nsteps += r->data.size();
        rep.case_done(h, finished && nsteps >= 2);
        std::error_code ec;
        fs::remove_all(cdir, ec);
    });
    rep.finish();
    return 0;
}
