// C09 — summary vectors obey their definitions, accumulation and group hierarchy laws.
//
// Reference-model monitor.  The harness owns a structured model (group tree, wells, connections, efficiency factors and
// observed rates per report step, dates), renders it to a deck, builds EclipseState / Schedule / SummaryConfig with the
// real parser, feeds random dynamic well results through the real out::Summary::eval and compares EVERY value of the
// SummaryState after EVERY eval with an executable reference model (namespace ref below) that is compositional in the
// keyword mnemonic ([WGF] [OWGLV] [PI] [RT] H?  + ratios) and never looks at the library's keyword table.
// The list of summary keywords is harvested reflectively: every candidate mnemonic is offered to the parser and
// SummaryConfig of the tree under test, the accepted ones are requested in every generated deck.
#include <opm/input/eclipse/Parser/Parser.hpp>
#include <opm/input/eclipse/Parser/ParseContext.hpp>
#include <opm/input/eclipse/Parser/ErrorGuard.hpp>
#include <opm/input/eclipse/Deck/Deck.hpp>
#include <opm/input/eclipse/EclipseState/EclipseState.hpp>
#include <opm/input/eclipse/EclipseState/SummaryConfig/SummaryConfig.hpp>
#include <opm/input/eclipse/Schedule/Schedule.hpp>
#include <opm/input/eclipse/Schedule/SummaryState.hpp>
#include <opm/input/eclipse/Schedule/Well/Well.hpp>
#include <opm/input/eclipse/Python/Python.hpp>
#include <opm/output/eclipse/Summary.hpp>
#include <opm/output/data/Wells.hpp>
#include <opm/output/data/Groups.hpp>
#include <opm/output/eclipse/Inplace.hpp>
#include <opm/common/utility/TimeService.hpp>
#include "common/vh.hpp"
#include <algorithm>
#include <array>
#include <memory>
#include <optional>

using vh::Rng;

// =================================================================================================================
// model
// =================================================================================================================
namespace model {

// independent unit factors: SI value of one deck unit
struct Units { const char* name; double liq, gas, rv, time; };
static const double STB = 0.158987294928, MSCF = 28.316846592;
static const Units UNITS[4] = {
    {"METRIC", 1.0, 1.0, 1.0, 86400.0},
    {"FIELD", STB, MSCF, STB, 86400.0},
    {"LAB", 1e-6, 1e-6, 1e-6, 3600.0},
    {"PVT-M", 1.0, 1.0, 1.0, 86400.0},
};

enum Status { OPEN = 0, SHUT = 1, STOP = 2 };
static const char* STATUS_NAME[3] = {"OPEN", "SHUT", "STOP"};
enum Phase { O = 0, W = 1, G = 2 };
static const char* PHASE_NAME[3] = {"OIL", "WATER", "GAS"};

struct MGroup { std::string name; int parent; };               // parent -1: FIELD
struct Conn { int i, j, k, complnum; long gidx; };
struct MWell {
    std::string name;
    int group = 0;
    bool inj = false;
    int injPhase = W;
    bool hist = false;      // WCONHIST / WCONINJH (observed rates); otherwise WCONPROD / WCONINJE
    bool target = false;    // prediction well with an explicit rate target: its *H vectors are not decided by the property
    int defStep = 0;        // report step (0-based) whose keywords contain WELSPECS/COMPDAT
    int ctrlStep = 0;       // first step with a control keyword
    bool lumped = false;    // COMPLUMP given, completion vectors requested
    std::vector<Conn> conns;
};
struct WellStep {            // schedule state of one well during one report step
    int status = SHUT;
    double hrate[3] = {0, 0, 0};   // deck units; producer: o,w,g; injector: [rate of injPhase]
    bool ctrlKw = false;           // control keyword issued at this step
    bool welopen = false;          // WELOPEN issued at this step
    double wefac = 1.0;
    bool wefacKw = false;
};
struct Step {
    long long endSecs = 0;         // elapsed seconds at the end of the report step
    bool byDates = false;
    std::vector<WellStep> w;
    std::vector<double> gefac;
    std::vector<bool> gefacKw;
    std::vector<long long> mini;   // elapsed seconds of the evaluations inside this report step (last == endSecs)
};
struct Model {
    int ui = 0;
    long startDays = 0;            // days since 1970-01-01 of START
    std::vector<MGroup> groups;
    std::vector<MWell> wells;
    std::vector<Step> steps;
    bool initialEval = true;       // evaluation at report step 0 / time 0 before the first step
    // SUMMARY section thinning: vectors that are NOT requested are still maintained in the SummaryState when they belong to the
    // "required restart vectors"; they take their type (rate / total) from a separate table inside Summary.cpp, so the
    // un-requested path needs its own cases.  `notRequested` mnemonics are left out of the SUMMARY section entirely;
    // with `firstWellOnly` the well level keywords name the first well only.
    std::set<std::string> notRequested;
    bool firstWellOnly = false;
    const Units& u() const { return UNITS[ui]; }
};

// --- calendar (own implementation, proleptic Gregorian) -----------------------------------------------------------
static long days_from_civil(long y, int m, int d) {
    y -= m <= 2;
    const long era = (y >= 0 ? y : y - 399) / 400;
    const long yoe = y - era * 400;
    const long doy = (153 * (m + (m > 2 ? -3 : 9)) + 2) / 5 + d - 1;
    const long doe = yoe * 365 + yoe / 4 - yoe / 100 + doy;
    return era * 146097 + doe - 719468;
}
struct Civil { long y; int m, d; };
static Civil civil_from_days(long z) {
    z += 719468;
    const long era = (z >= 0 ? z : z - 146096) / 146097;
    const long doe = z - era * 146097;
    const long yoe = (doe - doe / 1460 + doe / 36524 - doe / 146096) / 365;
    const long y = yoe + era * 400;
    const long doy = doe - (365 * yoe + yoe / 4 - yoe / 100);
    const long mp = (5 * doy + 2) / 153;
    const int d = (int)(doy - (153 * mp + 2) / 5 + 1);
    const int m = (int)(mp < 10 ? mp + 3 : mp - 9);
    return {y + (m <= 2), m, d};
}
static const char* MONTHS[12] = {"JAN", "FEB", "MAR", "APR", "MAY", "JUN", "JUL", "AUG", "SEP", "OCT", "NOV", "DEC"};

static std::string num(double v) { char b[40]; snprintf(b, sizeof b, "%.17g", v); return b; }

// ancestors of a group, the group itself first
static std::vector<int> chain(const Model& m, int g) { std::vector<int> c; while (g >= 0) { c.push_back(g); g = m.groups[g].parent; } return c; }
static int depth(const Model& m, int g) { return (int)chain(m, g).size(); }

// --- generator -----------------------------------------------------------------------------------------------------
static Model generate(Rng& rng) {
    Model m;
    m.ui = (int)rng.below(4);
    m.startDays = days_from_civil(rng.range(1950, 2100), (int)rng.range(1, 12), 1) + rng.range(0, 30);
    if (rng.chance(0.2)) {   // near a leap day / year end
        long y = rng.range(1950, 2100);
        m.startDays = rng.chance(0.5) ? days_from_civil(y, 2, 27) + rng.range(0, 2) : days_from_civil(y, 12, 30) + rng.range(0, 1);
    }
    m.initialEval = rng.chance(0.6);
    // group tree, depth <= 4
    int ng = 1 + (int)rng.below(6);
    if (rng.chance(0.5)) ng = 3 + (int)rng.below(4);
    for (int g = 0; g < ng; ++g) {
        MGroup G; G.name = "G" + std::to_string(g + 1);
        if (rng.chance(0.3)) G.name = std::string(rng.chance(0.5) ? "PLAT-" : "SAT_") + char('A' + g);
        G.parent = -1;
        if (g > 0) {
            for (int t = 0; t < 8; ++t) {
                int p = (int)rng.below(g + 1) - 1;
                if (rng.chance(0.6)) p = g - 1;       // favour deep chains
                if (p < 0 || depth(m, p) < 4) { G.parent = p; break; }
            }
        }
        m.groups.push_back(G);
    }
    std::vector<bool> hasChild(ng, false);
    for (auto& G : m.groups) if (G.parent >= 0) hasChild[G.parent] = true;
    std::vector<int> leaves;
    for (int g = 0; g < ng; ++g) if (!hasChild[g]) leaves.push_back(g);
    const int nsteps = 2 + (int)rng.below(4);
    const int nw = 2 + (int)rng.below(7);
    for (int w = 0; w < nw; ++w) {
        MWell X;
        X.name = "W" + std::to_string(w + 1);
        if (rng.chance(0.3)) X.name = std::string(rng.chance(0.5) ? "P-" : "WL_") + std::to_string(w + 1);
        X.group = rng.pick(leaves);
        X.inj = rng.chance(0.35);
        X.injPhase = rng.chance(0.6) ? W : (rng.chance(0.85) ? G : O);
        X.hist = rng.chance(0.5);
        X.target = !X.hist && rng.chance(0.12);
        X.defStep = rng.chance(0.8) ? 0 : (int)rng.below(nsteps);
        X.ctrlStep = rng.chance(0.8) ? X.defStep : X.defStep + (int)rng.below(nsteps - X.defStep);
        X.lumped = rng.chance(0.5);
        const int nk = 1 + (int)rng.below(3);
        const int I = w + 1, J = 1 + (int)rng.below(10);
        std::vector<int> ks = {1, 2, 3}; rng.shuffle(ks); ks.resize(nk); std::sort(ks.begin(), ks.end());
        for (int k : ks) { Conn c; c.i = I; c.j = J; c.k = k; c.complnum = 0; c.gidx = (I - 1) + 10L * ((J - 1) + 10L * (k - 1)); X.conns.push_back(c); }
        if (X.lumped) { int cn = 1; for (auto& c : X.conns) { c.complnum = cn; if (rng.chance(0.5)) ++cn; } }
        m.wells.push_back(X);
    }
    if (!m.wells[0].inj && !m.wells[1].inj && rng.chance(0.8)) m.wells[1].inj = true;
    // report steps
    const long long tick = m.ui == 2 ? 900 : 10800;     // 1/4 hour (LAB, TSTEP in hours) or 1/8 day: exact in binary
    long long t = 0;
    for (int s = 0; s < nsteps; ++s) {
        Step S;
        double r = rng.unit();
        long long len;
        const long long day = 86400 / tick, unitTicks = m.ui == 2 ? 4 : day;   // ticks per day / per deck time unit
        if (m.ui == 2) len = r < 0.4 ? rng.range(1, 40) : (r < 0.8 ? rng.range(40, 800) : rng.range(800, 8000));
        else len = r < 0.3 ? rng.range(1, 3 * day) : (r < 0.7 ? rng.range(5, 40) * unitTicks : rng.range(60, 800) * unitTicks + rng.range(0, day));
        t += len * tick;
        S.endSecs = t;
        S.byDates = rng.chance(0.4);
        // ministeps: whole seconds strictly inside the step
        const long long t0 = t - len * tick;
        int nmini = 1 + (int)rng.below(4);
        std::set<long long> cuts;
        for (int k = 1; k < nmini; ++k) { long long c = t0 + 1 + (long long)rng.below((uint64_t)(len * tick - 1)); if (rng.chance(0.5)) c -= c % 60; if (c > t0 && c < t) cuts.insert(c); }
        S.mini.assign(cuts.begin(), cuts.end());
        S.mini.push_back(t);
        // efficiency factors and well state
        S.gefac.resize(ng); S.gefacKw.assign(ng, false);
        for (int g = 0; g < ng; ++g) {
            double prev = s ? m.steps[s - 1].gefac[g] : 1.0;
            S.gefac[g] = prev;
            if (s == 0 ? rng.chance(0.55) : rng.chance(0.3)) { S.gefac[g] = rng.chance(0.15) ? 1.0 : rng.uniform(0.05, 1.0); S.gefacKw[g] = true; }
        }
        S.w.resize(nw);
        for (int w = 0; w < nw; ++w) {
            const MWell& X = m.wells[w];
            WellStep& ws = S.w[w];
            if (s < X.defStep) continue;
            if (s > X.defStep) ws = m.steps[s - 1].w[w];
            ws.ctrlKw = ws.welopen = ws.wefacKw = false;
            if (s == X.defStep ? rng.chance(0.55) : rng.chance(0.3)) { ws.wefac = rng.chance(0.15) ? 1.0 : rng.uniform(0.05, 1.0); ws.wefacKw = true; }
            if (s < X.ctrlStep) { ws.status = SHUT; continue; }
            if (s == X.ctrlStep || rng.chance(X.hist ? 0.6 : 0.25)) {
                ws.ctrlKw = true;
                double q = rng.unit();
                ws.status = q < 0.78 ? OPEN : (q < 0.92 ? SHUT : STOP);
                if (X.hist || X.target) {
                    // observed rates / targets in deck units
                    const double lo = m.ui == 2 ? 1e3 : 1.0, hi = m.ui == 2 ? 1e7 : 2000.0;
                    for (int p = 0; p < 3; ++p) ws.hrate[p] = rng.chance(0.12) ? 0.0 : rng.loguniform(lo, hi) * (p == G && m.ui != 1 ? 100.0 : 1.0);
                    if (X.inj) { ws.hrate[1] = ws.hrate[2] = 0; if (ws.hrate[0] == 0 && !X.hist) ws.hrate[0] = 10 * lo; }
                    if (!X.inj && X.target && ws.hrate[0] == 0) ws.hrate[0] = 10 * lo;
                } else ws.hrate[0] = ws.hrate[1] = ws.hrate[2] = 0;
            } else if (rng.chance(0.25)) {
                ws.welopen = true;
                double q = rng.unit();
                ws.status = q < 0.5 ? OPEN : (q < 0.85 ? SHUT : STOP);
            }
        }
        m.steps.push_back(S);
    }
    return m;
}

// --- deck ------------------------------------------------------------------------------------------------------------
struct Keywords {   // harvested from the tree under test
    std::vector<std::string> well, group, field, conn, wcompl, ccompl, misc;
};

static std::string render(const Model& m, const Keywords& kw) {
    std::ostringstream s;
    Civil c0 = civil_from_days(m.startDays);
    s << "START\n " << c0.d << " '" << MONTHS[c0.m - 1] << "' " << c0.y << " /\nRUNSPEC\n";
    if (m.ui != 0 || (m.startDays & 1)) s << m.u().name << "\n";
    s << "DIMENS\n 10 10 3 /\nWELLDIMS\n 10 5 12 10 /\nOIL\nGAS\nWATER\nUNIFOUT\nGRID\nDX\n300*100 /\nDY\n300*100 /\nDZ\n300*10 /\nTOPS\n100*2000 /\n"
         "PERMX\n300*100 /\nPERMY\n300*100 /\nPERMZ\n300*10 /\nPORO\n300*0.2 /\nSUMMARY\n";
    for (auto& k : kw.well) { if (m.notRequested.count(k)) continue; if (m.firstWellOnly && !m.wells.empty()) s << k << "\n '" << m.wells[0].name << "' /\n"; else s << k << "\n/\n"; }
    for (auto& k : kw.group) { if (m.notRequested.count(k)) continue; s << k << "\n/\n"; }
    for (auto& k : kw.field) { if (m.notRequested.count(k)) continue; s << k << "\n"; }
    for (auto& k : kw.misc) s << k << "\n";
    for (auto& k : kw.conn) s << k << "\n '*' /\n/\n";
    bool anyLumped = false;
    for (auto& X : m.wells) anyLumped = anyLumped || X.lumped;
    if (anyLumped) {
        for (auto& k : kw.wcompl) {
            s << k << "\n";
            for (auto& X : m.wells) if (X.lumped) { std::set<int> cs; for (auto& c : X.conns) cs.insert(c.complnum); for (int c : cs) s << " '" << X.name << "' " << c << " /\n"; }
            s << "/\n";
        }
        for (auto& k : kw.ccompl) {
            s << k << "\n";
            for (auto& X : m.wells) if (X.lumped) s << " '" << X.name << "' /\n";
            s << "/\n";
        }
    }
    s << "SCHEDULE\nGRUPTREE\n";
    for (auto& G : m.groups) s << " '" << G.name << "' '" << (G.parent < 0 ? std::string("FIELD") : m.groups[G.parent].name) << "' /\n";
    s << "/\n";
    long long prevEnd = 0;
    for (size_t st = 0; st < m.steps.size(); ++st) {
        const Step& S = m.steps[st];
        std::ostringstream welspecs, compdat, complump, prod, hist, inje, injh, welopen, wefac, gefac;
        for (size_t w = 0; w < m.wells.size(); ++w) {
            const MWell& X = m.wells[w]; const WellStep& ws = S.w[w];
            if ((int)st < X.defStep) continue;
            if ((int)st == X.defStep) {
                welspecs << " '" << X.name << "' '" << m.groups[X.group].name << "' " << X.conns[0].i << " " << X.conns[0].j << " 1* " << (X.inj ? PHASE_NAME[X.injPhase] : "OIL") << " /\n";
                for (auto& c : X.conns) compdat << " '" << X.name << "' " << c.i << " " << c.j << " " << c.k << " " << c.k << " OPEN /\n";
                if (X.lumped) for (auto& c : X.conns) complump << " '" << X.name << "' " << c.i << " " << c.j << " " << c.k << " " << c.k << " " << c.complnum << " /\n";
            }
            if (ws.ctrlKw) {
                const char* stn = STATUS_NAME[ws.status];
                if (!X.inj && X.hist) hist << " '" << X.name << "' " << stn << " ORAT " << num(ws.hrate[0]) << " " << num(ws.hrate[1]) << " " << num(ws.hrate[2]) << " /\n";
                else if (!X.inj && X.target) prod << " '" << X.name << "' " << stn << " ORAT " << num(ws.hrate[0]) << " " << num(ws.hrate[1]) << " " << num(ws.hrate[2]) << " 2* 50 /\n";
                else if (!X.inj) prod << " '" << X.name << "' " << stn << " BHP 5* 50 /\n";
                else if (X.hist) injh << " '" << X.name << "' " << PHASE_NAME[X.injPhase] << " " << stn << " " << num(ws.hrate[0]) << " /\n";
                else if (X.target) inje << " '" << X.name << "' " << PHASE_NAME[X.injPhase] << " " << stn << " RATE " << num(ws.hrate[0]) << " 1* 500 /\n";
                else inje << " '" << X.name << "' " << PHASE_NAME[X.injPhase] << " " << stn << " BHP 2* 500 /\n";
            }
            if (ws.welopen) welopen << " '" << X.name << "' " << STATUS_NAME[ws.status] << " /\n";
            if (ws.wefacKw) wefac << " '" << X.name << "' " << num(ws.wefac) << " /\n";
        }
        for (size_t g = 0; g < m.groups.size(); ++g) if (S.gefacKw[g]) gefac << " '" << m.groups[g].name << "' " << num(S.gefac[g]) << " /\n";
        auto emit = [&](const char* name, const std::ostringstream& o) { if (!o.str().empty()) s << name << "\n" << o.str() << "/\n"; };
        emit("WELSPECS", welspecs); emit("COMPDAT", compdat); emit("COMPLUMP", complump);
        emit("WCONPROD", prod); emit("WCONHIST", hist); emit("WCONINJE", inje); emit("WCONINJH", injh);
        emit("WELOPEN", welopen); emit("WEFAC", wefac); emit("GEFAC", gefac);
        if (S.byDates) {
            long long days = S.endSecs / 86400, rem = S.endSecs % 86400;
            Civil c = civil_from_days(m.startDays + (long)days);
            s << "DATES\n " << c.d << " '" << MONTHS[c.m - 1] << "' " << c.y;
            if (rem) { char b[16]; snprintf(b, sizeof b, " %02d:%02d:%02d", (int)(rem / 3600), (int)(rem / 60 % 60), (int)(rem % 60)); s << b; }
            s << " /\n/\n";
        } else s << "TSTEP\n " << num((double)(S.endSecs - prevEnd) / m.u().time) << " /\n";
        prevEnd = S.endSecs;
    }
    s << "END\n";
    return s.str();
}

// --- dynamic results of one evaluation ---------------------------------------------------------------------------
enum Comp { cO, cW, cG, cRO, cRW, cRG, cDG, cVO, NCOMP };     // surface oil/water/gas, reservoir oil/water/gas, dissolved gas, vaporised oil
struct WellDyn {
    bool present = false;       // has an entry in data::Wells
    int status = SHUT;          // dynamic status of the entry
    bool rates = false;         // entry carries rates
    double q[NCOMP] = {0, 0, 0, 0, 0, 0, 0, 0};   // SI, signed: negative = production
    bool conns = false;         // entry carries connection results
    std::vector<std::array<double, 4>> cq;      // per connection: o,w,g (signed SI), reservoir rate
    bool crossflow = false;
    bool flowing() const { return present && status != SHUT; }
};
struct Dyn { std::vector<WellDyn> w; };

static Dyn genDyn(Rng& rng, const Model& m, int simStep) {
    Dyn D; D.w.resize(m.wells.size());
    const double day = 86400.0;
    for (size_t w = 0; w < m.wells.size(); ++w) {
        const MWell& X = m.wells[w]; WellDyn& d = D.w[w];
        if (simStep < X.defStep) continue;                // the well does not exist yet
        const int st = m.steps[simStep].w[w].status;
        if (st == SHUT) { d.present = rng.chance(0.5); d.status = SHUT; continue; }      // shut wells have no rates
        d.present = true;
        if (st == STOP) { d.status = STOP; d.rates = rng.chance(0.5); continue; }          // stopped: no surface flow
        double r = rng.unit();
        if (r < 0.12) { d.status = SHUT; continue; }       // shut by the simulator
        if (r < 0.15) { d.status = STOP; d.rates = true; continue; }
        d.status = OPEN; d.rates = true;
        double v[NCOMP];
        v[cO] = rng.loguniform(1, 2000) / day; v[cW] = rng.loguniform(1, 2000) / day; v[cG] = rng.loguniform(100, 1e6) / day;
        v[cRO] = v[cO] * rng.uniform(1.0, 1.6); v[cRW] = v[cW] * rng.uniform(1.0, 1.05); v[cRG] = v[cG] * rng.uniform(0.003, 0.02);
        v[cDG] = v[cG] * rng.uniform(0.0, 0.9); v[cVO] = v[cO] * rng.uniform(0.0, 0.5);
        if (X.inj) {
            for (int c = 0; c < NCOMP; ++c) d.q[c] = 0;
            d.q[X.injPhase] = v[X.injPhase]; d.q[cRO + X.injPhase] = v[cRO + X.injPhase];
            if (rng.chance(0.1)) { int p = (X.injPhase + 1) % 3; d.q[p] = 0.01 * v[p]; d.q[cRO + p] = 0.01 * v[cRO + p]; }   // impure injection stream
        } else {
            for (int c = 0; c < NCOMP; ++c) d.q[c] = -v[c];
            if (rng.chance(0.15)) { d.q[cO] = d.q[cRO] = d.q[cVO] = 0; }
            if (rng.chance(0.15)) { d.q[cW] = d.q[cRW] = 0; }
            if (rng.chance(0.10)) { d.q[cG] = d.q[cRG] = d.q[cDG] = 0; }
        }
        if (rng.chance(0.12)) {      // one phase flows against the well type (split by sign)
            d.crossflow = true;
            int p = (int)rng.below(3);
            double sgn = X.inj ? -1.0 : 1.0;
            d.q[p] = sgn * 0.3 * v[p]; d.q[cRO + p] = sgn * 0.3 * v[cRO + p];
            if (p == cG) d.q[cDG] = 0; if (p == cO) d.q[cVO] = 0;
        }
        d.conns = !d.crossflow && rng.chance(0.9);
        if (d.conns) {
            std::vector<double> f(X.conns.size());
            double sum = 0; for (auto& x : f) { x = rng.uniform(0.05, 1.0); sum += x; } for (auto& x : f) x /= sum;
            for (size_t c = 0; c < X.conns.size(); ++c) {
                if (X.conns.size() > 1 && rng.chance(0.1)) { d.cq.push_back({NAN, 0, 0, 0}); continue; }    // NAN: no result for this connection
                d.cq.push_back({d.q[cO] * f[c], d.q[cW] * f[c], d.q[cG] * f[c], (d.q[cRO] + d.q[cRW] + d.q[cRG]) * f[c]});
            }
        }
    }
    return D;
}

} // namespace model

// =================================================================================================================
// reference model
// =================================================================================================================
namespace ref {
using namespace model;

// product of WEFAC and the GEFACs of the groups on the path from the well's group upwards, stopping before `stopAt`
static double factor(const Model& m, int s, int w, int stopAt) {
    double f = m.steps[s].w[w].wefac;
    for (int g = m.wells[w].group; g >= 0 && g != stopAt; g = m.groups[g].parent) f *= m.steps[s].gefac[g];
    return f;
}
static bool inSubtree(const Model& m, int w, int G) { for (int g = m.wells[w].group; g >= 0; g = m.groups[g].parent) if (g == G) return true; return false; }

enum Level { WELL, GROUP, FIELD };
enum Dim { LIQ, GAS, RESV };
static Dim dimOf(int c) { return (c == cG || c == cDG) ? GAS : (c >= cRO && c <= cRG ? RESV : LIQ); }
static double volUnit(const Units& u, Dim d) { return d == GAS ? u.gas : (d == RESV ? u.rv : u.liq); }

struct Eval {            // one evaluation: schedule step s, dynamic results D, step length dt
    const Model& m; int s; const Dyn& D; double dt;
    // flow of component c of well w in the direction asked for; history: the observed rate of the schedule
    double wellFlow(int w, int c, bool inj, bool hist) const {
        const WellDyn& d = D.w[w];
        if (!d.flowing()) return 0.0;                                 // shut wells contribute nothing (also to history vectors)
        if (!hist) return inj ? std::max(d.q[c], 0.0) : std::max(-d.q[c], 0.0);
        const MWell& X = m.wells[w];
        if (X.inj != inj || c > cG || s < X.ctrlStep) return 0.0;
        const Units& u = m.u();
        if (X.inj) return c == X.injPhase ? m.steps[s].w[w].hrate[0] * volUnit(u, dimOf(c)) / u.time : 0.0;
        return m.steps[s].w[w].hrate[c] * volUnit(u, dimOf(c)) / u.time;
    }
    // efficiency-weighted sum over the wells of an entity; total: weights of a cumulative
    double sum(Level L, int e, int c, bool inj, bool hist, bool total) const {
        double v = 0;
        for (int w = 0; w < (int)m.wells.size(); ++w) {
            if (s < m.wells[w].defStep) continue;
            if (L == WELL && w != e) continue;
            if (L == GROUP && !inSubtree(m, w, e)) continue;
            double wt = 1.0;
            if (L == WELL) wt = total ? factor(m, s, w, -2) : 1.0;
            else if (L == GROUP) wt = total ? factor(m, s, w, -2) : factor(m, s, w, e);
            else wt = factor(m, s, w, -2);
            v += wt * wellFlow(w, c, inj, hist);
        }
        return v;
    }
};

// decoded mnemonic (without the level letter)
struct Mnemonic {
    enum Kind { RATE, TOTAL, RATIO } kind = RATE;
    bool inj = false, hist = false;
    std::vector<int> plus, minus, den;      // components
    int ratioUnit = 0;                      // 0 none, 1 gas/liquid, 2 liquid/gas
};
static std::optional<Mnemonic> decode(const std::string& b) {
    Mnemonic k;
    std::string s = b;
    if (s.size() >= 4 && s.back() == 'H') { k.hist = true; s.pop_back(); }
    auto phases = [](char c, std::vector<int>& out) { switch (c) { case 'O': out = {cO}; return true; case 'W': out = {cW}; return true; case 'G': out = {cG}; return true; case 'L': out = {cO, cW}; return true; case 'V': out = {cRO, cRW, cRG}; return true; } return false; };
    if (s == "WCT") { k.kind = Mnemonic::RATIO; k.plus = {cW}; k.den = {cO, cW}; return k; }
    if (s == "GOR") { k.kind = Mnemonic::RATIO; k.plus = {cG}; k.den = {cO}; k.ratioUnit = 1; return k; }
    if (s == "GLR") { k.kind = Mnemonic::RATIO; k.plus = {cG}; k.den = {cO, cW}; k.ratioUnit = 1; return k; }
    if (s == "OGR") { k.kind = Mnemonic::RATIO; k.plus = {cO}; k.den = {cG}; k.ratioUnit = 2; return k; }
    if (s == "WGR") { k.kind = Mnemonic::RATIO; k.plus = {cW}; k.den = {cG}; k.ratioUnit = 2; return k; }
    if (s.size() == 3 && phases(s[0], k.plus) && (s[1] == 'P' || s[1] == 'I') && (s[2] == 'R' || s[2] == 'T')) {
        if (k.hist && s[0] == 'V') return std::nullopt;
        k.inj = s[1] == 'I'; k.kind = s[2] == 'T' ? Mnemonic::TOTAL : Mnemonic::RATE; return k;
    }
    if (!k.hist && s.size() == 4 && s[1] == 'P' && (s[2] == 'R' || s[2] == 'T') && (s[3] == 'S' || s[3] == 'F') && (s[0] == 'G' || s[0] == 'O')) {
        // solution gas / vaporised oil (S) and the free remainder (F)
        k.kind = s[2] == 'T' ? Mnemonic::TOTAL : Mnemonic::RATE;
        const int all = s[0] == 'G' ? cG : cO, sol = s[0] == 'G' ? cDG : cVO;
        if (s[3] == 'S') k.plus = {sol}; else { k.plus = {all}; k.minus = {sol}; }
        return k;
    }
    return std::nullopt;
}

struct Reference {
    const Model& m;
    std::map<std::string, double> totals;           // SI volumes, by SummaryState key
    std::set<std::string> undecided;                // keys whose value the property does not decide (and stay so)
    explicit Reference(const Model& mm) : m(mm) {}

    // value of `key` = mnemonic of entity e at level L in deck units, after evaluation ev
    double value(const Eval& ev, Level L, int e, const Mnemonic& k, const std::string& key, bool advance) {
        const Units& u = m.u();
        const bool total = k.kind == Mnemonic::TOTAL;
        auto part = [&](const std::vector<int>& cs) { double v = 0; for (int c : cs) v += ev.sum(L, e, c, k.inj, k.hist, total); return v; };
        if (k.kind == Mnemonic::RATIO) {
            const double n = part(k.plus), d = part(k.den);
            double r = d == 0 ? 0.0 : n / d;
            if (k.ratioUnit == 1) r /= u.gas / u.liq; else if (k.ratioUnit == 2) r /= u.liq / u.gas;
            return r;
        }
        const double si = part(k.plus) - part(k.minus);
        const double vu = volUnit(u, dimOf(k.plus[0]));
        if (!total) return si / (vu / u.time);
        if (advance) totals[key] += si * ev.dt;        // cumulative: previous value + rate * efficiency factors * step length
        return totals[key] / vu;
    }
    // does a well with rate targets (prediction mode) contribute to this history vector now?
    bool historyUndecided(const Eval& ev, Level L, int e, const Mnemonic& k) const {
        if (!k.hist) return false;
        for (int w = 0; w < (int)m.wells.size(); ++w) {
            const MWell& X = m.wells[w];
            if (!X.target || ev.s < X.ctrlStep || !ev.D.w[w].flowing()) continue;
            if (L == WELL && w != e) continue;
            if (L == GROUP && !inSubtree(m, w, e)) continue;
            return true;
        }
        return false;
    }
};
} // namespace ref

// =================================================================================================================
// the library under test
// =================================================================================================================
using namespace Opm;

struct Built {
    Deck deck;
    std::unique_ptr<EclipseState> es;
    std::unique_ptr<Schedule> sched;
    std::unique_ptr<SummaryConfig> cfg;
};
static std::unique_ptr<Built> build(Parser& parser, const std::string& text, const std::shared_ptr<Python>& python) {
    auto b = std::make_unique<Built>();
    b->deck = parser.parseString(text);
    b->es = std::make_unique<EclipseState>(b->deck);
    b->sched = std::make_unique<Schedule>(b->deck, *b->es, python);
    b->cfg = std::make_unique<SummaryConfig>(b->deck, *b->sched, b->es->fieldProps(), b->es->aquifer());
    return b;
}

static data::Wells toData(const model::Model& m, const model::Dyn& D) {
    using namespace model;
    using rt = data::Rates::opt;
    data::Wells out;
    for (size_t w = 0; w < m.wells.size(); ++w) {
        const MWell& X = m.wells[w]; const WellDyn& d = D.w[w];
        if (!d.present) continue;
        auto& xw = out[X.name];
        xw.dynamicStatus = d.status == OPEN ? ::Opm::Well::Status::OPEN : (d.status == SHUT ? ::Opm::Well::Status::SHUT : ::Opm::Well::Status::STOP);
        xw.current_control.isProducer = !X.inj;
        if (!X.inj) xw.current_control.prod = ::Opm::Well::ProducerCMode::BHP; else xw.current_control.inj = ::Opm::Well::InjectorCMode::BHP;
        xw.bhp = 2.0e7; xw.thp = 1.0e6;
        if (d.rates)
            xw.rates.set(rt::oil, d.q[cO]).set(rt::wat, d.q[cW]).set(rt::gas, d.q[cG])
                .set(rt::reservoir_oil, d.q[cRO]).set(rt::reservoir_water, d.q[cRW]).set(rt::reservoir_gas, d.q[cRG])
                .set(rt::dissolved_gas, d.q[cDG]).set(rt::vaporized_oil, d.q[cVO]);
        if (d.conns) {
            for (size_t c = 0; c < X.conns.size(); ++c) {
                if (std::isnan(d.cq[c][0])) continue;
                data::Connection xc{};
                xc.index = (std::size_t)X.conns[c].gidx;
                xc.rates.set(rt::oil, d.cq[c][0]).set(rt::wat, d.cq[c][1]).set(rt::gas, d.cq[c][2]);
                xc.reservoir_rate = d.cq[c][3];
                xc.pressure = 1.9e7;
                xc.filtrate = data::ConnectionFiltrate{0, 0, 0, 0, 0, 0, 0, 0};
                xw.connections.push_back(xc);
            }
        }
    }
    return out;
}

// ---- harvest: which mnemonics does the tree under test accept? -----------------------------------------------------
static const char* HARVEST_BASE =
    "START\n 1 'JAN' 2020 /\nRUNSPEC\nDIMENS\n 10 10 3 /\nWELLDIMS\n 10 5 12 10 /\nOIL\nGAS\nWATER\nGRID\nDX\n300*100 /\nDY\n300*100 /\nDZ\n300*10 /\n"
    "TOPS\n100*2000 /\nPERMX\n300*100 /\nPERMY\n300*100 /\nPERMZ\n300*10 /\nPORO\n300*0.2 /\nSUMMARY\n@@\nSCHEDULE\n"
    "GRUPTREE\n 'G1' 'FIELD' /\n 'G2' 'G1' /\n/\nWELSPECS\n 'W1' 'G2' 1 1 1* OIL /\n 'W2' 'G2' 2 1 1* WATER /\n/\n"
    "COMPDAT\n 'W1' 1 1 1 2 OPEN /\n 'W2' 2 1 1 2 OPEN /\n/\nCOMPLUMP\n 'W1' 1 1 1 2 1 /\n 'W2' 2 1 1 2 1 /\n/\n"
    "WCONHIST\n 'W1' OPEN ORAT 10 10 10 /\n/\nWCONINJH\n 'W2' WATER OPEN 10 /\n/\nTSTEP\n 1 /\nEND\n";

struct Harvest {
    model::Keywords kw;
    std::vector<std::string> accepted, rejected, noValue;
    std::set<std::string> evaluated;     // mnemonics that produce a SummaryState value
};

static Harvest harvest(Parser& parser, const std::shared_ptr<Python>& python) {
    Harvest h;
    auto withSummary = [](const std::string& sec) { std::string t = HARVEST_BASE; t.replace(t.find("@@"), 2, sec); return t; };
    auto base = build(parser, withSummary(""), python);
    struct Cand { std::string kw; int cls; };      // 0 well 1 group 2 field 3 conn 4 well-completion 5 connection-completion 6 misc
    std::vector<Cand> cands;
    const char LV[3] = {'W', 'G', 'F'};
    for (int l = 0; l < 3; ++l) {
        for (char p : std::string("OWGLV")) for (char d : std::string("PI")) for (const char* suf : {"R", "T", "RH", "TH"})
            cands.push_back({std::string(1, LV[l]) + p + d + suf, l});
        for (const char* r : {"WCT", "GOR", "GLR", "OGR", "WGR"}) for (const char* suf : {"", "H"}) cands.push_back({std::string(1, LV[l]) + r + suf, l});
        for (const char* x : {"GPRS", "GPRF", "OPRS", "OPRF", "GPTS", "GPTF", "OPTS", "OPTF"}) cands.push_back({std::string(1, LV[l]) + x, l});
    }
    for (char p : std::string("OWGV")) for (char d : std::string("PI")) for (char t : std::string("RT")) cands.push_back({std::string("C") + p + d + t, 3});
    cands.push_back({"CWCT", 3}); cands.push_back({"CGOR", 3});
    for (char p : std::string("OWGL")) for (char d : std::string("PI")) for (char t : std::string("RT")) cands.push_back({std::string("W") + p + d + t + "L", 4});
    cands.push_back({"WWCTL", 4}); cands.push_back({"WGORL", 4});
    for (char p : std::string("OWG")) for (char d : std::string("PI")) for (char t : std::string("RT")) cands.push_back({std::string("C") + p + d + t + "L", 5});
    for (const char* x : {"DATE", "DAY", "MONTH", "YEAR", "TIMESTEP"}) cands.push_back({x, 6});   // DATE: meta keyword for DAY, MONTH, YEAR
    for (auto& c : cands) {
        std::string sec;
        switch (c.cls) {
        case 0: case 1: sec = c.kw + "\n/\n"; break;
        case 2: case 6: sec = c.kw + "\n"; break;
        case 3: sec = c.kw + "\n '*' /\n/\n"; break;
        case 4: sec = c.kw + "\n 'W1' 1 /\n 'W2' 1 /\n/\n"; break;
        case 5: sec = c.kw + "\n 'W1' /\n 'W2' /\n/\n"; break;
        }
        bool ok = false;
        try {
            Deck deck = parser.parseString(withSummary(sec));
            SummaryConfig cfg(deck, *base->sched, base->es->fieldProps(), base->es->aquifer());
            ok = cfg.size() > 0;       // the keyword alone produced at least one summary node
        } catch (const std::exception&) { ok = false; }
        if (!ok) { h.rejected.push_back(c.kw); continue; }
        h.accepted.push_back(c.kw);
        switch (c.cls) {
        case 0: h.kw.well.push_back(c.kw); break; case 1: h.kw.group.push_back(c.kw); break; case 2: h.kw.field.push_back(c.kw); break;
        case 3: h.kw.conn.push_back(c.kw); break; case 4: h.kw.wcompl.push_back(c.kw); break; case 5: h.kw.ccompl.push_back(c.kw); break;
        case 6: h.kw.misc.push_back(c.kw); break;
        }
    }
    // which of the accepted ones does the evaluator produce a value for?
    std::ostringstream sec;
    for (auto& k : h.kw.well) sec << k << "\n/\n"; for (auto& k : h.kw.group) sec << k << "\n/\n"; for (auto& k : h.kw.field) sec << k << "\n";
    for (auto& k : h.kw.misc) sec << k << "\n"; for (auto& k : h.kw.conn) sec << k << "\n '*' /\n/\n";
    for (auto& k : h.kw.wcompl) sec << k << "\n 'W1' 1 /\n 'W2' 1 /\n/\n"; for (auto& k : h.kw.ccompl) sec << k << "\n 'W1' /\n 'W2' /\n/\n";
    auto full = build(parser, withSummary(sec.str()), python);
    out::Summary smry(*full->cfg, *full->es, full->es->getInputGrid(), *full->sched, "");
    SummaryState st(TimeService::from_time_t(full->sched->getStartTime()), 0.0);
    smry.eval(st, 1, 86400.0, {}, {}, {}, {}, {}, {}, {});
    for (const auto& kv : st) h.evaluated.insert(kv.first.substr(0, kv.first.find(':')));
    for (auto& k : h.accepted) if (!h.evaluated.count(k == "DATE" ? std::string("DAY") : k)) h.noValue.push_back(k);
    return h;
}

int main(int argc, char** argv) {
    vh::Args args = vh::parse_args(argc, argv);
    vh::Reporter rep(args, "C09");
    Parser parser;
    auto python = std::make_shared<Python>();
    const double TOL = args.getd("tol", 1e-9);       // relative; the statement's "equals" up to rounding of unit conversions and summation order
    const double perturb = args.getd("perturb", 0.0); // self-test: relative perturbation of the reference efficiency factors

    Harvest hv;
    try { hv = harvest(parser, python); }
    catch (const std::exception& e) { fprintf(stderr, "c09_summary: harvest failed: %s\n", e.what()); return 3; }
    // (cover categories are split by the first two letters so that the complete lists survive in the evidence file)
    for (auto& k : hv.accepted) rep.cover("harvest_accepted_" + k.substr(0, 2), k);
    for (auto& k : hv.rejected) rep.cover("harvest_rejected", k);
    for (auto& k : hv.noValue) rep.cover("harvest_accepted_but_never_evaluated", k);

    rep.run_cases([&](long idx, Rng& rng) {
        using namespace model;
        Model m = generate(rng);
        if (idx % 2 == 1) {
            for (auto* lst : {&hv.kw.well, &hv.kw.group, &hv.kw.field}) for (auto& kw : *lst) if (rng.chance(0.5)) m.notRequested.insert(kw);
            m.firstWellOnly = rng.chance(0.5);
            rep.count("cases_with_thinned_summary_section");
        }
        const std::string text = render(m, hv.kw);
        const uint64_t h = vh::fnv(text);
        std::unique_ptr<Built> b;
        try { b = build(parser, text, python); }
        catch (const std::exception& e) {
            // the generator only writes decks the statement covers: a refusal is reported, not swallowed
            std::string w = e.what();
            rep.violation("deck-refused", "generated model refused: " + w.substr(0, 300), text + "\n" + w);
            rep.case_done(h, false);
            return;
        }
        const Schedule& sched = *b->sched;
        std::unique_ptr<out::Summary> smry;
        try { smry = std::make_unique<out::Summary>(*b->cfg, *b->es, b->es->getInputGrid(), sched, ""); }
        catch (const std::exception& e) {
            std::string w = e.what();
            rep.violation("summary-ctor-refused", "out::Summary refused the configuration: " + w.substr(0, 300), text + "\n" + w);
            rep.case_done(h, false);
            return;
        }
        SummaryState st(TimeService::from_time_t(sched.getStartTime()), 0.0);
        ref::Reference R(m);
        if (perturb != 0.0) for (auto& S : m.steps) for (auto& g : S.gefac) if (g != 1.0) g *= 1.0 + perturb;

        // expected keys: (key, level, entity, mnemonic)
        struct KeyInfo { ref::Level L; int e; ref::Mnemonic k; std::string kw; };
        std::map<std::string, KeyInfo> modelled;
        auto addKeys = [&](const std::vector<std::string>& kws) {
            for (auto& kw : kws) {
                auto k = ref::decode(kw.substr(1));
                if (!k) continue;
                if (kw[0] == 'W') for (int w = 0; w < (int)m.wells.size(); ++w) modelled[kw + ":" + m.wells[w].name] = {ref::WELL, w, *k, kw};
                else if (kw[0] == 'G') for (int g = 0; g < (int)m.groups.size(); ++g) modelled[kw + ":" + m.groups[g].name] = {ref::GROUP, g, *k, kw};
                else modelled[kw] = {ref::FIELD, 0, *k, kw};
            }
        };
        // every mnemonic of the families, whether requested or not (the library always evaluates the restart vectors)
        {
            std::vector<std::string> all;
            for (char L : std::string("WGF")) {
                for (char p : std::string("OWGLV")) for (char d : std::string("PI")) for (const char* suf : {"R", "T", "RH", "TH"}) all.push_back(std::string(1, L) + p + d + suf);
                for (const char* r : {"WCT", "GOR", "GLR", "OGR", "WGR"}) for (const char* suf : {"", "H"}) all.push_back(std::string(1, L) + r + suf);
                for (const char* x : {"GPRS", "GPRF", "OPRS", "OPRF", "GPTS", "GPTF", "OPTS", "OPTF"}) all.push_back(std::string(1, L) + x);
            }
            addKeys(all);
        }
        // requested and evaluated => must be present
        std::vector<std::string> mustHave;
        for (auto* lst : {&hv.kw.well, &hv.kw.group, &hv.kw.field}) for (auto& kw : *lst) {
            if (!hv.evaluated.count(kw)) continue;
            if (m.notRequested.count(kw)) continue;
            if (kw[0] == 'W') { for (auto& X : m.wells) { mustHave.push_back(kw + ":" + X.name); if (m.firstWellOnly) break; } }
            else if (kw[0] == 'G') for (auto& G : m.groups) mustHave.push_back(kw + ":" + G.name);
            else mustHave.push_back(kw);
        }

        std::map<std::string, double> connTotals;        // SI
        long long prevSecs = 0;
        bool sawShut = false, sawInjFlow = false, sawCross = false;
        long comparisons = 0, nEval = 0;
        double maxErr = 0;
        std::map<std::string, std::string> firstBad;     // violation key -> description
        std::ostringstream trace;
        trace.precision(17);

        auto compare = [&](const std::string& vkey, const std::string& key, double got, double want, const std::string& ctx) {
            ++comparisons;
            const double e = vh::reldiff(got, want);
            const bool ok = std::isfinite(got) && std::isfinite(want) && std::fabs(got - want) <= TOL * std::max(std::fabs(got), std::fabs(want)) + 1e-12;   // a non-finite value never passes (inf <= TOL*inf would)
            //    // 1e-12 absolute: values are O(1e-3..1e12) in deck units
            if (ok) { if (std::isfinite(e) && std::fabs(got - want) > 1e-12) maxErr = std::max(maxErr, e); return; }
            if (!firstBad.count(vkey)) {
                std::ostringstream o; o.precision(17);
                o << key << " = " << got << ", reference " << want << " (" << ctx << ")";
                firstBad[vkey] = o.str();
            }
        };

        auto evalAndCheck = [&](int reportStep, long long secs, bool libraryTime) {
            const int s = std::max(0, reportStep - 1);
            Dyn D;
            if (reportStep == 0) D.w.resize(m.wells.size()); else D = genDyn(rng, m, s);
            double t = (double)secs;
            if (libraryTime) t = sched.seconds((std::size_t)reportStep);     // the schedule's own end-of-step time, as a simulator would use
            data::Wells xw = toData(m, D);
            try { smry->eval(st, reportStep, t, xw, {}, {}, {}, {}, {}, {}); }
            catch (const std::exception& e) {
                firstBad["eval-throws"] = std::string("Summary::eval threw: ") + std::string(e.what()).substr(0, 200);
                return false;
            }
            ++nEval;
            const double dt = (double)(secs - prevSecs);
            prevSecs = secs;
            ref::Eval ev{m, s, D, dt};
            std::ostringstream ctxs; ctxs << "report step " << reportStep << ", elapsed " << secs << " s, dt " << dt << " s";
            const std::string ctx = ctxs.str();
            for (size_t w = 0; w < m.wells.size(); ++w) {
                if (D.w[w].present && D.w[w].status == SHUT) sawShut = true;
                if (!D.w[w].present && s >= m.wells[w].defStep && reportStep > 0) sawShut = true;
                if (D.w[w].flowing() && m.wells[w].inj && D.w[w].rates) sawInjFlow = true;
                if (D.w[w].crossflow) sawCross = true;
            }
            // 1. expected values of the W/G/F families
            std::map<std::string, double> want;
            for (auto& kv : modelled) {
                const auto& ki = kv.second;
                if (R.historyUndecided(ev, ki.L, ki.e, ki.k)) R.undecided.insert(kv.first);
                want[kv.first] = R.value(ev, ki.L, ki.e, ki.k, kv.first, true);
            }
            // 2. connection and completion vectors
            const Units& u = m.u();
            for (size_t w = 0; w < m.wells.size(); ++w) {
                const MWell& X = m.wells[w]; const WellDyn& d = D.w[w];
                const bool exists = s >= X.defStep;
                const double fall = exists ? ref::factor(m, s, (int)w, -2) : 1.0;
                std::map<int, std::array<double, 4>> perCompl;      // completion -> production-positive o,w,g (SI)
                for (size_t c = 0; c < X.conns.size(); ++c) {
                    std::array<double, 4> q = {0, 0, 0, 0};
                    if (exists && d.flowing() && d.conns && !std::isnan(d.cq[c][0])) q = d.cq[c];
                    const std::string tail = ":" + X.name + ":" + std::to_string(X.conns[c].gidx + 1);
                    const char PH[4] = {'O', 'W', 'G', 'V'};
                    for (int p = 0; p < 4; ++p) for (int dir = 0; dir < 2; ++dir) {
                        // a connection vector reports the flow of a well operating in that direction, positive in that direction
                        const bool active = (dir == 1) == X.inj;
                        const double r = active ? (dir ? q[p] : -q[p]) : 0.0;
                        const double vu = p == 2 ? u.gas : (p == 3 ? u.rv : u.liq);
                        const std::string base = std::string("C") + PH[p] + (dir ? "I" : "P");
                        want[base + "R" + tail] = r / (vu / u.time);
                        double& tot = connTotals[base + "T" + tail];
                        tot += r * fall * dt;
                        want[base + "T" + tail] = tot / vu;
                    }
                    const double po = X.inj ? 0.0 : -q[0], pw = X.inj ? 0.0 : -q[1], pg = X.inj ? 0.0 : -q[2];
                    want["CWCT" + tail] = (po + pw) == 0 ? 0.0 : pw / (po + pw);
                    want["CGOR" + tail] = po == 0 ? 0.0 : (pg / po) / (u.gas / u.liq);
                    if (X.lumped) { auto& a = perCompl[X.conns[c].complnum]; for (int p = 0; p < 3; ++p) a[p] += q[p]; }
                }
                if (X.lumped) {
                    auto complValues = [&](const std::string& pre, const std::string& tail, const std::array<double, 4>& q, bool withL) {
                        const char PH[3] = {'O', 'W', 'G'};
                        for (int p = 0; p < 3; ++p) for (int dir = 0; dir < 2; ++dir) {
                            const bool active = (dir == 1) == X.inj;
                            const double r = active ? (dir ? q[p] : -q[p]) : 0.0;
                            const double vu = p == 2 ? u.gas : u.liq;
                            const std::string base = pre + PH[p] + (dir ? "I" : "P");
                            want[base + "RL" + tail] = r / (vu / u.time);
                            double& tot = connTotals[base + "TL" + tail];
                            tot += r * fall * dt;
                            want[base + "TL" + tail] = tot / vu;
                        }
                        if (withL) {
                            const double l = X.inj ? 0.0 : -(q[0] + q[1]);
                            want[pre + "LPRL" + tail] = l / (u.liq / u.time);
                            double& tot = connTotals[pre + "LPTL" + tail];
                            tot += l * fall * dt;
                            want[pre + "LPTL" + tail] = tot / u.liq;
                            const double po = X.inj ? 0.0 : -q[0], pw = X.inj ? 0.0 : -q[1], pg = X.inj ? 0.0 : -q[2];
                            want[pre + "WCTL" + tail] = (po + pw) == 0 ? 0.0 : pw / (po + pw);
                            want[pre + "GORL" + tail] = po == 0 ? 0.0 : (pg / po) / (u.gas / u.liq);
                        }
                    };
                    for (auto& pc : perCompl) complValues("W", ":" + X.name + ":" + std::to_string(pc.first), pc.second, true);
                    for (auto& c : X.conns) complValues("C", ":" + X.name + ":" + std::to_string(c.gidx + 1), perCompl[c.complnum], false);
                }
            }
            // 3. time
            want["TIME"] = (double)secs / u.time;
            want["YEARS"] = (double)secs / (365.25 * 86400.0);
            want["TIMESTEP"] = dt / u.time;
            {
                Civil c = civil_from_days(m.startDays + (long)(secs / 86400));
                want["DAY"] = c.d; want["MONTH"] = c.m; want["YEAR"] = (double)c.y;
            }
            // compare every value of the SummaryState
            for (const auto& kv : st) {
                const std::string kw = kv.first.substr(0, kv.first.find(':'));
                auto it = want.find(kv.first);
                if (it == want.end()) { rep.cover("unmodelled_keyword_" + kw.substr(0, 1), kw); continue; }
                if (R.undecided.count(kv.first)) { rep.count("history_values_not_decided"); continue; }
                rep.cover("compared_keyword_" + kw.substr(0, 2), kw);
                compare("value:" + kw, kv.first, kv.second, it->second, ctx);
                // the typed accessors must serve the same number as the flat key
                auto mi = modelled.find(kv.first);
                if (mi != modelled.end() && mi->second.L != ref::FIELD) {
                    const auto& ki = mi->second;
                    const bool isW = ki.L == ref::WELL;
                    const std::string& ent = isW ? m.wells[ki.e].name : m.groups[ki.e].name;
                    const bool has = isW ? st.has_well_var(ent, kw) : st.has_group_var(ent, kw);
                    const double v = !has ? NAN : (isW ? st.get_well_var(ent, kw) : st.get_group_var(ent, kw));
                    ++comparisons;
                    if (!(v == kv.second) && !firstBad.count("accessor:" + kw)) {
                        std::ostringstream o; o.precision(17);
                        o << (isW ? "get_well_var(" : "get_group_var(") << ent << ", " << kw << ") = " << v << " but get(" << kv.first << ") = " << kv.second << " (" << ctx << ")";
                        firstBad["accessor:" + kw] = o.str();
                    }
                }
            }
            for (auto& key : mustHave) if (!st.has(key)) {
                const std::string kw = key.substr(0, key.find(':'));
                if (!firstBad.count("missing:" + kw)) firstBad["missing:" + kw] = key + " requested in SUMMARY but absent from SummaryState (" + ctx + ")";
            }
            if (std::fabs(st.get_elapsed() - (double)secs) > 1e-9 * std::max(1.0, (double)secs))
                if (!firstBad.count("elapsed")) { std::ostringstream o; o.precision(17); o << "SummaryState elapsed " << st.get_elapsed() << " s, model " << secs << " s (" << ctx << ")"; firstBad["elapsed"] = o.str(); }
            trace << ctx << ":";
            for (size_t w = 0; w < m.wells.size(); ++w) {
                const WellDyn& d = D.w[w];
                trace << " " << m.wells[w].name << "=" << (!d.present ? "absent" : STATUS_NAME[d.status]);
                if (d.rates) trace << "[" << d.q[cO] << "," << d.q[cW] << "," << d.q[cG] << "|" << d.q[cRO] << "," << d.q[cRW] << "," << d.q[cRG] << "|" << d.q[cDG] << "," << d.q[cVO] << (d.conns ? "|conn" : "") << "]";
            }
            trace << "\n";
            return true;
        };

        bool alive = true;
        if (m.initialEval) alive = evalAndCheck(0, 0, true);
        for (size_t s = 0; alive && s < m.steps.size(); ++s)
            for (size_t k = 0; alive && k < m.steps[s].mini.size(); ++k)
                alive = evalAndCheck((int)s + 1, m.steps[s].mini[k], k + 1 == m.steps[s].mini.size());

        // evidence
        int maxDepth = 0; bool anyFactor = false, anyInj = false, anyHist = false, anyLate = false;
        for (size_t g = 0; g < m.groups.size(); ++g) maxDepth = std::max(maxDepth, depth(m, (int)g));
        for (auto& S : m.steps) { for (double g : S.gefac) if (g != 1.0) anyFactor = true; for (auto& ws : S.w) if (ws.wefac != 1.0) anyFactor = true; }
        for (auto& X : m.wells) { anyInj = anyInj || X.inj; anyHist = anyHist || X.hist; anyLate = anyLate || X.defStep > 0 || X.ctrlStep > X.defStep; }
        const bool nontrivial = maxDepth >= 2 && anyFactor && anyInj && sawInjFlow && sawShut && firstBad.count("eval-throws") == 0;
        rep.case_done(h, nontrivial);
        rep.count("comparisons", comparisons);
        rep.count("evaluations_of_summary", nEval);
        rep.maxof("max_rel_err_within_tolerance", maxErr);
        rep.cover("unit_system", m.u().name);
        rep.cover("tree_depth", std::to_string(maxDepth));
        rep.cover("wells", std::to_string(m.wells.size()));
        rep.cover("groups", std::to_string(m.groups.size()));
        rep.cover("report_steps", std::to_string(m.steps.size()));
        rep.cover("features", "initial_eval_at_step_0", m.initialEval);
        rep.cover("features", "history_wells", anyHist);
        rep.cover("features", "wells_defined_or_opened_later", anyLate);
        rep.cover("features", "crossflow_phase", sawCross);
        rep.cover("features", "shut_well_seen", sawShut);
        rep.cover("features", "efficiency_factor_ne_1", anyFactor);
        rep.cover("features", "history_undecided_keys", R.undecided.empty() ? 0 : 1);
        if (idx < 2) {
            std::ostringstream o;
            o << "units " << m.u().name << ", " << m.wells.size() << " wells, " << m.groups.size() << " groups, SUMMARY section requests the "
              << hv.accepted.size() << " harvested keywords; schedule section and evaluations:\n" << text.substr(text.find("SCHEDULE\n")) << "--- evaluations (well=status[o,w,g|ro,rw,rg|dissolved gas,vaporised oil], SI, negative = production) ---\n" << trace.str();
            rep.sample(o.str(), 3, 3500);
        }
        for (auto& fb : firstBad)
            rep.violation(fb.first, fb.second, "first mismatch: " + fb.second + "\n--- deck ---\n" + text + "\n--- evaluations ---\n" + trace.str());
    });
    rep.finish();
    return 0;
}
