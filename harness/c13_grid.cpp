// C13 — grid indexing and geometry are coherent across input forms and EGRID files.
//
// Monitor.  Every case builds one grid *model* in the harness (pillar positions, corner depths, an affine
// map, ACTNUM, optional MAPAXES/MAPUNITS/NNC) and hands the same numbers to the library in up to three
// input forms: block-centred keywords (DX|DXV, DY|DYV, DZ|DZV, TOPS / DXV,DYV,DZV,DEPTHZ), the
// COORD/ZCORN keywords rendered by the harness, and the EclipseGrid(dims, coord, zcorn, actnum)
// constructor.  Oracles:
//   * index maps: (i,j,k) <-> global <-> active against the defining formulas and the ACTNUM of the
//     model, exhaustively over all cells (EclipseGrid, ActiveGridCells, EclIO::EGrid);
//   * geometry: corner positions against the model, volumes against exact references (closed form,
//     prism formula, decomposition into tetrahedra), positivity, agreement of the input forms in
//     volume / centre / depth / dims, additivity under trilinear subdivision of every cell;
//   * threads: activeVolume() (the only OpenMP loop) bit for bit with 1, 4 and 16 threads;
//   * EGRID: save -> load, formatted and unformatted, METRIC/FIELD/LAB: COORD/ZCORN to float precision,
//     ACTNUM, MAPAXES, MAPUNITS, GRIDUNIT, NNC exactly; also through the GDFILE keyword.
// mode=threads (tsan flavour): only the threaded volume computation, ThreadSanitizer is the oracle.
#include <opm/input/eclipse/Parser/Parser.hpp>
#include <opm/input/eclipse/Deck/Deck.hpp>
#include <opm/input/eclipse/EclipseState/Grid/EclipseGrid.hpp>
#include <opm/input/eclipse/EclipseState/Grid/NNC.hpp>
#include <opm/input/eclipse/EclipseState/Grid/MapAxes.hpp>
#include <opm/input/eclipse/Units/UnitSystem.hpp>
#include <opm/common/utility/ActiveGridCells.hpp>
#include <opm/io/eclipse/EGrid.hpp>
#include <opm/io/eclipse/EclFile.hpp>
#include "common/vh.hpp"
#include <omp.h>
#include <array>
#include <cstdarg>
#include <sys/wait.h>
#include <functional>
#include <limits>
#include <memory>
#include <numeric>
#include <algorithm>

using vh::Rng;

namespace {

const double NaN = std::numeric_limits<double>::quiet_NaN();

// ---------------------------------------------------------------------------------------------
// small vector algebra and the reference volume of a hexahedron with planar faces
// ---------------------------------------------------------------------------------------------
using P3 = std::array<double, 3>;
using Cell8 = std::array<P3, 8>;      // corner n = di + 2*dj + 4*dk

P3 sub(const P3& a, const P3& b) { return {a[0] - b[0], a[1] - b[1], a[2] - b[2]}; }
P3 cross(const P3& a, const P3& b) { return {a[1] * b[2] - a[2] * b[1], a[2] * b[0] - a[0] * b[2], a[0] * b[1] - a[1] * b[0]}; }
double dot(const P3& a, const P3& b) { return a[0] * b[0] + a[1] * b[1] + a[2] * b[2]; }
double norm(const P3& a) { return std::sqrt(dot(a, a)); }

// outward oriented faces of the unit cube numbering (k-, k+, j-, j+, i-, i+)
const int FACE[6][4] = {{0, 2, 3, 1}, {4, 5, 7, 6}, {0, 1, 5, 4}, {2, 6, 7, 3}, {0, 4, 6, 2}, {1, 3, 7, 5}};

P3 mean8(const Cell8& c) {
    P3 o{0, 0, 0};
    for (const auto& p : c) for (int d = 0; d < 3; ++d) o[d] += p[d];
    for (int d = 0; d < 3; ++d) o[d] /= 8.0;
    return o;
}

// exact volume of a hexahedron whose six faces are planar: divergence theorem over the faces split
// into triangles = sum of twelve tetrahedra with apex at the corner average
double hexVolumeTetra(const Cell8& c) {
    const P3 o = mean8(c);
    double s = 0;
    for (const auto& f : FACE) {
        const P3 a = sub(c[f[0]], o), b = sub(c[f[1]], o), cc = sub(c[f[2]], o), d = sub(c[f[3]], o);
        s += dot(a, cross(b, cc)) + dot(a, cross(cc, d));
    }
    return std::fabs(s) / 6.0;
}

double hexSurface(const Cell8& c) {
    double s = 0;
    for (const auto& f : FACE) {
        s += 0.5 * norm(cross(sub(c[f[1]], c[f[0]]), sub(c[f[2]], c[f[0]])));
        s += 0.5 * norm(cross(sub(c[f[2]], c[f[0]]), sub(c[f[3]], c[f[0]])));
    }
    return s;
}

// ---------------------------------------------------------------------------------------------
// the grid model: vertical pillars and corner depths in a base frame, mapped by x' = M x + t
// ---------------------------------------------------------------------------------------------
struct Base {
    int nx = 0, ny = 0, nz = 0;
    std::vector<double> px, py;      // pillar positions, (nx+1)*(ny+1), node (i,j) at i + j*(nx+1)
    std::vector<double> cz;          // base frame depth of every cell corner, ZCORN layout
    std::vector<double> plo, phi;    // base frame depths of the two points that define each pillar in COORD
    double M[3][3] = {{1, 0, 0}, {0, 1, 0}, {0, 0, 1}};
    double t[3] = {0, 0, 0};
    bool prismatic = true;           // top and bottom of every cell are planar (prism formula applies)
    std::vector<double> vbase;       // exact base frame volume per cell (NaN = unknown)

    size_t ncell() const { return (size_t)nx * ny * nz; }
    size_t node(int i, int j) const { return (size_t)i + (size_t)j * (nx + 1); }
    size_t cell(int i, int j, int k) const { return (size_t)i + (size_t)nx * ((size_t)j + (size_t)ny * k); }
    // ZCORN layout: per layer the top surface then the bottom surface; per surface, per j the front row then
    // the back row; per row two values per cell
    size_t zidx(int i, int j, int k, int n) const {
        return (size_t)(2 * i + (n & 1)) + (size_t)2 * nx * (2 * j + ((n >> 1) & 1)) + (size_t)4 * nx * ny * (2 * k + (n >> 2));
    }
    double detM() const {
        return M[0][0] * (M[1][1] * M[2][2] - M[1][2] * M[2][1]) - M[0][1] * (M[1][0] * M[2][2] - M[1][2] * M[2][0])
             + M[0][2] * (M[1][0] * M[2][1] - M[1][1] * M[2][0]);
    }
    P3 map(double x, double y, double z) const {
        return {M[0][0] * x + M[0][1] * y + M[0][2] * z + t[0], M[1][0] * x + M[1][1] * y + M[1][2] * z + t[1],
                M[2][0] * x + M[2][1] * y + M[2][2] * z + t[2]};
    }
    bool identityMap() const {
        for (int a = 0; a < 3; ++a) { if (t[a] != 0) return false; for (int b = 0; b < 3; ++b) if (M[a][b] != (a == b ? 1.0 : 0.0)) return false; }
        return true;
    }
};

// prism formula: integral of the (affine) thickness over the quadrilateral footprint, split into two triangles;
// exact when top and bottom are planar
void fillPrismVolumes(Base& b) {
    b.vbase.assign(b.ncell(), NaN);
    if (!b.prismatic) return;
    for (int k = 0; k < b.nz; ++k) for (int j = 0; j < b.ny; ++j) for (int i = 0; i < b.nx; ++i) {
        double qx[4], qy[4], h[4];
        for (int n = 0; n < 4; ++n) {
            const size_t nd = b.node(i + (n & 1), j + (n >> 1));
            qx[n] = b.px[nd]; qy[n] = b.py[nd];
            h[n] = b.cz[b.zidx(i, j, k, n + 4)] - b.cz[b.zidx(i, j, k, n)];
        }
        auto area = [&](int a, int bb, int c) { return 0.5 * ((qx[bb] - qx[a]) * (qy[c] - qy[a]) - (qx[c] - qx[a]) * (qy[bb] - qy[a])); };
        const double v = area(0, 1, 3) * (h[0] + h[1] + h[3]) / 3.0 + area(0, 3, 2) * (h[0] + h[3] + h[2]) / 3.0;
        b.vbase[b.cell(i, j, k)] = std::fabs(v);
    }
}

// a corner-point description plus the reference corner positions, in one length unit
struct Geo {
    int nx = 0, ny = 0, nz = 0;
    std::vector<double> coord, zcorn;
    std::vector<Cell8> corner;
    std::vector<double> vexact;      // NaN = unknown
    bool planarFaces = false;        // tetrahedral reference applies
    double scale[3] = {0, 0, 0};     // largest |x|, |y|, |z| of any corner or pillar point
    double smax() const { return std::max(scale[0], std::max(scale[1], scale[2])); }
};

Geo render(const Base& b, double unit) {
    Geo g;
    g.nx = b.nx; g.ny = b.ny; g.nz = b.nz;
    g.coord.resize((size_t)6 * (b.nx + 1) * (b.ny + 1));
    g.zcorn.resize(8 * b.ncell());
    g.corner.resize(b.ncell());
    g.vexact.assign(b.ncell(), NaN);
    g.planarFaces = b.prismatic;     // affine images of prisms over vertical pillars: all six faces planar
    const double ad = std::fabs(b.detM());
    for (int j = 0; j <= b.ny; ++j) for (int i = 0; i <= b.nx; ++i) {
        const size_t nd = b.node(i, j);
        const P3 a = b.map(b.px[nd], b.py[nd], b.plo[nd]), c = b.map(b.px[nd], b.py[nd], b.phi[nd]);
        for (int d = 0; d < 3; ++d) {
            g.coord[6 * nd + d] = a[d] * unit; g.coord[6 * nd + 3 + d] = c[d] * unit;
            g.scale[d] = std::max(g.scale[d], std::max(std::fabs(a[d] * unit), std::fabs(c[d] * unit)));
        }
    }
    for (int k = 0; k < b.nz; ++k) for (int j = 0; j < b.ny; ++j) for (int i = 0; i < b.nx; ++i) {
        const size_t c = b.cell(i, j, k);
        for (int n = 0; n < 8; ++n) {
            const size_t nd = b.node(i + (n & 1), j + ((n >> 1) & 1));
            const size_t zi = b.zidx(i, j, k, n);
            P3 p = b.map(b.px[nd], b.py[nd], b.cz[zi]);
            for (int d = 0; d < 3; ++d) { p[d] *= unit; g.scale[d] = std::max(g.scale[d], std::fabs(p[d])); }
            g.corner[c][n] = p;
            g.zcorn[zi] = p[2];
        }
        if (!b.vbase.empty() && !std::isnan(b.vbase[c])) g.vexact[c] = b.vbase[c] * ad * unit * unit * unit;
    }
    return g;
}

// trilinear subdivision of every cell into rx*ry*rz cells.  Because all pillars of a model are parallel the
// refined grid is again a corner-point grid; the union of the sub-cells of a cell is that cell.
Base refine(const Base& b, int rx, int ry, int rz) {
    Base r;
    r.nx = b.nx * rx; r.ny = b.ny * ry; r.nz = b.nz * rz;
    for (int a = 0; a < 3; ++a) { r.t[a] = b.t[a]; for (int c = 0; c < 3; ++c) r.M[a][c] = b.M[a][c]; }
    r.prismatic = b.prismatic;
    r.px.resize((size_t)(r.nx + 1) * (r.ny + 1)); r.py.resize(r.px.size());
    const double lo = *std::min_element(b.cz.begin(), b.cz.end()) - 10.0, hi = *std::max_element(b.cz.begin(), b.cz.end()) + 10.0;
    r.plo.assign(r.px.size(), lo); r.phi.assign(r.px.size(), hi);
    auto bil = [](double u, double v, double f00, double f10, double f01, double f11) {
        return (1 - v) * ((1 - u) * f00 + u * f10) + v * ((1 - u) * f01 + u * f11);
    };
    for (int J = 0; J <= r.ny; ++J) for (int I = 0; I <= r.nx; ++I) {
        int i = std::min(I / rx, b.nx - 1), j = std::min(J / ry, b.ny - 1);
        const double u = (double)(I - i * rx) / rx, v = (double)(J - j * ry) / ry;
        const size_t n00 = b.node(i, j), n10 = b.node(i + 1, j), n01 = b.node(i, j + 1), n11 = b.node(i + 1, j + 1);
        r.px[r.node(I, J)] = bil(u, v, b.px[n00], b.px[n10], b.px[n01], b.px[n11]);
        r.py[r.node(I, J)] = bil(u, v, b.py[n00], b.py[n10], b.py[n01], b.py[n11]);
    }
    r.cz.resize(8 * r.ncell());
    for (int K = 0; K < r.nz; ++K) for (int J = 0; J < r.ny; ++J) for (int I = 0; I < r.nx; ++I) {
        const int i = I / rx, j = J / ry, k = K / rz;
        double zt[4], zb[4];
        for (int n = 0; n < 4; ++n) { zt[n] = b.cz[b.zidx(i, j, k, n)]; zb[n] = b.cz[b.zidx(i, j, k, n + 4)]; }
        for (int n = 0; n < 8; ++n) {
            const double u = (double)(I - i * rx + (n & 1)) / rx, v = (double)(J - j * ry + ((n >> 1) & 1)) / ry, w = (double)(K - k * rz + (n >> 2)) / rz;
            const double top = bil(u, v, zt[0], zt[1], zt[2], zt[3]), bot = bil(u, v, zb[0], zb[1], zb[2], zb[3]);
            r.cz[r.zidx(I, J, K, n)] = (1 - w) * top + w * bot;
        }
    }
    fillPrismVolumes(r);
    return r;
}

} // namespace

namespace {

// ---------------------------------------------------------------------------------------------
// case generation
// ---------------------------------------------------------------------------------------------
struct UnitInfo { const char* kw; double L; const char* gridunit; };
const UnitInfo UNITS[4] = {{"METRIC", 1.0, "METRES"}, {"FIELD", 0.3048, "FEET"}, {"LAB", 0.01, "CM"}, {"PVT-M", 1.0, "METRES"}};

Opm::UnitSystem makeUnits(int u) {
    switch (u) {
    case 0: return Opm::UnitSystem::newMETRIC();
    case 1: return Opm::UnitSystem::newFIELD();
    case 2: return Opm::UnitSystem::newLAB();
    default: return Opm::UnitSystem::newPVT_M();
    }
}

struct CaseSpec {
    std::string family;              // tops | topsgap | depthz | cp
    std::string detail;              // generator choices, for the evidence and the witness
    int unit = 0;
    Base base;
    std::vector<int> actnum;
    std::string actPattern;
    // block-centred families: keyword text (deck units) and closed forms per cell (deck units)
    std::string blockKw, blockForm;
    std::vector<double> bdx, bdy, bdz, bcx, bcy, bdepth;
    bool gapped = false;             // TOPS given for all layers and not equal to TOPS+DZ of the layer above
    // extras
    bool specgrid = false, hasMapaxes = false, gridunitKw = false;
    double mapaxes[6] = {0, 0, 0, 0, 0, 0};
    int mapunits = -1;               // -1: no MAPUNITS keyword
    int gridunit = -1;               // index into UNITS of the GRIDUNIT keyword (may differ from the deck's unit system)
    std::vector<std::array<int, 6>> nncRec;   // one based i1 j1 k1 i2 j2 k2
    std::vector<double> nncTrans;
    bool degeneratePillars = false;
    bool twisted = false;
};

// SI length of one unit of the grid keywords: GRIDUNIT's unit when the keyword is there, the deck's otherwise
double lengthUnit(const CaseSpec& cs) { return UNITS[cs.gridunitKw ? cs.gridunit : cs.unit].L; }

std::string num(double v) { char b[40]; snprintf(b, sizeof b, "%.17g", v); return b; }

void putArray(std::ostringstream& o, const char* kw, const std::vector<double>& v) {
    o << kw << "\n";
    for (size_t i = 0; i < v.size(); ++i) o << " " << num(v[i]) << ((i + 1) % 4 == 0 ? "\n" : "");
    o << " /\n";
}

void putActnum(std::ostringstream& o, const std::vector<int>& a, bool repeats) {
    o << "ACTNUM\n";
    size_t col = 0;
    for (size_t i = 0; i < a.size();) {
        size_t e = i;
        while (repeats && e + 1 < a.size() && a[e + 1] == a[i]) ++e;
        if (e > i) o << " " << (e - i + 1) << "*" << a[i]; else o << " " << a[i];
        i = e + 1;
        if (++col % 20 == 0) o << "\n";
    }
    o << " /\n";
}

double pickLen(Rng& rng, int style, double lo, double hi) {
    switch (style) {
    case 0: return (double)rng.range((long)std::ceil(lo), (long)hi);           // integers
    case 1: return std::round(rng.uniform(lo, hi) * 4.0) / 4.0 + 0.25;         // multiples of 1/4
    default: return rng.uniform(lo, hi);                                       // arbitrary doubles
    }
}

void genDims(Rng& rng, int maxDim, int big, int& nx, int& ny, int& nz) {
    nx = 1 + (int)rng.below(maxDim); ny = 1 + (int)rng.below(maxDim); nz = 1 + (int)rng.below(maxDim);
    if (rng.chance(0.15)) { nx = 1 + (int)rng.below(3); ny = 1 + (int)rng.below(3); nz = 1 + (int)rng.below(3); }
    if (big > 0 && rng.chance(0.02)) { nx = big / 2 + (int)rng.below(big / 2 + 1); ny = big / 2 + (int)rng.below(big / 2 + 1); nz = 2 + (int)rng.below(std::max(1, big / 3)); }
}

void genActnum(Rng& rng, CaseSpec& cs) {
    const Base& b = cs.base;
    const size_t n = b.ncell();
    cs.actnum.assign(n, 1);
    const int mode = (int)rng.below(8);
    switch (mode) {
    case 0: cs.actPattern = "all-active"; break;
    case 1: case 2: case 3: {
        const double p = mode == 1 ? 0.1 : (mode == 2 ? 0.5 : 0.9);
        cs.actPattern = mode == 1 ? "random-10%" : (mode == 2 ? "random-50%" : "random-90%");
        for (auto& a : cs.actnum) a = rng.chance(p) ? 1 : 0;
        break; }
    case 4: {
        cs.actPattern = "inactive-layer";
        const int k = (int)rng.below(b.nz);
        for (int j = 0; j < b.ny; ++j) for (int i = 0; i < b.nx; ++i) cs.actnum[b.cell(i, j, k)] = 0;
        break; }
    case 5: {
        cs.actPattern = "checkerboard";
        for (int k = 0; k < b.nz; ++k) for (int j = 0; j < b.ny; ++j) for (int i = 0; i < b.nx; ++i) cs.actnum[b.cell(i, j, k)] = (i + j + k) & 1;
        break; }
    case 6: {
        cs.actPattern = "single-active";
        std::fill(cs.actnum.begin(), cs.actnum.end(), 0);
        cs.actnum[rng.below(n)] = 1;
        break; }
    default: {
        cs.actPattern = "inactive-column-block";
        const int i0 = (int)rng.below(b.nx), j0 = (int)rng.below(b.ny);
        for (int k = 0; k < b.nz; ++k) for (int j = j0; j < b.ny; ++j) for (int i = i0; i < b.nx; ++i) cs.actnum[b.cell(i, j, k)] = 0;
        break; }
    }
}

void genExtras(Rng& rng, CaseSpec& cs) {
    const Base& b = cs.base;
    cs.specgrid = rng.chance(0.3);
    cs.gridunitKw = rng.chance(0.3);
    // GRIDUNIT naming another length unit than the deck's: the grid keywords are then read in that unit
    cs.gridunit = cs.gridunitKw ? (rng.chance(0.5) ? cs.unit : (int)rng.below(4)) : -1;
    if (rng.chance(0.5)) {
        cs.hasMapaxes = true;
        // origin, a point on the map y axis, a point on the map x axis (not necessarily orthogonal, possibly left handed)
        const double ox = rng.uniform(-1e5, 5e5), oy = rng.uniform(-1e5, 7e6), th = rng.uniform(0, 6.283185307179586);
        const double lx = rng.uniform(1, 1000), ly = rng.uniform(1, 1000), skew = rng.chance(0.3) ? rng.uniform(-0.3, 0.3) : 0.0;
        const double sgn = rng.chance(0.3) ? -1.0 : 1.0;
        cs.mapaxes[2] = ox; cs.mapaxes[3] = oy;
        cs.mapaxes[4] = ox + lx * std::cos(th); cs.mapaxes[5] = oy + lx * std::sin(th);
        cs.mapaxes[0] = ox - sgn * ly * std::sin(th + skew); cs.mapaxes[1] = oy + sgn * ly * std::cos(th + skew);
        if (rng.chance(0.4)) for (double& v : cs.mapaxes) v = std::round(v);
        // MAPUNITS only has a meaning together with MAPAXES (the library keeps it inside MapAxes)
        cs.mapunits = rng.chance(0.6) ? (int)rng.below(3) : -1;
    }
    const int nn = rng.chance(0.6) ? (int)rng.below(7) : 0;
    for (int r = 0; r < nn; ++r) {
        std::array<int, 6> rec;
        rec[0] = 1 + (int)rng.below(b.nx); rec[1] = 1 + (int)rng.below(b.ny); rec[2] = 1 + (int)rng.below(b.nz);
        rec[3] = 1 + (int)rng.below(b.nx); rec[4] = 1 + (int)rng.below(b.ny); rec[5] = 1 + (int)rng.below(b.nz);
        if (r > 0 && rng.chance(0.15)) rec = cs.nncRec[rng.below(cs.nncRec.size())];      // duplicate pair
        cs.nncRec.push_back(rec);
        cs.nncTrans.push_back(std::round(rng.uniform(0.01, 50.0) * 100.0) / 100.0);
    }
}

// block-centred grid given by DX|DXV DY|DYV DZ|DZV TOPS.  DX depends on i only and DY on j only (otherwise no
// corner-point grid is equivalent to the block-centred description); DZ and TOPS are free per cell / column.
void genTops(Rng& rng, CaseSpec& cs, int nx, int ny, int nz, bool gaps) {
    Base& b = cs.base;
    b.nx = nx; b.ny = ny; b.nz = nz;
    const int style = (int)rng.below(3);
    std::vector<double> dxv(nx), dyv(ny);
    for (auto& v : dxv) v = pickLen(rng, style, 5, 200);
    for (auto& v : dyv) v = pickLen(rng, style, 5, 200);
    const size_t area = (size_t)nx * ny, vol = area * nz;
    // DZ
    int zform = (int)rng.below(5);       // 0 DZV, 1 DZ full layer-constant, 2 DZ full per cell, 3 DZ top layer only, 4 DZ for the upper m layers only
    if (zform == 4 && nz < 3) zform = 2;
    const int mUpper = zform == 4 ? 2 + (int)rng.below(nz - 2) : 0;    // 2 <= m < nz: the layers below repeat layer m (the layer above them)
    std::vector<double> dz(vol), dzv(nz);
    for (auto& v : dzv) v = pickLen(rng, style, 0.5, 20);
    for (int k = 0; k < nz; ++k) for (size_t c = 0; c < area; ++c) {
        if (zform <= 1) dz[k * area + c] = dzv[k];
        else if (zform == 2) dz[k * area + c] = pickLen(rng, style, 0.5, 20);
        else if (zform == 3) dz[k * area + c] = k == 0 ? pickLen(rng, style, 0.5, 20) : dz[c];
        else dz[k * area + c] = k < mUpper ? pickLen(rng, style, 0.5, 20) : dz[(k - 1) * area + c];
    }
    // TOPS of the top layer
    std::vector<double> tops(vol);
    const double t0 = pickLen(rng, style, 0, 3000);
    const bool varyTops = rng.chance(0.5);
    for (size_t c = 0; c < area; ++c) tops[c] = varyTops ? t0 + pickLen(rng, style, 0, 60) : t0;
    bool topsFull = gaps || rng.chance(0.35);
    for (int k = 1; k < nz; ++k) for (size_t c = 0; c < area; ++c) {
        double g = 0;
        if (gaps && rng.chance(0.5)) g = pickLen(rng, 1, 0.5, 10);
        if (g > 0) cs.gapped = true;
        tops[k * area + c] = tops[(k - 1) * area + c] + dz[(k - 1) * area + c] + g;
    }
    if (gaps && !cs.gapped && nz > 1) {
        // no gap drawn: open one below the top layer and stack the deeper layers again (same expression as above, so that
        // bottom of layer k and top of layer k+1 stay the same double)
        for (size_t c = 0; c < area; ++c) tops[area + c] += 2.5;
        for (int k = 2; k < nz; ++k) for (size_t c = 0; c < area; ++c) tops[k * area + c] = tops[(k - 1) * area + c] + dz[(k - 1) * area + c];
        cs.gapped = true;
    }
    // model
    std::vector<double> X(nx + 1, 0.0), Y(ny + 1, 0.0);
    for (int i = 0; i < nx; ++i) X[i + 1] = X[i] + dxv[i];
    for (int j = 0; j < ny; ++j) Y[j + 1] = Y[j] + dyv[j];
    b.px.resize((size_t)(nx + 1) * (ny + 1)); b.py.resize(b.px.size());
    for (int j = 0; j <= ny; ++j) for (int i = 0; i <= nx; ++i) { b.px[b.node(i, j)] = X[i]; b.py[b.node(i, j)] = Y[j]; }
    b.cz.resize(8 * vol);
    cs.bdx.resize(vol); cs.bdy.resize(vol); cs.bdz.resize(vol); cs.bcx.resize(vol); cs.bcy.resize(vol); cs.bdepth.resize(vol);
    b.vbase.resize(vol);
    double zmin = 1e300, zmax = -1e300;
    for (int k = 0; k < nz; ++k) for (int j = 0; j < ny; ++j) for (int i = 0; i < nx; ++i) {
        const size_t c = b.cell(i, j, k);
        const double zt = tops[c], zb = tops[c] + dz[c];
        for (int n = 0; n < 4; ++n) { b.cz[b.zidx(i, j, k, n)] = zt; b.cz[b.zidx(i, j, k, n + 4)] = zb; }
        zmin = std::min(zmin, zt); zmax = std::max(zmax, zb);
        cs.bdx[c] = dxv[i]; cs.bdy[c] = dyv[j]; cs.bdz[c] = dz[c];
        cs.bcx[c] = 0.5 * (X[i] + X[i + 1]); cs.bcy[c] = 0.5 * (Y[j] + Y[j + 1]); cs.bdepth[c] = tops[c] + 0.5 * dz[c];
        b.vbase[c] = dxv[i] * dyv[j] * dz[c];
    }
    b.plo.assign(b.px.size(), zmin); b.phi.assign(b.px.size(), zmax);
    b.prismatic = true;
    // keyword text
    std::ostringstream o;
    std::string form;
    auto horizontal = [&](const char* full, const char* vec, const std::vector<double>& dv, int dim) {
        const int f = (int)rng.below(3);   // 0 vector, 1 full array, 2 top layer only (the layers below inherit)
        if (f == 0) { putArray(o, vec, dv); form += vec; }
        else {
            std::vector<double> d(f == 1 ? vol : area);
            for (size_t c = 0; c < d.size(); ++c) d[c] = dim == 0 ? dv[c % nx] : dv[(c / nx) % ny];
            putArray(o, full, d); form += full; form += f == 1 ? "(all)" : "(top)";
        }
        form += "/";
    };
    horizontal("DX", "DXV", dxv, 0);
    horizontal("DY", "DYV", dyv, 1);
    if (zform == 0) { putArray(o, "DZV", dzv); form += "DZV/"; }
    else if (zform == 3) { putArray(o, "DZ", std::vector<double>(dz.begin(), dz.begin() + area)); form += "DZ(top)/"; }
    else if (zform == 4) { putArray(o, "DZ", std::vector<double>(dz.begin(), dz.begin() + (size_t)mUpper * area)); form += "DZ(upper-layers)/"; }
    else { putArray(o, "DZ", dz); form += "DZ(all)/"; }
    if (topsFull) { putArray(o, "TOPS", tops); form += gaps ? "TOPS(all,gaps)" : "TOPS(all)"; }
    else { putArray(o, "TOPS", std::vector<double>(tops.begin(), tops.begin() + area)); form += "TOPS(top)"; }
    cs.blockKw = o.str(); cs.blockForm = form;
    cs.detail = form + (varyTops ? " tops-vary" : " tops-flat") + " style" + std::to_string(style);
}

void genDepthz(Rng& rng, CaseSpec& cs, int nx, int ny, int nz) {
    Base& b = cs.base;
    b.nx = nx; b.ny = ny; b.nz = nz;
    const int style = (int)rng.below(3);
    std::vector<double> dxv(nx), dyv(ny), dzv(nz);
    for (auto& v : dxv) v = pickLen(rng, style, 5, 200);
    for (auto& v : dyv) v = pickLen(rng, style, 5, 200);
    for (auto& v : dzv) v = pickLen(rng, style, 0.5, 20);
    std::vector<double> X(nx + 1, 0.0), Y(ny + 1, 0.0), Z(nz + 1, 0.0);
    for (int i = 0; i < nx; ++i) X[i + 1] = X[i] + dxv[i];
    for (int j = 0; j < ny; ++j) Y[j + 1] = Y[j] + dyv[j];
    for (int k = 0; k < nz; ++k) Z[k + 1] = Z[k] + dzv[k];
    const int dmode = (int)rng.below(3);  // 0 flat, 1 plane, 2 arbitrary node depths (bilinear, non planar tops)
    const double d0 = pickLen(rng, style, 0, 3000), a = rng.uniform(-0.05, 0.05), bb = rng.uniform(-0.05, 0.05);
    std::vector<double> depthz((size_t)(nx + 1) * (ny + 1));
    b.px.resize(depthz.size()); b.py.resize(depthz.size());
    for (int j = 0; j <= ny; ++j) for (int i = 0; i <= nx; ++i) {
        const size_t nd = b.node(i, j);
        b.px[nd] = X[i]; b.py[nd] = Y[j];
        depthz[nd] = dmode == 0 ? d0 : (dmode == 1 ? d0 + 100 + a * X[i] + bb * Y[j] : d0 + pickLen(rng, style, 0, 30));
    }
    const size_t vol = b.ncell();
    b.cz.resize(8 * vol); b.vbase.resize(vol);
    cs.bdx.resize(vol); cs.bdy.resize(vol); cs.bdz.resize(vol); cs.bcx.resize(vol); cs.bcy.resize(vol); cs.bdepth.resize(vol);
    for (int k = 0; k < nz; ++k) for (int j = 0; j < ny; ++j) for (int i = 0; i < nx; ++i) {
        const size_t c = b.cell(i, j, k);
        double m = 0;
        for (int n = 0; n < 4; ++n) {
            const double d = depthz[b.node(i + (n & 1), j + (n >> 1))];
            b.cz[b.zidx(i, j, k, n)] = d + Z[k]; b.cz[b.zidx(i, j, k, n + 4)] = d + Z[k + 1];
            m += d / 4.0;
        }
        cs.bdx[c] = dxv[i]; cs.bdy[c] = dyv[j]; cs.bdz[c] = dzv[k];
        cs.bcx[c] = 0.5 * (X[i] + X[i + 1]); cs.bcy[c] = 0.5 * (Y[j] + Y[j + 1]); cs.bdepth[c] = m + 0.5 * (Z[k] + Z[k + 1]);
        b.vbase[c] = dxv[i] * dyv[j] * dzv[k];    // vertical columns of constant height over a rectangle
    }
    b.plo = depthz; b.phi = depthz;
    for (auto& v : b.phi) v += Z[nz];
    b.prismatic = dmode != 2;
    std::ostringstream o;
    putArray(o, "DXV", dxv); putArray(o, "DYV", dyv); putArray(o, "DZV", dzv); putArray(o, "DEPTHZ", depthz);
    cs.blockKw = o.str(); cs.blockForm = "DXV/DYV/DZV/DEPTHZ";
    cs.detail = std::string("DEPTHZ ") + (dmode == 0 ? "flat" : dmode == 1 ? "plane" : "nodes") + " style" + std::to_string(style);
}

void matmul(double A[3][3], const double B[3][3]) {   // A = B * A
    double R[3][3];
    for (int i = 0; i < 3; ++i) for (int j = 0; j < 3; ++j) { R[i][j] = 0; for (int k = 0; k < 3; ++k) R[i][j] += B[i][k] * A[k][j]; }
    for (int i = 0; i < 3; ++i) for (int j = 0; j < 3; ++j) A[i][j] = R[i][j];
}

// corner-point grid: vertical pillars over convex quadrilaterals, planar layer interfaces, faults, gaps,
// then an affine map (scale, dip, shear = tilted pillars, rotation, mirror, translation)
void genCp(Rng& rng, CaseSpec& cs, int nx, int ny, int nz) {
    Base& b = cs.base;
    b.nx = nx; b.ny = ny; b.nz = nz;
    std::string d;
    const int style = (int)rng.below(3);
    std::vector<double> X(nx + 1, 0.0), Y(ny + 1, 0.0);
    double hmin = 1e300;
    for (int i = 0; i < nx; ++i) { const double h = pickLen(rng, style, 20, 200); X[i + 1] = X[i] + h; hmin = std::min(hmin, h); }
    for (int j = 0; j < ny; ++j) { const double h = pickLen(rng, style, 20, 200); Y[j + 1] = Y[j] + h; hmin = std::min(hmin, h); }
    const bool perturb = rng.chance(0.5);
    if (perturb) d += " quads";
    b.px.resize((size_t)(nx + 1) * (ny + 1)); b.py.resize(b.px.size());
    for (int j = 0; j <= ny; ++j) for (int i = 0; i <= nx; ++i) {
        // displacement below a quarter of the smallest spacing keeps every footprint a convex quadrilateral
        b.px[b.node(i, j)] = X[i] + (perturb ? rng.uniform(-0.24, 0.24) * hmin : 0.0);
        b.py[b.node(i, j)] = Y[j] + (perturb ? rng.uniform(-0.24, 0.24) * hmin : 0.0);
    }
    // layer interfaces: planes c + a x + b y with a guaranteed minimum thickness over all pillars
    const bool wedge = rng.chance(0.5);
    if (wedge) d += " wedges";
    std::vector<double> pa(nz + 1), pb(nz + 1), pc(nz + 1), tmin(nz + 1, 0.0);
    pa[0] = rng.chance(0.7) ? rng.uniform(-0.08, 0.08) : 0.0; pb[0] = rng.chance(0.7) ? rng.uniform(-0.08, 0.08) : 0.0;
    pc[0] = pickLen(rng, style, 300, 3000);
    // pinch-out: in 8 % of the grids all layer interfaces meet on the first pillar (node (0,0)): the layers have zero
    // thickness there and grow linearly away from it.  (x - x0) + (y - y0) is positive on every other pillar because the
    // node displacement is below a quarter of the smallest spacing.
    const bool pinch = rng.chance(0.08);
    if (pinch) d += " pinched-first-pillar";
    for (int k = 0; k < nz; ++k) {
        if (pinch) {
            const double rate = rng.uniform(0.02, 0.1);
            pa[k + 1] = pa[k] + rate; pb[k + 1] = pb[k] + rate;
            pc[k + 1] = pc[k] - rate * (b.px[b.node(0, 0)] + b.py[b.node(0, 0)]);
            tmin[k] = rate * 0.04 * hmin;        // smallest thickness on any other pillar (scale of the twist / gap amplitudes)
            continue;
        }
        pa[k + 1] = pa[k] + (wedge ? rng.uniform(-0.02, 0.02) : 0.0);
        pb[k + 1] = pb[k] + (wedge ? rng.uniform(-0.02, 0.02) : 0.0);
        double m = 1e300;
        for (size_t n = 0; n < b.px.size(); ++n) m = std::min(m, (pa[k + 1] - pa[k]) * b.px[n] + (pb[k + 1] - pb[k]) * b.py[n]);
        tmin[k] = pickLen(rng, style, 1, 25);
        pc[k + 1] = pc[k] + tmin[k] - m;
    }
    // faults: a constant vertical throw per column
    const int fmode = (int)rng.below(3);
    std::vector<double> off((size_t)nx * ny, 0.0);
    if (fmode == 1) { d += " fault-line"; const int fi = (int)rng.below(nx); const double thr = rng.uniform(-40, 40); for (int j = 0; j < ny; ++j) for (int i = fi; i < nx; ++i) off[i + (size_t)nx * j] = thr; }
    if (fmode == 2) { d += " faulted-columns"; for (auto& v : off) v = rng.uniform(-40, 40); }
    const bool gaps = !pinch && rng.chance(0.2);
    if (gaps) d += " gaps";
    cs.twisted = !pinch && rng.chance(0.12);
    if (cs.twisted) d += " twisted";
    b.prismatic = !cs.twisted;
    b.cz.resize(8 * b.ncell());
    for (int j = 0; j < ny; ++j) for (int i = 0; i < nx; ++i) {
        for (int n = 0; n < 4; ++n) {
            const size_t nd = b.node(i + (n & 1), j + (n >> 1));
            double prevBottom = 0;
            for (int k = 0; k < nz; ++k) {
                // (on the pinched pillar every interface has EXACTLY the depth of the top surface: no rounding noise in the zero thickness)
                auto plane = [&](int kk) { if (pinch && nd == b.node(0, 0)) kk = 0; return pc[kk] + pa[kk] * b.px[nd] + pb[kk] * b.py[nd] + off[i + (size_t)nx * j]; };
                double top = k == 0 ? plane(0) : prevBottom;
                if (k == 0 && cs.twisted) top += rng.uniform(-0.2, 0.2) * tmin[0];
                double bot = plane(k + 1);
                if (cs.twisted) bot += rng.uniform(-0.2, 0.2) * std::min(tmin[k], k + 1 < nz ? tmin[k + 1] : tmin[k]);
                b.cz[b.zidx(i, j, k, n)] = top;
                b.cz[b.zidx(i, j, k, n + 4)] = bot;
                prevBottom = bot;
            }
        }
        if (gaps) for (int k = 0; k < nz; ++k) if (rng.chance(0.5)) {
            // raise the bottom face by a constant: it stays planar, a gap opens to the cell below
            const double g = rng.uniform(0.05, 0.4) * tmin[k];
            for (int n = 4; n < 8; ++n) b.cz[b.zidx(i, j, k, n)] -= g;
        }
    }
    // affine map
    double (&M)[3][3] = b.M;
    if (rng.chance(0.4)) { const double S[3][3] = {{rng.uniform(0.5, 2), 0, 0}, {0, rng.uniform(0.5, 2), 0}, {0, 0, rng.uniform(0.5, 2)}}; matmul(M, S); d += " scale"; }
    if (rng.chance(0.2)) { const double D[3][3] = {{1, 0, 0}, {0, 1, 0}, {rng.uniform(-0.05, 0.05), rng.uniform(-0.05, 0.05), 1}}; matmul(M, D); d += " dip"; }
    if (rng.chance(0.45)) { const double S[3][3] = {{1, 0, rng.uniform(-0.3, 0.3)}, {0, 1, rng.uniform(-0.3, 0.3)}, {0, 0, 1}}; matmul(M, S); d += " sheared"; }
    if (rng.chance(0.25)) { const double S[3][3] = {{1, 0, 0}, {0, -1, 0}, {0, 0, 1}}; matmul(M, S); d += " mirrored"; }
    if (rng.chance(0.4)) { const double th = rng.uniform(0, 6.283185307179586); const double R[3][3] = {{std::cos(th), -std::sin(th), 0}, {std::sin(th), std::cos(th), 0}, {0, 0, 1}}; matmul(M, R); d += " rotated"; }
    if (rng.chance(0.15)) { b.t[0] = rng.uniform(1e5, 6e5); b.t[1] = rng.uniform(1e6, 7e6); d += " utm"; }
    else if (rng.chance(0.5)) { b.t[0] = rng.uniform(-500, 500); b.t[1] = rng.uniform(-500, 500); b.t[2] = rng.uniform(-50, 50); }
    // pillar end points
    const double lo = *std::min_element(b.cz.begin(), b.cz.end()), hi = *std::max_element(b.cz.begin(), b.cz.end());
    b.plo.resize(b.px.size()); b.phi.resize(b.px.size());
    const bool vertical = M[0][2] == 0 && M[1][2] == 0;
    cs.degeneratePillars = vertical && rng.chance(0.15);
    if (cs.degeneratePillars) d += " degenerate-pillars";
    for (size_t n = 0; n < b.px.size(); ++n) {
        b.plo[n] = lo - rng.uniform(0, 50); b.phi[n] = hi + rng.uniform(0, 50);
        if (cs.degeneratePillars) b.phi[n] = b.plo[n];      // top and bottom point coincide: a vertical pillar
    }
    fillPrismVolumes(b);
    cs.detail = "cp" + d + " style" + std::to_string(style);
}

std::string header(const CaseSpec& cs, bool withDimens = true) {
    std::ostringstream o;
    const Base& b = cs.base;
    o << "RUNSPEC\n";
    if (withDimens) o << "DIMENS\n " << b.nx << " " << b.ny << " " << b.nz << " /\n";
    o << UNITS[cs.unit].kw << "\nGRID\n";
    if (cs.specgrid) o << "SPECGRID\n " << b.nx << " " << b.ny << " " << b.nz << " 1 F /\n";
    return o.str();
}

std::string extrasText(const CaseSpec& cs, bool actnum = true) {
    std::ostringstream o;
    if (actnum) putActnum(o, cs.actnum, cs.actnum.size() % 2 == 0);
    if (cs.hasMapaxes) {
        if (cs.mapunits >= 0) o << "MAPUNITS\n " << UNITS[cs.mapunits].gridunit << " /\n";
        o << "MAPAXES\n";
        for (double v : cs.mapaxes) o << " " << num(v);
        o << " /\n";
    }
    if (cs.gridunitKw) o << "GRIDUNIT\n " << UNITS[cs.gridunit].gridunit << " /\n";
    if (!cs.nncRec.empty()) {
        o << "NNC\n";
        for (size_t r = 0; r < cs.nncRec.size(); ++r) {
            for (int v : cs.nncRec[r]) o << " " << v;
            o << " " << num(cs.nncTrans[r]) << " /\n";
        }
        o << "/\n";
    }
    return o.str();
}

std::string blockDeck(const CaseSpec& cs) { return header(cs) + cs.blockKw + extrasText(cs); }

std::string cpDeck(const CaseSpec& cs, const Geo& g) {
    std::ostringstream o;
    o << header(cs);
    putArray(o, "COORD", g.coord);
    putArray(o, "ZCORN", g.zcorn);
    o << extrasText(cs);
    return o.str();
}

} // namespace

namespace {

// ---------------------------------------------------------------------------------------------
// monitor plumbing
// ---------------------------------------------------------------------------------------------
struct Monitor {
    vh::Reporter& rep;
    std::function<std::string()> witness;
    std::set<std::string> reported;           // one witness per key and case
    std::map<std::string, long> cnt;
    double TOL = 1e-12;                       // relative tolerance between double precision forms
    double FTOL = 6.0e-8;                     // unformatted REAL: 2^-24 = 5.96e-8 of the value, round to nearest
    // formatted REAL is written with 8 significant decimal digits (E16.8): float rounding + up to 5e-8 decimal rounding +
    // float rounding again on input
    double FTOL_FORMATTED = 1.8e-7;

    explicit Monitor(vh::Reporter& r) : rep(r) {}
    void count(const std::string& k, long n = 1) { cnt[k] += n; }
    // |a-b| <= tol ; the ratio error/tolerance is recorded per kind of comparison
    std::vector<std::pair<const char*, double>> ratios;
    bool close(const char* what, double a, double b, double tol) {
        const double e = std::fabs(a - b);
        const bool ok = e <= tol;               // false for NaN
        const double r = ok ? (tol > 0 ? e / tol : 0.0) : 1e300;
        for (auto& p : ratios) if (p.first == what || !strcmp(p.first, what)) { if (r > p.second) p.second = r; return ok; }
        ratios.emplace_back(what, r);
        return ok;
    }
    void viol(const std::string& key, const std::string& what) {
        if (!reported.insert(key).second) return;
        rep.violation(key, what, witness());
    }
    void flush() {
        for (auto& c : cnt) rep.count(c.first, c.second);
        for (auto& c : ratios) rep.maxof(std::string("max_err_over_tol ") + c.first, c.second);
        cnt.clear(); ratios.clear(); reported.clear();
    }
};

std::string fmt(const char* f, ...) {
    char b[600];
    va_list ap; va_start(ap, f); vsnprintf(b, sizeof b, f, ap); va_end(ap);
    return b;
}

// ---------------------------------------------------------------------------------------------
// index maps
// ---------------------------------------------------------------------------------------------
void checkIndex(Monitor& m, const Opm::EclipseGrid& g, const Base& b, const std::vector<int>& act, const std::string& form) {
    const size_t n = b.ncell();
    if ((int)g.getNX() != b.nx || (int)g.getNY() != b.ny || (int)g.getNZ() != b.nz || g.getCartesianSize() != n) {
        m.viol("index:dimensions", fmt("%s: grid is %zux%zux%zu, model is %dx%dx%d", form.c_str(), g.getNX(), g.getNY(), g.getNZ(), b.nx, b.ny, b.nz));
        return;
    }
    size_t nact = 0;
    for (int a : act) nact += a > 0;
    if (g.getNumActive() != nact) m.viol("index:num-active", fmt("%s: getNumActive() = %zu, ACTNUM has %zu active cells", form.c_str(), g.getNumActive(), nact));
    if (g.allActive() != (nact == n)) m.viol("index:num-active", fmt("%s: allActive() = %d with %zu of %zu cells active", form.c_str(), (int)g.allActive(), nact, n));
    const auto& amap = g.getActiveMap();
    const auto& actnum = g.getACTNUM();
    if (amap.size() != nact) m.viol("index:active-map", fmt("%s: getActiveMap() has %zu entries, %zu active cells", form.c_str(), amap.size(), nact));
    if (actnum.size() != n) m.viol("index:actnum", fmt("%s: getACTNUM() has %zu entries for %zu cells", form.c_str(), actnum.size(), n));
    size_t rank = 0;
    long cmp = 0;
    for (int k = 0; k < b.nz; ++k) for (int j = 0; j < b.ny; ++j) for (int i = 0; i < b.nx; ++i) {
        const size_t gi = (size_t)i + (size_t)b.nx * ((size_t)j + (size_t)b.ny * k);     // the defining formula (natural ordering)
        if (g.getGlobalIndex(i, j, k) != gi)
            m.viol("index:ijk-to-global", fmt("%s: getGlobalIndex(%d,%d,%d) = %zu, expected %zu", form.c_str(), i, j, k, g.getGlobalIndex(i, j, k), gi));
        const auto ijk = g.getIJK(gi);
        if (ijk[0] != i || ijk[1] != j || ijk[2] != k)
            m.viol("index:global-to-ijk", fmt("%s: getIJK(%zu) = (%d,%d,%d), expected (%d,%d,%d)", form.c_str(), gi, ijk[0], ijk[1], ijk[2], i, j, k));
        const bool a = act[gi] > 0;
        if (g.cellActive(gi) != a || g.cellActive(i, j, k) != a)
            m.viol("index:cell-active", fmt("%s: cellActive(%zu) = %d, ACTNUM = %d", form.c_str(), gi, (int)g.cellActive(gi), act[gi]));
        if (actnum.size() == n && (actnum[gi] > 0) != a)
            m.viol("index:actnum", fmt("%s: getACTNUM()[%zu] = %d, ACTNUM given = %d", form.c_str(), gi, actnum[gi], act[gi]));
        if (a) {
            size_t ai = ~(size_t)0, ai2 = ~(size_t)0;
            try { ai = g.activeIndex(gi); ai2 = g.activeIndex(i, j, k); } catch (const std::exception& e) {
                m.viol("index:global-to-active", fmt("%s: activeIndex(%zu) throws for an active cell: %s", form.c_str(), gi, e.what()));
            }
            if (ai != rank || ai2 != rank)
                m.viol("index:global-to-active", fmt("%s: activeIndex(%zu) = %zu / %zu, the cell is active cell number %zu", form.c_str(), gi, ai, ai2, rank));
            if (rank < amap.size()) {
                if ((size_t)amap[rank] != gi || g.getGlobalIndex(rank) != gi)
                    m.viol("index:active-to-global", fmt("%s: active cell %zu maps to global %zu / %d, expected %zu", form.c_str(), rank, g.getGlobalIndex(rank), amap[rank], gi));
            }
            ++rank;
        } else {
            // an inactive cell has no active index: returning one breaks "mutual inverses"
            bool threw = false; size_t ai = 0;
            try { ai = g.activeIndex(gi); } catch (const std::exception&) { threw = true; }
            if (!threw) m.viol("index:active-index-of-inactive-cell", fmt("%s: activeIndex(%zu) = %zu for a cell with ACTNUM 0", form.c_str(), gi, ai));
        }
        cmp += 6;
    }
    // compressedVector picks the active entries
    std::vector<int> iota(n);
    std::iota(iota.begin(), iota.end(), 0);
    const auto cv = g.compressedVector(iota);
    if (cv.size() != nact || !std::equal(cv.begin(), cv.end(), amap.begin()))
        m.viol("index:compressed-vector", form + ": compressedVector(0..n-1) differs from the active map");
    // ActiveGridCells built from the active map
    Opm::ActiveGridCells agc(g.getNXYZ(), amap.data(), amap.size());
    const auto an = agc.actNum();
    rank = 0;
    for (size_t gi = 0; gi < n; ++gi) {
        const bool a = act[gi] > 0;
        const auto ijk = g.getIJK(gi);
        const int lc = agc.localCell(gi), lc2 = agc.localCell(ijk[0], ijk[1], ijk[2]);
        if (agc.cellActive(gi) != a || agc.cellActive(ijk[0], ijk[1], ijk[2]) != a || (an[gi] > 0) != a || lc != (a ? (int)rank : -1) || lc2 != lc)
            m.viol("index:ActiveGridCells", fmt("%s: ActiveGridCells: cell %zu active=%d localCell=%d/%d actNum=%d, ACTNUM %d, active number %zu", form.c_str(), gi, (int)agc.cellActive(gi), lc, lc2, an[gi], act[gi], rank));
        rank += a;
        cmp += 3;
    }
    m.count("index_comparisons", cmp);
    m.count("index_cells_checked", (long)n);
}

// ---------------------------------------------------------------------------------------------
// geometry against the model
// ---------------------------------------------------------------------------------------------
double volTol(const Monitor& m, const Geo& ref, size_t c) {
    // a volume reacts to a displacement d of its corners by at most (surface area) * d; corners are known to
    // TOL relative to the coordinate magnitude => condition-aware tolerance
    return m.TOL * ref.smax() * hexSurface(ref.corner[c]);
}

void checkGeometry(Monitor& m, const Opm::EclipseGrid& g, const Geo& ref, const std::string& form, const std::string& family) {
    const size_t n = ref.corner.size();
    long nc = 0, nv = 0, nt = 0;
    for (size_t c = 0; c < n; ++c) {
        const auto ijk = g.getIJK(c);
        for (int k8 = 0; k8 < 8; ++k8) {
            const auto p = g.getCornerPos(ijk[0], ijk[1], ijk[2], k8);
            for (int d = 0; d < 3; ++d) {
                if (!m.close("corner position", p[d], ref.corner[c][k8][d], m.TOL * std::max(ref.scale[d], 1e-300)))
                    m.viol("corner-position:" + form, fmt("%s: cell %zu corner %d coordinate %d = %.17g, model %.17g", form.c_str(), c, k8, d, p[d], ref.corner[c][k8][d]));
            }
            nc += 3;
        }
        const double v = g.getCellVolume(c), v2 = g.getCellVolume(ijk[0], ijk[1], ijk[2]);
        if (!(v > 0) || v2 != v)
            m.viol("volume-not-positive", fmt("%s: cell %zu volume %.17g / %.17g (model cell is not degenerate)", form.c_str(), c, v, v2));
        const double tol = volTol(m, ref, c);
        if (!std::isnan(ref.vexact[c])) {
            ++nv;
            if (!m.close("volume vs exact", v, ref.vexact[c], tol))
                m.viol("volume-exact:" + family, fmt("%s: cell %zu volume %.17g, exact %.17g (relative %.3g)", form.c_str(), c, v, ref.vexact[c], vh::reldiff(v, ref.vexact[c])));
        }
        if (ref.planarFaces) {
            ++nt;
            const double vt = hexVolumeTetra(ref.corner[c]);
            if (!m.close("volume vs tetrahedra", v, vt, tol))
                m.viol("volume-exact:" + family, fmt("%s: cell %zu volume %.17g, sum of tetrahedra %.17g (relative %.3g)", form.c_str(), c, v, vt, vh::reldiff(v, vt)));
            // the two references are independent of each other: disagreement is a fault of this harness
            if (!std::isnan(ref.vexact[c]) && !(std::fabs(vt - ref.vexact[c]) <= tol))
                m.viol("oracle-inconsistent", fmt("cell %zu: tetrahedra %.17g vs closed form / prism formula %.17g", c, vt, ref.vexact[c]));
        }
    }
    m.count("corner_coordinate_comparisons", nc);
    m.count("volume_vs_exact_comparisons", nv);
    m.count("volume_vs_tetrahedra_comparisons", nt);
}

// block-centred input against its closed forms (the numbers of the keywords themselves)
// returns false when the defect "TOPS below the top layer ignored" was met (so that the caller skips the
// comparisons which only repeat it)
bool checkBlockClosedForms(Monitor& m, const Opm::EclipseGrid& g, const CaseSpec& cs, const Geo& ref) {
    const double L = lengthUnit(cs);
    const size_t n = cs.base.ncell();
    const double tx = m.TOL * ref.scale[0], ty = m.TOL * ref.scale[1], tz = m.TOL * ref.scale[2], txy = m.TOL * std::max(ref.scale[0], ref.scale[1]);
    bool gapDefect = false;
    for (size_t c = 0; c < n; ++c) {
        const auto ctr = g.getCellCenter(c);
        const auto dims = g.getCellDims(c);
        const double depth = g.getCellDepth(c), thick = g.getCellThickness(c);
        const size_t layer = c / ((size_t)cs.base.nx * cs.base.ny);
        if (cs.gapped && layer > 0 && !(std::fabs(depth - cs.bdepth[c] * L) <= tz)) {
            m.viol("tops-below-top-layer-ignored", fmt("block-centred input %s: cell %zu (layer %zu) has depth %.17g, TOPS+DZ/2 = %.17g: TOPS values given for layers below the first are not used",
                                                       cs.blockForm.c_str(), c, layer + 1, depth, cs.bdepth[c] * L));
            gapDefect = true;
            continue;
        }
        const std::string f = cs.family == "depthz" ? "DEPTHZ" : "TOPS";
        if (!m.close("block depth", depth, cs.bdepth[c] * L, tz) || !m.close("block depth", ctr[2], cs.bdepth[c] * L, tz))
            m.viol("block-depth:" + f, fmt("%s: cell %zu depth %.17g centre z %.17g, closed form %.17g", cs.blockForm.c_str(), c, depth, ctr[2], cs.bdepth[c] * L));
        if (!m.close("block centre", ctr[0], cs.bcx[c] * L, tx) || !m.close("block centre", ctr[1], cs.bcy[c] * L, ty))
            m.viol("block-centre:" + f, fmt("%s: cell %zu centre (%.17g, %.17g), closed form (%.17g, %.17g)", cs.blockForm.c_str(), c, ctr[0], ctr[1], cs.bcx[c] * L, cs.bcy[c] * L));
        if (!m.close("block dims", dims[0], cs.bdx[c] * L, txy) || !m.close("block dims", dims[1], cs.bdy[c] * L, txy) || !m.close("block dims", dims[2], cs.bdz[c] * L, tz)
            || !m.close("block dims", thick, cs.bdz[c] * L, tz))
            m.viol("block-dims:" + f, fmt("%s: cell %zu dims (%.17g, %.17g, %.17g) thickness %.17g, keywords give (%.17g, %.17g, %.17g)", cs.blockForm.c_str(), c, dims[0], dims[1], dims[2], thick,
                                          cs.bdx[c] * L, cs.bdy[c] * L, cs.bdz[c] * L));
    }
    m.count("block_closed_form_comparisons", (long)n * 9);
    return !gapDefect;
}

// two input forms of the same grid
void checkForms(Monitor& m, const Opm::EclipseGrid& a, const std::string& na, const Opm::EclipseGrid& b, const std::string& nb, const Geo& ref) {
    const size_t n = ref.corner.size();
    const std::string pair = na + "~" + nb;
    if (a.getCartesianSize() != n || b.getCartesianSize() != n) { m.viol("forms:dimensions:" + pair, "the two forms have different numbers of cells"); return; }
    const double txy = m.TOL * std::max(ref.scale[0], ref.scale[1]), tz = m.TOL * ref.scale[2];
    for (size_t c = 0; c < n; ++c) {
        const double va = a.getCellVolume(c), vb = b.getCellVolume(c);
        if (!m.close("forms volume", va, vb, volTol(m, ref, c)))
            m.viol("forms:volume:" + pair, fmt("cell %zu: volume %.17g (%s) vs %.17g (%s)", c, va, na.c_str(), vb, nb.c_str()));
        const auto ca = a.getCellCenter(c), cb = b.getCellCenter(c);
        for (int d = 0; d < 3; ++d)
            if (!m.close("forms centre", ca[d], cb[d], m.TOL * ref.scale[d]))
                m.viol("forms:centre:" + pair, fmt("cell %zu: centre[%d] %.17g (%s) vs %.17g (%s)", c, d, ca[d], na.c_str(), cb[d], nb.c_str()));
        const double da = a.getCellDepth(c), db = b.getCellDepth(c);
        if (!m.close("forms depth", da, db, tz))
            m.viol("forms:depth:" + pair, fmt("cell %zu: depth %.17g (%s) vs %.17g (%s)", c, da, na.c_str(), db, nb.c_str()));
        const auto ma = a.getCellDims(c), mb = b.getCellDims(c);
        for (int d = 0; d < 3; ++d)
            if (!m.close("forms dims", ma[d], mb[d], d < 2 ? txy : tz))
                m.viol("forms:dims:" + pair, fmt("cell %zu: dims[%d] %.17g (%s) vs %.17g (%s)", c, d, ma[d], na.c_str(), mb[d], nb.c_str()));
        if (!m.close("forms dims", a.getCellThickness(c), b.getCellThickness(c), tz))
            m.viol("forms:dims:" + pair, fmt("cell %zu: thickness %.17g (%s) vs %.17g (%s)", c, a.getCellThickness(c), na.c_str(), b.getCellThickness(c), nb.c_str()));
    }
    if (a.getACTNUM() != b.getACTNUM()) m.viol("forms:actnum:" + pair, "ACTNUM differs between " + na + " and " + nb);
    m.count("forms_comparisons", (long)n * 9);
    m.count("forms_pairs");
}

// ---------------------------------------------------------------------------------------------
// threads
// ---------------------------------------------------------------------------------------------
int teamSize(int want) {
    int got = 0;
    omp_set_num_threads(want);
    #pragma omp parallel
    {
        #pragma omp single
        got = omp_get_num_threads();
    }
    return got;
}

void checkThreads(Monitor& m, const Opm::EclipseGrid& g, const std::string& form, bool fullTeams) {
    static const int T[3] = {1, 4, 16};
    std::vector<double> v[3];
    for (int t = 0; t < 3; ++t) {
        Opm::EclipseGrid c(g);                  // the volumes are cached per object: a fresh copy per thread count
        omp_set_num_threads(T[t]);
        v[t] = c.activeVolume();
    }
    omp_set_num_threads(1);
    for (int t = 1; t < 3; ++t) {
        bool same = v[t].size() == v[0].size();
        size_t at = 0;
        for (size_t i = 0; same && i < v[0].size(); ++i) if (vh::bits(v[t][i]) != vh::bits(v[0][i])) { same = false; at = i; }
        if (!same)
            m.viol("volume-depends-on-threads", fmt("%s: activeVolume() with %d threads differs from 1 thread at active cell %zu: %.17g vs %.17g (sizes %zu, %zu)", form.c_str(), T[t], at,
                                                    at < v[t].size() ? v[t][at] : NaN, at < v[0].size() ? v[0][at] : NaN, v[t].size(), v[0].size()));
    }
    if (v[0].size() != g.getNumActive()) m.viol("active-volume-index", fmt("%s: activeVolume() has %zu entries, %zu active cells", form.c_str(), v[0].size(), g.getNumActive()));
    // activeVolume is indexed by active index: entry a is the volume of cell getGlobalIndex(a), computed directly on an
    // object without cache (same formula, same input: a few ulp at most)
    for (size_t a = 0; a < v[0].size() && a < g.getNumActive(); ++a) {
        const double d = g.getCellVolume(g.getGlobalIndex(a));
        if (!(vh::reldiff(d, v[0][a]) <= 1e-14))
            m.viol("active-volume-index", fmt("%s: activeVolume()[%zu] = %.17g, getCellVolume(global %zu) = %.17g", form.c_str(), a, v[0][a], g.getGlobalIndex(a), d));
    }
    // ... and getCellVolume() must give the same answers on an object whose cache HAS been filled (the shortcut through the cache
    // is taken only there): every cell, active or not, against the object without cache
    {
        Opm::EclipseGrid c(g);
        (void)c.activeVolume();
        for (size_t gi = 0; gi < g.getCartesianSize(); ++gi) {
            const double d = g.getCellVolume(gi), e = c.getCellVolume(gi);
            if (!(vh::reldiff(d, e) <= 1e-14)) { m.viol("cell-volume-depends-on-cache", fmt("%s: getCellVolume(%zu) = %.17g before activeVolume() was called, %.17g after", form.c_str(), gi, d, e)); break; }
        }
        m.count("cell_volume_comparisons_with_filled_cache", (long)g.getCartesianSize());
    }
    m.count("thread_volume_comparisons", (long)v[0].size() * 2);
    if (fullTeams) m.count("thread_volume_comparisons_with_teams_of_1_4_16", (long)v[0].size() * 2);
    m.count("active_volume_index_comparisons", (long)v[0].size());
}

} // namespace

namespace {

std::vector<double> scaled(const std::vector<double>& v, double f) { std::vector<double> r(v); for (auto& x : r) x *= f; return r; }

// ---------------------------------------------------------------------------------------------
// additivity under subdivision
// ---------------------------------------------------------------------------------------------
void checkSubdivision(Monitor& m, Rng& rng, const CaseSpec& cs, const Opm::EclipseGrid& coarse, const Geo& refSI, long maxRefined, Opm::Parser& parser) {
    const Base& b = cs.base;
    int r[3] = {1 + (int)rng.below(3), 1 + (int)rng.below(3), 1 + (int)rng.below(3)};
    if (r[0] * r[1] * r[2] == 1) r[rng.below(3)] = 2;
    while ((long)b.ncell() * r[0] * r[1] * r[2] > maxRefined) {
        int* big = std::max_element(r, r + 3);
        if (*big == 1) return;
        --*big;
        if (r[0] * r[1] * r[2] == 1) return;
    }
    const double L = lengthUnit(cs);
    const Base fb = refine(b, r[0], r[1], r[2]);
    const Geo fine = render(fb, L);
    std::unique_ptr<Opm::EclipseGrid> fg;
    std::string form = "VEC";
    try {
        if (fb.ncell() <= 600 && rng.chance(0.3)) {
            CaseSpec fs; fs.unit = cs.unit; fs.gridunitKw = cs.gridunitKw; fs.gridunit = cs.gridunit; fs.base = fb; fs.actnum.assign(fb.ncell(), 1);
            const Geo fdeck = render(fb, 1.0);
            fg = std::make_unique<Opm::EclipseGrid>(parser.parseString(cpDeck(fs, fdeck)));
            form = "COORD";
        } else {
            fg = std::make_unique<Opm::EclipseGrid>(std::array<int, 3>{fb.nx, fb.ny, fb.nz}, fine.coord, fine.zcorn);
        }
    } catch (const std::exception& e) {
        m.viol("exception:refined-grid", fmt("the %dx%dx%d subdivision of the grid is refused: %s", r[0], r[1], r[2], e.what()));
        return;
    }
    if (fg->getZcornFixed() != 0) { m.count("refined_grids_with_zcorn_fixup"); return; }
    checkGeometry(m, *fg, fine, "refined-" + form, cs.family + "-refined");
    for (int k = 0; k < b.nz; ++k) for (int j = 0; j < b.ny; ++j) for (int i = 0; i < b.nx; ++i) {
        const size_t c = b.cell(i, j, k);
        double sum = 0, surf = hexSurface(refSI.corner[c]), exactSum = 0;
        for (int c3 = 0; c3 < r[2]; ++c3) for (int c2 = 0; c2 < r[1]; ++c2) for (int c1 = 0; c1 < r[0]; ++c1) {
            const size_t fc = fb.cell(i * r[0] + c1, j * r[1] + c2, k * r[2] + c3);
            sum += fg->getCellVolume(fc);
            surf += hexSurface(fine.corner[fc]);
            exactSum += fine.vexact[fc];
        }
        const double v = coarse.getCellVolume(c), tol = m.TOL * refSI.smax() * surf;
        if (!m.close("subdivision sum", sum, v, tol))
            m.viol("volume-not-additive", fmt("cell %zu: volume %.17g, its %dx%dx%d sub-cells sum to %.17g (relative %.3g)", c, v, r[0], r[1], r[2], sum, vh::reldiff(sum, v)));
        if (!std::isnan(exactSum) && !std::isnan(refSI.vexact[c]) && !(std::fabs(exactSum - refSI.vexact[c]) <= tol))
            m.viol("oracle-inconsistent", fmt("cell %zu: exact volume %.17g, exact volumes of the sub-cells sum to %.17g", c, refSI.vexact[c], exactSum));
    }
    m.count("subdivision_cells_compared", (long)b.ncell());
    m.count("subdivision_subcells", (long)fb.ncell());
    m.rep.cover("subdivision", fmt("%dx%dx%d", r[0], r[1], r[2]));
}

// ---------------------------------------------------------------------------------------------
// EGRID save -> load
// ---------------------------------------------------------------------------------------------
std::string trimmed(const std::string& s) {
    size_t a = s.find_first_not_of(' '), b = s.find_last_not_of(' ');
    return a == std::string::npos ? std::string() : s.substr(a, b - a + 1);
}

// The two geometry accessors of the low level reader in the order layer -> cell.  The call sequence is run in a child
// process because the failure mode is a wild read (the monitor itself must survive to report it).
bool readerSurvivesLayerThenCorners(const std::string& file) {
    fflush(stdout); fflush(stderr);
    const pid_t pid = fork();
    if (pid < 0) return true;
    if (pid == 0) {
        int rc = 0;
        try {
            Opm::EclIO::EGrid eg(file);
            const auto lay = eg.getXYZ_layer(0, false);
            std::array<double, 8> X, Y, Z;
            eg.getCellCorners(0, X, Y, Z);
            // the first cell's top corners must also agree with the layer just read (guards against a silent wild read)
            for (int n = 0; n < 4; ++n) if (!(std::fabs((double)lay[n][2] - Z[n]) <= 1e-6 * std::max(1.0, std::fabs(Z[n])))) rc = 3;
        } catch (...) { rc = 0; }    // a refusal is not a crash
        _exit(rc);
    }
    int st = 0;
    if (waitpid(pid, &st, 0) != pid) return true;
    return WIFEXITED(st) && WEXITSTATUS(st) == 0;
}

void checkEgrid(Monitor& m, Rng& rng, const CaseSpec& cs, const Opm::EclipseGrid& g, const std::string& form, const Geo& refSI,
                const std::vector<Opm::NNCdata>& nnc, const std::string& nncSource, const std::string& dir, long idx, Opm::Parser& parser, bool allCombos, bool orderProbe) {
    const Base& b = cs.base;
    const size_t n = b.ncell();
    for (int f = 0; f < 2; ++f) for (int su = 0; su < 3; ++su) {
        if (!allCombos && !((f + su + idx) % 3 == 0)) continue;
        const bool formatted = f == 1;
        const std::string combo = std::string(formatted ? "formatted" : "unformatted") + "/" + UNITS[su].kw;
        const std::string file = dir + "/C13_" + std::to_string(idx) + (formatted ? ".FEGRID" : ".EGRID");
        const double Ls = UNITS[su].L;
        const double ft = formatted ? m.FTOL_FORMATTED : m.FTOL;
        // derived x/y positions also carry the error of the depths along a tilted pillar: largest coordinate magnitude as scale
        const double dscale[3] = {refSI.smax(), refSI.smax(), refSI.scale[2]};
        mkdir(m.rep.args.out.c_str(), 0755); mkdir(dir.c_str(), 0755);   // survive a foreign clean-up of the work directory
        std::remove(file.c_str());
        m.rep.cover("egrid", combo);
        try {
            g.save(file, formatted, nnc, makeUnits(su));
        } catch (const std::exception& e) {
            m.viol("egrid:save-throws", combo + ": " + e.what());
            continue;
        }
        try {
            // ---- EclipseGrid(file)
            Opm::EclipseGrid l(file);
            checkIndex(m, l, b, cs.actnum, "EGRID-" + combo);
            if (l.getCartesianSize() != n) { std::remove(file.c_str()); continue; }
            if (l.getACTNUM() != g.getACTNUM()) m.viol("egrid:actnum", combo + ": ACTNUM read back differs from the ACTNUM saved");
            const auto& c0 = g.getCOORD(); const auto& c1 = l.getCOORD();
            const auto& z0 = g.getZCORN(); const auto& z1 = l.getZCORN();
            if (c0.size() != c1.size() || z0.size() != z1.size()) m.viol("egrid:coord", combo + ": COORD/ZCORN sizes differ after reload");
            else {
                // every value is stored as one REAL: relative error 2^-24 of the value itself
                for (size_t i = 0; i < c0.size(); ++i)
                    if (!m.close("egrid COORD", c1[i], c0[i], ft * std::fabs(c0[i]) + 1e-300))
                        m.viol("egrid:coord", fmt("%s: COORD[%zu] saved %.17g, read back %.17g", combo.c_str(), i, c0[i], c1[i]));
                for (size_t i = 0; i < z0.size(); ++i)
                    if (!m.close("egrid ZCORN", z1[i], z0[i], ft * std::fabs(z0[i]) + 1e-300))
                        m.viol("egrid:zcorn", fmt("%s: ZCORN[%zu] saved %.17g, read back %.17g", combo.c_str(), i, z0[i], z1[i]));
                m.count("egrid_coord_zcorn_values_compared", (long)(c0.size() + z0.size()));
            }
            // derived geometry of the reloaded grid (float precision of the coordinates, condition-aware for volumes)
            for (size_t c = 0; c < n; ++c) {
                const auto ca = g.getCellCenter(c), cb = l.getCellCenter(c);
                for (int d = 0; d < 3; ++d)
                    if (!m.close("egrid centre", cb[d], ca[d], 2 * ft * dscale[d]))
                        m.viol("egrid:geometry", fmt("%s: cell %zu centre[%d] %.17g, after reload %.17g", combo.c_str(), c, d, ca[d], cb[d]));
                if (!m.close("egrid depth", l.getCellDepth(c), g.getCellDepth(c), 2 * ft * refSI.scale[2]))
                    m.viol("egrid:geometry", fmt("%s: cell %zu depth %.17g, after reload %.17g", combo.c_str(), c, g.getCellDepth(c), l.getCellDepth(c)));
                if (!m.close("egrid volume", l.getCellVolume(c), g.getCellVolume(c), 2 * ft * refSI.smax() * hexSurface(refSI.corner[c])))
                    m.viol("egrid:geometry", fmt("%s: cell %zu volume %.17g, after reload %.17g", combo.c_str(), c, g.getCellVolume(c), l.getCellVolume(c)));
            }
            m.count("egrid_cells_compared", (long)n);
            // map axes and units
            const auto& ma = g.getMapAxes(); const auto& mb = l.getMapAxes();
            if (ma.has_value() != mb.has_value()) m.viol("egrid:mapaxes", combo + (ma ? ": MAPAXES lost" : ": MAPAXES appeared"));
            else if (ma) {
                bool same = ma->input().size() == mb->input().size();
                // unformatted: the six REALs come back bit for bit and the objects compare equal; formatted: 8 decimal digits
                for (size_t i = 0; same && i < ma->input().size(); ++i)
                    same = formatted ? std::fabs((double)ma->input()[i] - (double)mb->input()[i]) <= ft * std::fabs((double)ma->input()[i])
                                     : vh::bits(ma->input()[i]) == vh::bits(mb->input()[i]);
                if (!same || (!formatted && !(*ma == *mb))) m.viol("egrid:mapaxes", combo + ": MAPAXES values differ after reload");
                const std::string ua = ma->mapunits() ? trimmed(*ma->mapunits()) : "<none>", ub = mb->mapunits() ? trimmed(*mb->mapunits()) : "<none>";
                if (ua != ub) m.viol("egrid:mapunits", combo + ": MAPUNITS " + ua + " became " + ub);
                // what the map axes DO: grid <-> map positions of a few points must agree between the grid saved and the grid loaded
                // (to the precision of the six REALs in the file; the origin is scaled by the MAPUNITS length on both routes)
                // The file holds the six numbers as REALs: a direction of the map frame is the difference of two of them, so its
                // relative error is eps * scale / (length of the axis) and the position error grows with the distance from the origin.
                double scale = 1000.0;
                for (double v : ma->input()) scale = std::max(scale, std::fabs((double)v));
                std::vector<double> in(ma->input().begin(), ma->input().end());
                const double axis = std::max(1e-3, std::min(std::hypot(in[4] - in[2], in[5] - in[3]), std::hypot(in[0] - in[2], in[1] - in[3])));
                const double eps = (formatted ? 4e-7 : 1.2e-7) * scale;
                const double P[4][2] = {{0, 0}, {100, 50}, {-30, 1000}, {2500, -400}};
                for (auto& p0 : P) {
                    const double dist = std::hypot(p0[0], p0[1]);
                    const double ttol = 4 * eps + 8 * (eps / axis) * dist;
                    double xa = p0[0], ya = p0[1], xb = p0[0], yb = p0[1];
                    ma->transform(xa, ya); mb->transform(xb, yb);
                    if (!(std::fabs(xa - xb) <= ttol && std::fabs(ya - yb) <= ttol))
                        m.viol("egrid:mapaxes-transform", fmt("%s: MapAxes::transform(%g, %g) = (%.10g, %.10g) for the grid saved, (%.10g, %.10g) after reload (MAPUNITS %s, tolerance %.3g)", combo.c_str(), p0[0], p0[1], xa, ya, xb, yb, ua.c_str(), ttol));
                    // back from the map position of that point
                    double ia = xa, ja = ya, ib = xa, jb = ya;
                    ma->inv_transform(ia, ja); mb->inv_transform(ib, jb);
                    const double itol = 4 * ttol + 1e-9 * scale;
                    if (!(std::fabs(ia - ib) <= itol && std::fabs(ja - jb) <= itol))
                        m.viol("egrid:mapaxes-transform", fmt("%s: MapAxes::inv_transform(map position of (%g, %g)) = (%.10g, %.10g) for the grid saved, (%.10g, %.10g) after reload (MAPUNITS %s, tolerance %.3g)", combo.c_str(), p0[0], p0[1], ia, ja, ib, jb, ua.c_str(), itol));
                }
                m.count("egrid_mapaxes_compared");
            }
            // ---- the low level reader
            Opm::EclIO::EGrid eg(file);
            {
                const auto gu = eg.get<std::string>("GRIDUNIT");
                if (gu.empty() || trimmed(gu[0]) != UNITS[su].gridunit)
                    m.viol("egrid:gridunit", combo + ": GRIDUNIT in the file is '" + (gu.empty() ? std::string() : gu[0]) + "'");
                const auto d = eg.dimension();
                if (d[0] != b.nx || d[1] != b.ny || d[2] != b.nz || eg.totalNumberOfCells() != (int)n || eg.activeCells() != (int)g.getNumActive())
                    m.viol("egrid:dimensions", fmt("%s: EGrid reports %dx%dx%d, %d cells, %d active", combo.c_str(), d[0], d[1], d[2], eg.totalNumberOfCells(), eg.activeCells()));
                int rank = 0;
                for (int k = 0; k < b.nz; ++k) for (int j = 0; j < b.ny; ++j) for (int i = 0; i < b.nx; ++i) {
                    const int gi = i + b.nx * (j + b.ny * k);
                    const bool a = cs.actnum[gi] > 0;
                    const auto ijk = eg.ijk_from_global_index(gi);
                    bool ok = eg.global_index(i, j, k) == gi && ijk[0] == i && ijk[1] == j && ijk[2] == k && eg.active_index(i, j, k) == (a ? rank : -1);
                    if (ok && a) { const auto q = eg.ijk_from_active_index(rank); ok = q[0] == i && q[1] == j && q[2] == k; }
                    if (!ok) m.viol("index:EGrid", fmt("%s: EGrid index maps wrong at cell (%d,%d,%d): global %d active %d", combo.c_str(), i, j, k, eg.global_index(i, j, k), eg.active_index(i, j, k)));
                    rank += a;
                }
                m.count("index_comparisons", (long)n * 4);
                const auto& fm = eg.get_mapaxes();
                bool fsame = ma.has_value() == !fm.empty() && (!ma || fm.size() == ma->input().size());
                for (size_t i = 0; fsame && ma && i < fm.size(); ++i)
                    fsame = formatted ? std::fabs((double)fm[i] - (double)ma->input()[i]) <= ft * std::fabs((double)ma->input()[i]) : vh::bits(fm[i]) == vh::bits(ma->input()[i]);
                if (!fsame) m.viol("egrid:mapaxes", combo + ": EGrid::get_mapaxes() differs from the MAPAXES saved");
                const std::string fu = trimmed(eg.get_mapunits());
                if (fu != ((ma && ma->mapunits()) ? trimmed(*ma->mapunits()) : std::string())) m.viol("egrid:mapunits", combo + ": EGrid::get_mapunits() = '" + fu + "'");
                // NNC
                const auto rn = eg.get_nnc_ijk();
                bool ok = rn.size() == nnc.size();
                for (size_t q = 0; ok && q < nnc.size(); ++q) {
                    const size_t c1 = nnc[q].cell1, c2 = nnc[q].cell2, area = (size_t)b.nx * b.ny;
                    ok = std::get<0>(rn[q]) == (int)(c1 % b.nx) && std::get<1>(rn[q]) == (int)((c1 % area) / b.nx) && std::get<2>(rn[q]) == (int)(c1 / area)
                      && std::get<3>(rn[q]) == (int)(c2 % b.nx) && std::get<4>(rn[q]) == (int)((c2 % area) / b.nx) && std::get<5>(rn[q]) == (int)(c2 / area);
                }
                if (!ok) m.viol("egrid:nnc", fmt("%s: %zu NNCs saved (%s), %zu read back or cells differ", combo.c_str(), nnc.size(), nncSource.c_str(), rn.size()));
                m.count("egrid_nnc_compared", (long)nnc.size());
                // corner positions in file units (float) through the reader; unformatted: layers straight from disk first
                std::vector<std::vector<std::array<float, 3>>> layers;
                if (!formatted) {
                    Opm::EclIO::EGrid eg2(file);      // a reader of its own: see readerSurvivesLayerThenCorners()
                    for (int k = 0; k < b.nz; ++k) for (int bot = 0; bot < 2; ++bot) layers.push_back(eg2.getXYZ_layer(k, bot == 1));
                    if (orderProbe && idx % 4 == 0 && !readerSurvivesLayerThenCorners(file))
                        m.viol("egrid:reader-crash-corners-after-layer", combo + ": EclIO::EGrid::getXYZ_layer() followed by getCellCorners() on the same object kills the process "
                               "(getXYZ_layer fills coord_array only, getCellCorners then indexes the empty zcorn_array)");
                    if (orderProbe && idx % 4 == 0) m.count("egrid_reader_call_order_probes");
                }
                for (size_t c = 0; c < n; ++c) {
                    std::array<double, 8> X, Y, Z;
                    eg.getCellCorners((int)c, X, Y, Z);
                    const auto ijk = g.getIJK(c);
                    for (int k8 = 0; k8 < 8; ++k8) {
                        const auto p = g.getCornerPos(ijk[0], ijk[1], ijk[2], k8);
                        const double q[3] = {X[k8], Y[k8], Z[k8]};
                        for (int d = 0; d < 3; ++d)
                            if (!m.close("egrid reader corners", q[d] * Ls, p[d], 2 * ft * dscale[d]))
                                m.viol("egrid:reader-corners", fmt("%s: EGrid::getCellCorners cell %zu corner %d coordinate %d = %.9g file units, grid has %.9g m", combo.c_str(), c, k8, d, q[d], p[d]));
                        if (!formatted) {
                            const auto& lay = layers[2 * ijk[2] + (k8 >> 2)];
                            const size_t at = 4 * ((size_t)ijk[0] + (size_t)b.nx * ijk[1]) + (k8 & 3);
                            for (int d = 0; d < 3; ++d)
                                if (at >= lay.size() || !m.close("egrid reader layers", (double)lay[at][d] * Ls, q[d] * Ls, 2 * ft * dscale[d]))
                                    m.viol("egrid:reader-layers", fmt("%s: EGrid::getXYZ_layer(%d,%d) point %zu coordinate %d = %.9g, getCellCorners gives %.9g", combo.c_str(), ijk[2], k8 >> 2, at, d,
                                                                      at < lay.size() ? (double)lay[at][d] : NaN, q[d]));
                        }
                    }
                }
                m.count("egrid_reader_corner_comparisons", (long)n * 24 * (formatted ? 1 : 2));
            }
            // ---- the GDFILE keyword
            if (rng.chance(0.5)) {
                const bool dimens = rng.chance(0.5);
                std::ostringstream o;
                if (dimens) o << "RUNSPEC\nDIMENS\n " << b.nx << " " << b.ny << " " << b.nz << " /\n";
                o << "GRID\nGDFILE\n '" << file << "' " << (formatted ? "F" : "U") << " /\n";
                Opm::EclipseGrid gd(parser.parseString(o.str()));
                bool same = gd.getNXYZ() == l.getNXYZ() && gd.getACTNUM() == l.getACTNUM() && gd.getCOORD().size() == c1.size() && gd.getZCORN().size() == z1.size();
                for (size_t i = 0; same && i < c1.size(); ++i) same = vh::bits(gd.getCOORD()[i]) == vh::bits(c1[i]);
                for (size_t i = 0; same && i < z1.size(); ++i) same = vh::bits(gd.getZCORN()[i]) == vh::bits(z1[i]);
                if (!same) m.viol("egrid:gdfile", combo + ": the grid loaded through GDFILE differs from EclipseGrid(file)");
                m.count("egrid_gdfile_loads");
                m.rep.cover("gdfile", dimens ? "with DIMENS" : "dimensions from the file");
            }
            m.count("egrid_round_trips");
        } catch (const std::exception& e) {
            m.viol("egrid:load-throws", combo + ": reading back the file just saved fails: " + e.what());
        }
        std::remove(file.c_str());
    }
}

std::string describe(const CaseSpec& cs) {
    std::ostringstream o;
    o.precision(17);
    const Base& b = cs.base;
    o << "family " << cs.family << " (" << cs.detail << ") " << b.nx << "x" << b.ny << "x" << b.nz << " " << UNITS[cs.unit].kw << " ACTNUM " << cs.actPattern;
    o << "\naffine map M =";
    for (int i = 0; i < 3; ++i) for (int j = 0; j < 3; ++j) o << " " << b.M[i][j];
    o << " t = " << b.t[0] << " " << b.t[1] << " " << b.t[2] << "\n";
    return o.str();
}

} // namespace

int main(int argc, char** argv) {
    vh::Args args = vh::parse_args(argc, argv);
    vh::Reporter rep(args, "C13");
    const bool thorough = args.tier == "thorough";
    const std::string mode = args.get("mode", "all");            // all | threads
    const int maxDim = (int)args.geti("max_dim", thorough ? 14 : 10);
    const int big = (int)args.geti("big", thorough ? 40 : 24);   // occasional larger grids (threads need work to share)
    const long maxRefined = args.geti("max_refined", thorough ? 20000 : 5000);
    const bool topsGaps = args.geti("tops_gaps", 1) != 0;
    const bool orderProbe = args.geti("reader_order_probe", 1) != 0;
    const std::string dir = vh::scratch_dir(args);
    Opm::Parser parser;
    omp_set_dynamic(0);
    bool fullTeams = true;
    for (int t : {1, 4, 16}) {
        const int got = teamSize(t);
        rep.cover("omp_team_size", "requested " + std::to_string(t) + " got " + std::to_string(got));
        if (got != t) fullTeams = false;
    }
    omp_set_num_threads(1);

    rep.run_cases([&](long idx, Rng& rng) {
        Monitor m(rep);
        m.TOL = args.getd("tol", 1e-12);
        CaseSpec cs;
        int nx, ny, nz;
        genDims(rng, maxDim, big, nx, ny, nz);
        cs.unit = (int)rng.below(4);
        const double fam = rng.unit();
        if (fam < 0.33) { cs.family = "tops"; genTops(rng, cs, nx, ny, nz, false); }
        else if (fam < 0.38 && topsGaps) { cs.family = "topsgap"; genTops(rng, cs, nx, ny, nz, true); }
        else if (fam < 0.50) { cs.family = "depthz"; genDepthz(rng, cs, nx, ny, nz); }
        else { cs.family = "cp"; genCp(rng, cs, nx, ny, nz); }
        genActnum(rng, cs);
        genExtras(rng, cs);
        const Base& b = cs.base;
        const bool block = cs.family != "cp";
        const double L = lengthUnit(cs);
        const Geo deckGeo = render(b, 1.0);      // deck units: what goes into COORD / ZCORN
        const Geo si = render(b, L);             // SI: the reference
        const std::string cpText = cpDeck(cs, deckGeo);
        const std::string blockText = block ? blockDeck(cs) : std::string();
        m.witness = [&]() {
            std::string w = describe(cs);
            if (block) w += "--- block-centred deck ---\n" + blockText;
            w += "--- COORD/ZCORN deck ---\n" + cpText;
            return w.size() > 400000 ? w.substr(0, 400000) + "\n[cut]" : w;
        };
        uint64_t h = vh::fnv(cs.family + cs.detail + cs.actPattern + UNITS[cs.unit].kw);
        h = vh::fnv(b.px.data(), b.px.size() * 8, h); h = vh::fnv(b.py.data(), b.py.size() * 8, h); h = vh::fnv(b.cz.data(), b.cz.size() * 8, h);
        h = vh::fnv(&b.M[0][0], 72, h); h = vh::fnv(b.t, 24, h); h = vh::fnv(cs.actnum.data(), cs.actnum.size() * sizeof(int), h);

        // ---- the library: up to three input forms of the same grid
        struct Form { std::string name; std::unique_ptr<Opm::EclipseGrid> g; };
        std::vector<Form> forms;
        auto build = [&](const std::string& name, const std::function<std::unique_ptr<Opm::EclipseGrid>()>& f) {
            try { forms.push_back({name, f()}); }
            catch (const std::exception& e) { m.viol("exception:" + name, "a valid grid is refused in form " + name + ": " + std::string(e.what()).substr(0, 300)); }
        };
        const std::string blockName = cs.family == "depthz" ? "DEPTHZ" : "TOPS";
        if (mode == "threads") {
            if (block && idx % 2 == 0) build(blockName, [&] { return std::make_unique<Opm::EclipseGrid>(parser.parseString(blockText)); });
            else build("VEC", [&] { return std::make_unique<Opm::EclipseGrid>(std::array<int, 3>{b.nx, b.ny, b.nz}, si.coord, si.zcorn, cs.actnum.data()); });
            for (auto& f : forms) checkThreads(m, *f.g, f.name, fullTeams);
            rep.cover("family", cs.family);
            rep.count("cells", (long)b.ncell());
            rep.case_done(h, !forms.empty() && b.ncell() >= 4);
            m.flush();
            return;
        }
        if (block) build(blockName, [&] { return std::make_unique<Opm::EclipseGrid>(parser.parseString(blockText)); });
        build("COORD", [&] { return std::make_unique<Opm::EclipseGrid>(parser.parseString(cpText)); });
        build("VEC", [&] {
            // ACTNUM reaches this form by one of the other routes of the class
            switch (idx % 3) {
            case 0: return std::make_unique<Opm::EclipseGrid>(std::array<int, 3>{b.nx, b.ny, b.nz}, si.coord, si.zcorn, cs.actnum.data());
            case 1: { Opm::EclipseGrid all(std::array<int, 3>{b.nx, b.ny, b.nz}, si.coord, si.zcorn); return std::make_unique<Opm::EclipseGrid>(all, cs.actnum); }
            default: { auto p = std::make_unique<Opm::EclipseGrid>(std::array<int, 3>{b.nx, b.ny, b.nz}, si.coord, si.zcorn); p->resetACTNUM(cs.actnum); return p; }
            }
        });
        rep.cover("actnum_route_of_VEC", idx % 3 == 0 ? "constructor pointer" : idx % 3 == 1 ? "EclipseGrid(src, actnum)" : "resetACTNUM(vector)");

        bool blockUsable = block;
        long fixups = 0;
        for (auto& f : forms) {
            checkIndex(m, *f.g, b, cs.actnum, f.name);
            fixups += (long)f.g->getZcornFixed();
            if (f.g->getZcornFixed() != 0) rep.cover("grids_with_zcorn_adjusted_by_the_library", f.name);
            if (f.g->getCartesianSize() != b.ncell()) continue;
            if (block && f.name == blockName) {
                blockUsable = checkBlockClosedForms(m, *f.g, cs, si);
                if (!blockUsable) continue;      // known class of defect reported under its own key: do not repeat it under the general keys
            }
            checkGeometry(m, *f.g, si, f.name, cs.family);
            checkThreads(m, *f.g, f.name, fullTeams);
        }
        rep.count("zcorn_values_adjusted_by_the_library", fixups);
        for (size_t a = 0; a < forms.size(); ++a) for (size_t c = a + 1; c < forms.size(); ++c) {
            if (!blockUsable && (forms[a].name == blockName || forms[c].name == blockName)) continue;
            if (forms[a].g->getCartesianSize() != b.ncell() || forms[c].g->getCartesianSize() != b.ncell()) continue;
            checkForms(m, *forms[a].g, forms[a].name, *forms[c].g, forms[c].name, si);
        }
        // ZCORN produced by the block-centred path against the model (layout of the conversion)
        if (block && blockUsable && !forms.empty() && forms[0].name == blockName && forms[0].g->getZCORN().size() == si.zcorn.size()) {
            const auto& z = forms[0].g->getZCORN();
            for (size_t i = 0; i < z.size(); ++i)
                if (!m.close("block ZCORN", z[i], si.zcorn[i], m.TOL * si.scale[2]))
                    m.viol("block-zcorn:" + blockName, fmt("ZCORN[%zu] made from %s is %.17g, model %.17g", i, cs.blockForm.c_str(), z[i], si.zcorn[i]));
            m.count("block_zcorn_values_compared", (long)z.size());
        }

        const Opm::EclipseGrid* vec = nullptr; const Opm::EclipseGrid* deckForm = nullptr; std::string deckFormName;
        for (auto& f : forms) {
            if (f.name == "VEC") vec = f.g.get();
            if (f.g->getCartesianSize() != b.ncell()) continue;
            if (f.name == "COORD" && (!deckForm || idx % 2 == 0 || !blockUsable)) { deckForm = f.g.get(); deckFormName = f.name; }
            if (f.name == blockName && block && blockUsable && (!deckForm || idx % 2 == 1)) { deckForm = f.g.get(); deckFormName = f.name; }
        }
        // ---- additivity
        if (vec && vec->getCartesianSize() == b.ncell() && rng.chance(0.6)) checkSubdivision(m, rng, cs, *vec, si, maxRefined, parser);
        // ---- NNC and EGRID
        if (deckForm) {
            std::vector<Opm::NNCdata> nnc; std::string src = "none";
            try {
                const auto deck = parser.parseString(deckFormName == "COORD" ? cpText : blockText);
                Opm::NNC lib(*deckForm, deck);
                // reference: records whose two cells are active, cell1 <= cell2, ordered by (cell1, cell2)
                std::vector<std::pair<size_t, size_t>> expect;
                for (const auto& r : cs.nncRec) {
                    const size_t g1 = b.cell(r[0] - 1, r[1] - 1, r[2] - 1), g2 = b.cell(r[3] - 1, r[4] - 1, r[5] - 1);
                    if (cs.actnum[g1] > 0 && cs.actnum[g2] > 0) expect.emplace_back(std::min(g1, g2), std::max(g1, g2));
                }
                std::sort(expect.begin(), expect.end());
                bool ok = lib.input().size() == expect.size();
                for (size_t q = 0; ok && q < expect.size(); ++q) ok = lib.input()[q].cell1 == expect[q].first && lib.input()[q].cell2 == expect[q].second;
                if (!ok) m.viol("nnc:input", fmt("NNC keyword with %zu records: %zu connections between active cells expected, the NNC class holds %zu or other cells", cs.nncRec.size(), expect.size(), lib.input().size()));
                m.count("nnc_records_checked", (long)cs.nncRec.size());
                if (idx % 2 == 0) { nnc = lib.input(); src = "NNC class"; }
                else {
                    // any list of global cell pairs, as a simulator would pass it (unordered, either orientation)
                    for (const auto& r : cs.nncRec) nnc.emplace_back(b.cell(r[0] - 1, r[1] - 1, r[2] - 1), b.cell(r[3] - 1, r[4] - 1, r[5] - 1), 1.0);
                    src = "direct list";
                }
            } catch (const std::exception& e) { m.viol("exception:NNC", std::string("NNC construction throws: ") + e.what()); }
            rep.cover("nnc_source", src + (nnc.empty() ? " (empty)" : ""));
            rep.cover("egrid_saved_from", deckFormName);
            checkEgrid(m, rng, cs, *deckForm, deckFormName, si, nnc, src, dir, idx, parser, b.ncell() <= 400, orderProbe);
        }

        // ---- evidence
        rep.cover("family", cs.family);
        rep.cover("units", UNITS[cs.unit].kw);
        if (cs.gridunitKw) rep.cover("gridunit_vs_deck_units", std::string(UNITS[cs.unit].kw) + "+GRIDUNIT " + UNITS[cs.gridunit].gridunit);
        rep.cover("actnum_pattern", cs.actPattern);
        if (block) rep.cover("block_form", cs.blockForm);
        {
            std::istringstream is(cs.detail); std::string w;
            while (is >> w) if (w.rfind("style", 0) == 0 || cs.family == "cp") rep.cover("generator_feature", w);
        }
        if (cs.hasMapaxes) rep.cover("mapaxes", cs.mapunits >= 0 ? std::string("MAPUNITS ") + UNITS[cs.mapunits].gridunit : "no MAPUNITS");
        const size_t nc = b.ncell();
        rep.cover("size_class", nc <= 8 ? "<=8" : nc <= 64 ? "<=64" : nc <= 512 ? "<=512" : nc <= 4096 ? "<=4096" : ">4096");
        rep.count("cells", (long)nc);
        rep.count("grids_built", (long)forms.size());
        size_t nact = 0; for (int a : cs.actnum) nact += a > 0;
        const bool nontrivial = forms.size() >= 2 && nc >= 4;
        if (nact > 0 && nact < nc) rep.count("cases_with_active_and_inactive_cells");
        rep.case_done(h, nontrivial);
        if (idx < 2) rep.sample(describe(cs) + (block ? blockText : cpText));
        m.flush();
    });
    rep.finish();
    return 0;
}
